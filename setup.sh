#!/bin/bash
# setup_cmd: build the framework from files on disk only (offline) and warm the Go build cache.
set -u
cd "$(dirname "$0")"
export GOFLAGS=-mod=mod GOPROXY=off
rc=0
for id in $(cut -f1 checks.tsv | sort -u); do
  ./check build "$id" || rc=1
done
exit $rc
