#!/usr/bin/env python3
"""Generate MANIFEST.json from checks.meta.json + properties.jsonl + hooks.json."""
import json, os
V = os.path.dirname(os.path.dirname(os.path.abspath(__file__)))
props = [json.loads(l) for l in open(os.path.join(V, "properties.jsonl"))]
meta = json.load(open(os.path.join(V, "checks.meta.json")))
hooks = json.load(open(os.path.join(V, "hooks.json")))
m = {"version": 1, "setup_cmd": "./setup.sh", "hooks": hooks, "engines": meta["engines"], "checks": [], "not_applicable": [],
     "notes": meta.get("notes", "")}
for p in props:
    i = p["id"]
    c = meta["checks"].get(i)
    if c:
        m["checks"].append({
            "property_id": i, "quick_cmd": f"./check {i} quick", "thorough_cmd": f"./check {i} thorough",
            "evidence_file": f"/verif/evidence/{i}.json", "replay_cmd_template": "./check replay {path}",
            "engine": c["engine"],
            "level_claimed": {"category": c["level"], "text": c["text"], "design_ref": c["ref"]},
            "level_note": c["note"], "technique": c["technique"]})
    else:
        m["not_applicable"].append({"property_id": i, "reason": meta["pending"].get(i, "check not built yet (planned in DESIGN.md section 6); not a claim that model checking cannot apply")})
for e in m["engines"]:
    e["serves_properties"] = sorted(k for k, c in meta["checks"].items() if e["name"] in c["engine"].split("+"))
json.dump(m, open(os.path.join(V, "MANIFEST.json"), "w"), indent=1)
