#!/bin/bash
# tools/seedcheck.sh <ID> [check ids...] : confirm a seeded change produced in /tmp/seed/<ID> (patch applies,
# builds, pinned suite passes with it, demonstration fails with / passes without), run our checks against it,
# and store it under /verif/seeded/<ID>/.
set -u
ID=$1; shift
CHECKS=${@:-${ID:0:3}}   # ids like C03b are further changes for property C03
W=/tmp/seed/$ID; S=$W/.seed
export GOFLAGS=-mod=mod GOPROXY=off
[ -f $S/patch.diff ] || { echo "no patch.diff"; exit 2; }
[ -f $S/demo.sh ] || { echo "no demo.sh (looking for test files)"; ls $S; }
cd $W
# the worktree is reset to exactly .seed/patch.diff (never git stash: refs/stash is shared by all worktrees)
git checkout -q -- . && git apply $S/patch.diff || { echo "patch.diff does not apply"; exit 2; }
git diff > /tmp/seed/$ID.patch
echo "--- files changed:"; git diff --stat | tail -5
echo "--- build:"; go build ./... && echo build-ok
echo "--- demo WITH change:"; (bash $S/demo.sh >/tmp/seed/$ID.demo.with 2>&1; echo "rc=$?"); tail -3 /tmp/seed/$ID.demo.with | cut -c1-200
git apply -R /tmp/seed/$ID.patch
echo "--- demo WITHOUT change:"; (bash $S/demo.sh >/tmp/seed/$ID.demo.without 2>&1; echo "rc=$?"); tail -2 /tmp/seed/$ID.demo.without | cut -c1-200
git apply /tmp/seed/$ID.patch
echo "--- pinned suite with the change:"; BASELINE_REPO=$W /verif/tools/baseline.sh /tmp/seed/$ID.baseline.json | tail -4; rm -f /tmp/seed/$ID.baseline.json
echo "--- our checks:"; cd /verif && tools/trymut.sh /tmp/seed/$ID.patch $CHECKS 2>&1 | cut -c1-330
