// instr is the build-time source rewriter of Engine T (standard library only).
//
//	instr <repo> <outdir> <relpath>[:point-regexp] ...
//
// For every listed file it writes a rewritten copy to <outdir>/<relpath>:
//   - the imports "sync", "sync/atomic" and "math/rand/v2" are redirected to the shim packages (same local names),
//     so every sync.Mutex, sync.Once, sync.Pool, atomic.Int32 ... in that file becomes a shim type;
//   - `go f(x)` becomes `sync.Go(func() func() { a := x; return func() { f(a) } }())`: arguments are
//     still evaluated by the spawning goroutine, the new goroutine is a scheduler thread;
//   - optional textual substitutions route `for k := range m` over shared maps through sync.RangeOrder, which
//     lets the harness own (and explore) the iteration order Go leaves unspecified;
//   - a call to vsyncrt.Point(label) is inserted before every statement whose source text matches
//     the optional regular expression (for shared objects of third-party packages).
//
// The rewrite is mechanical and whole-file, so any change to the repository that still compiles
// flows through it unchanged. The build overlay maps the copies over the originals.
package main

import (
	"bytes"
	"fmt"
	"go/ast"
	"go/format"
	"go/parser"
	"go/token"
	"os"
	"path/filepath"
	"regexp"
	"strconv"
	"strings"
)

const (
	shimSync   = "github.com/saucelabs/forwarder/internal/zzverif/vsync"
	shimAtomic = "github.com/saucelabs/forwarder/internal/zzverif/vsync/vatomic"
	shimRand   = "github.com/saucelabs/forwarder/internal/zzverif/vsync/vrand"
	shimPool   = "github.com/saucelabs/forwarder/internal/zzverif/vpool"
)

func main() {
	if len(os.Args) < 4 {
		fmt.Fprintln(os.Stderr, "usage: instr <repo> <outdir> <relpath>[:point-regexp] ...")
		os.Exit(2)
	}
	repo, out := os.Args[1], os.Args[2]
	for _, spec := range os.Args[3:] {
		parts := strings.SplitN(spec, "::", 3)
		rel, re, subs := parts[0], "", ""
		if len(parts) > 1 {
			re = parts[1]
		}
		if len(parts) > 2 {
			subs = parts[2]
		}
		if re == "@poolonly" {
			if err := poolOnly(filepath.Join(repo, rel), filepath.Join(out, rel)); err != nil {
				fmt.Fprintf(os.Stderr, "instr: %s: %v\n", rel, err)
				os.Exit(1)
			}
			continue
		}
		if err := rewrite(filepath.Join(repo, rel), filepath.Join(out, rel), re, subs); err != nil {
			fmt.Fprintf(os.Stderr, "instr: %s: %v\n", rel, err)
			os.Exit(1)
		}
	}
}

func rewrite(src, dst, pointRe, subs string) error {
	fset := token.NewFileSet()
	b, err := os.ReadFile(src)
	if err != nil {
		if os.IsNotExist(err) {
			return nil
		}
		return err
	}
	// textual substitutions "old=>new;;old2=>new2" (used to route `range <map>` through vsync.RangeOrder);
	// a substitution whose left side is absent is skipped: the rewrite must never break a modified tree
	for _, sub := range strings.Split(subs, ";;") {
		if strings.HasPrefix(sub, "@range|") {
			// "@range|<func>|<map expr>|<label func>": every `for k, v := range <map expr>` inside <func> visits
			// the keys in the order vsync.RangeOrder decides (found by syntax, so edits around the loop do not
			// detach the rule)
			f := strings.SplitN(sub, "|", 4)
			nb, n, err := ownRange(src, b, f[1], f[2], f[3])
			if err != nil {
				return err
			}
			if n == 0 {
				fmt.Fprintf(os.Stderr, "rewrite: %s: no `range %s` in %s (a map iteration order may be unowned)\n", src, f[2], f[1])
			}
			b = nb
			continue
		}
		if o, n, ok := strings.Cut(sub, "=>"); ok && bytes.Contains(b, []byte(o)) {
			b = bytes.ReplaceAll(b, []byte(o), []byte(n))
		} else if ok {
			fmt.Fprintf(os.Stderr, "rewrite: %s: substitution skipped, its left side is absent (a map iteration order may be unowned): %q\n", src, o)
		}
	}
	f, err := parser.ParseFile(fset, src, b, parser.ParseComments)
	if err != nil {
		return err
	}
	syncName := ""
	for _, im := range f.Imports {
		p, _ := strconv.Unquote(im.Path.Value)
		switch p {
		case "sync":
			im.Path.Value = strconv.Quote(shimSync)
			if im.Name == nil {
				im.Name = ast.NewIdent("sync")
			}
			syncName = im.Name.Name
		case "sync/atomic":
			im.Path.Value = strconv.Quote(shimAtomic)
			if im.Name == nil {
				im.Name = ast.NewIdent("atomic")
			}
		case "math/rand/v2":
			// jitter must be owned by the harness (deterministic schedules)
			im.Path.Value = strconv.Quote(shimRand)
			if im.Name == nil {
				im.Name = ast.NewIdent("rand")
			}
		}
	}
	hasGo := false
	ast.Inspect(f, func(n ast.Node) bool {
		if _, ok := n.(*ast.GoStmt); ok {
			hasGo = true
		}
		return true
	})
	var re *regexp.Regexp
	if pointRe != "" {
		re = regexp.MustCompile(pointRe)
		// statements without positions are going to be inserted: comments inside the declarations would be
		// re-attached at arbitrary places by the printer (and can swallow code), so only those in front of the
		// package clause (build constraints) are kept
		var keep []*ast.CommentGroup
		for _, cg := range f.Comments {
			if cg.End() < f.Package {
				keep = append(keep, cg)
			}
		}
		f.Comments = keep
	}
	if (hasGo || re != nil) && syncName == "" {
		syncName = "vsyncrt"
		addImport(f, syncName, shimSync)
	}
	text := func(n ast.Node) string {
		return string(b[fset.Position(n.Pos()).Offset:fset.Position(n.End()).Offset])
	}
	var fix func(list []ast.Stmt) []ast.Stmt
	fix = func(list []ast.Stmt) []ast.Stmt {
		var out []ast.Stmt
		for _, st := range list {
			if g, ok := st.(*ast.GoStmt); ok {
				out = append(out, goToThread(g, syncName))
				continue
			}
			if re != nil {
				_, isBlock := st.(*ast.BlockStmt)
				switch st.(type) {
				case *ast.CaseClause, *ast.CommClause, *ast.LabeledStmt:
					isBlock = true // (the clauses of a switch/select are the elements of its block: nothing can stand between them)
				}
				if !isBlock {
					first := strings.SplitN(text(st), "\n", 2)[0]
					if re.MatchString(first) {
						out = append(out, &ast.ExprStmt{X: &ast.CallExpr{Fun: sel(syncName, "Point"), Args: []ast.Expr{&ast.BasicLit{Kind: token.STRING, Value: strconv.Quote(strings.TrimSpace(first))}}}})
					}
				}
			}
			out = append(out, st)
		}
		return out
	}
	ast.Inspect(f, func(n ast.Node) bool {
		switch n := n.(type) {
		case *ast.BlockStmt:
			n.List = fix(n.List)
		case *ast.CaseClause:
			n.Body = fix(n.Body)
		case *ast.CommClause:
			n.Body = fix(n.Body)
		}
		return true
	})
	var buf bytes.Buffer
	if err := format.Node(&buf, fset, f); err != nil {
		return err
	}
	if err := os.MkdirAll(filepath.Dir(dst), 0o755); err != nil {
		return err
	}
	return os.WriteFile(dst, buf.Bytes(), 0o644)
}

func sel(pkg, name string) ast.Expr {
	return &ast.SelectorExpr{X: ast.NewIdent(pkg), Sel: ast.NewIdent(name)}
}

func addImport(f *ast.File, name, path string) {
	spec := &ast.ImportSpec{Name: ast.NewIdent(name), Path: &ast.BasicLit{Kind: token.STRING, Value: strconv.Quote(path)}}
	for _, d := range f.Decls {
		if gd, ok := d.(*ast.GenDecl); ok && gd.Tok == token.IMPORT {
			gd.Specs = append(gd.Specs, spec)
			if !gd.Lparen.IsValid() {
				gd.Lparen = gd.Pos()
			}
			f.Imports = append(f.Imports, spec)
			return
		}
	}
	f.Decls = append([]ast.Decl{&ast.GenDecl{Tok: token.IMPORT, Specs: []ast.Spec{spec}}}, f.Decls...)
	f.Imports = append(f.Imports, spec)
}

// poolOnly redirects every sync.Pool of the file to the adversarial pool model (engine/vpool) and leaves
// everything else as it is.
func poolOnly(src, dst string) error {
	fset := token.NewFileSet()
	b, err := os.ReadFile(src)
	if err != nil {
		if os.IsNotExist(err) {
			return nil
		}
		return err
	}
	f, err := parser.ParseFile(fset, src, b, parser.ParseComments)
	if err != nil {
		return err
	}
	syncName := ""
	for _, im := range f.Imports {
		if p, _ := strconv.Unquote(im.Path.Value); p == "sync" {
			syncName = "sync"
			if im.Name != nil {
				syncName = im.Name.Name
			}
		}
	}
	if syncName == "" {
		return nil
	}
	n := 0
	ast.Inspect(f, func(nd ast.Node) bool {
		if se, ok := nd.(*ast.SelectorExpr); ok {
			if id, ok := se.X.(*ast.Ident); ok && id.Name == syncName && id.Obj == nil && se.Sel.Name == "Pool" {
				id.Name = "zzvpool"
				n++
			}
		}
		return true
	})
	if n == 0 {
		return nil
	}
	var buf bytes.Buffer
	if err := format.Node(&buf, fset, f); err != nil {
		return err
	}
	out := buf.String()
	// add the import and keep "sync" referenced
	i := strings.Index(out, "import (")
	if i < 0 {
		return fmt.Errorf("no import block")
	}
	out = out[:i] + "import zzvpool \"" + shimPool + "\"\n\n" + out[i:] + "\nvar _ " + syncName + ".Locker\n"
	if err := os.MkdirAll(filepath.Dir(dst), 0o755); err != nil {
		return err
	}
	return os.WriteFile(dst, []byte(out), 0o644)
}

// ownRange rewrites the header of every range statement over mapExpr inside function fn.
func ownRange(src string, b []byte, fn, mapExpr, label string) ([]byte, int, error) {
	fset := token.NewFileSet()
	f, err := parser.ParseFile(fset, src, b, 0)
	if err != nil {
		return nil, 0, err
	}
	type edit struct {
		from, to int
		text     string
	}
	var edits []edit
	for _, d := range f.Decls {
		fd, ok := d.(*ast.FuncDecl)
		if !ok || fd.Body == nil || fd.Name.Name != fn {
			continue
		}
		ast.Inspect(fd.Body, func(n ast.Node) bool {
			rs, ok := n.(*ast.RangeStmt)
			if !ok || rs.Tok != token.DEFINE {
				return true
			}
			xs := string(b[fset.Position(rs.X.Pos()).Offset:fset.Position(rs.X.End()).Offset])
			if xs != mapExpr {
				return true
			}
			name := func(e ast.Expr) string {
				if id, ok := e.(*ast.Ident); ok && id.Name != "_" {
					return id.Name
				}
				return ""
			}
			k, v := name(rs.Key), ""
			if rs.Value != nil {
				v = name(rs.Value)
			}
			if k == "" {
				k = "zzvK"
			}
			text := fmt.Sprintf("for _, %s := range sync.RangeOrder(%s, %s) {", k, mapExpr, label)
			if v != "" {
				text += fmt.Sprintf(" %s := %s[%s];", v, mapExpr, k)
			}
			edits = append(edits, edit{fset.Position(rs.For).Offset, fset.Position(rs.Body.Lbrace).Offset + 1, text})
			return true
		})
	}
	for i := len(edits) - 1; i >= 0; i-- {
		e := edits[i]
		b = append(append(append([]byte{}, b[:e.from]...), e.text...), b[e.to:]...)
	}
	return b, len(edits), nil
}

// goToThread: go fn(a, b) => pkg.Go(func() func() { v0, v1, v2 := fn, a, b; return func() { v0(v1, v2) } }())
func goToThread(g *ast.GoStmt, pkg string) ast.Stmt {
	call := g.Call
	var lhs []ast.Expr
	var rhs []ast.Expr
	fn := ast.NewIdent("zzvFn")
	lhs = append(lhs, fn)
	rhs = append(rhs, call.Fun)
	var args []ast.Expr
	for i, a := range call.Args {
		v := ast.NewIdent(fmt.Sprintf("zzvA%d", i))
		lhs = append(lhs, v)
		rhs = append(rhs, a)
		args = append(args, v)
	}
	inner := &ast.FuncLit{Type: &ast.FuncType{Params: &ast.FieldList{}}, Body: &ast.BlockStmt{List: []ast.Stmt{
		&ast.ExprStmt{X: &ast.CallExpr{Fun: fn, Args: args, Ellipsis: call.Ellipsis}},
	}}}
	outer := &ast.FuncLit{
		Type: &ast.FuncType{Params: &ast.FieldList{}, Results: &ast.FieldList{List: []*ast.Field{{Type: &ast.FuncType{Params: &ast.FieldList{}}}}}},
		Body: &ast.BlockStmt{List: []ast.Stmt{
			&ast.AssignStmt{Lhs: lhs, Tok: token.DEFINE, Rhs: rhs},
			&ast.ReturnStmt{Results: []ast.Expr{inner}},
		}},
	}
	return &ast.ExprStmt{X: &ast.CallExpr{Fun: sel(pkg, "Go"), Args: []ast.Expr{&ast.CallExpr{Fun: outer}}}}
}
