module instr

go 1.23
