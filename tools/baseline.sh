#!/bin/bash
# Run the repository's pinned baseline (guard off) and compare with BASELINE.json: every stable_pass test must pass.
cd ${BASELINE_REPO:-/repo} && export GOFLAGS=-mod=mod GOPROXY=off
out=${1:-/tmp/baseline.json}
before=$(git status --porcelain 2>/dev/null)
go test -json -vet=off -count=1 -timeout 25m ./... > "$out" 2>/dev/null
# some tests rewrite their golden files when they fail (under load): put back testdata the run itself modified
git status --porcelain 2>/dev/null | while read -r st f; do
  case "$f" in */testdata/*) echo "$before" | grep -qF "$f" || git checkout -q -- "$f" 2>/dev/null;; esac
done
python3 - "$out" <<'PY'
import json,sys
passed=set(); failed=set()
for l in open(sys.argv[1]):
    try: e=json.loads(l)
    except: continue
    if e.get("Test") and e.get("Action") in("pass","fail"):
        k=e["Package"]+"::"+e["Test"]
        (passed if e["Action"]=="pass" else failed).add(k)
b=json.load(open("/root/.vp/BASELINE.json"))
sp=set(b["stable_pass"])
missing=sorted(sp-passed)
print("stable_pass:",len(sp),"passed now:",len(sp&passed),"not passing:",len(missing))
for m in missing: print("  MISSING",m, "(failed)" if m in failed else "(not run)")
PY
