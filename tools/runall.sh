#!/bin/bash
# tools/runall.sh [quick|thorough] [ids...] - run checks, print one summary line each
tier=${1:-quick}; shift
ids=${@:-$(cut -f1 /verif/checks.tsv)}
for id in $ids; do
  out=$(cd /verif && ./check $id $tier 2>&1); rc=$?
  echo "$id rc=$rc $(echo "$out" | grep -E '^SUMMARY|^HARNESS' | tail -1 | cut -c1-220)"
  echo "$out" | grep -E "^(VIOLATION|KNOWN)" | cut -c1-160 | head -5
done
