#!/bin/bash
# tools/seedall-par.sh [N] : tools/seedall.sh for every archived seeded change, N (default 6) at a time; one line per
# change on stdout, "NOT CAUGHT" lines repeated at the end; exit 0 iff every change is reported.
cd "$(dirname "$0")/.."
N=${1:-6}
out=$(mktemp /tmp/seedall.XXXXXX)
ls seeded | grep '^C' | xargs -P "$N" -I{} sh -c 'tools/seedall.sh {} 2>&1 | head -4' | tee "$out"
echo "---- summary: $(grep -c ' caught:' "$out") caught, $(grep -c 'NOT CAUGHT' "$out") not caught"
grep 'NOT CAUGHT' "$out"
! grep -q 'NOT CAUGHT' "$out"
