#!/bin/bash
# tools/seedall.sh [ids...] : detection regression - run the quick check of every archived seeded change
# (seeded/<id>/patch.diff) against a scratch worktree with the change applied; every one must be reported
# (exit 1 with a VIOLATION line, never a harness error). Prints one line per change; exit 0 iff all caught.
cd "$(dirname "$0")/.."
ids=${@:-$(ls seeded | grep '^C')}
bad=0
for id in $ids; do
  out=$(LINES_MAX=3 tools/trymut.sh seeded/$id/patch.diff ${id:0:3} 2>&1)
  rc=$(echo "$out" | sed -n 's/^== .* rc=\([0-9]*\)$/\1/p' | head -1)
  first=$(echo "$out" | grep -m1 '^  \[' | cut -c1-160)
  if [ "$rc" = 1 ]; then echo "$id caught: $first"; else echo "$id NOT CAUGHT (rc=$rc)"; echo "$out" | tail -3; bad=1; fi
done
exit $bad
