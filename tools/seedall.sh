#!/bin/bash
# tools/seedall.sh [ids...] : detection regression - run the quick check of every archived seeded change
# (seeded/<id>/patch.diff) against a scratch worktree with the change applied; every one must be reported
# (exit 1 with a VIOLATION line, never a harness error). Prints one line per change; exit 0 iff all caught.
cd "$(dirname "$0")/.."
ids=${@:-$(ls seeded | grep '^C')}
bad=0
for id in $ids; do
  # the checks that report it: the C?? ids named in meta.json's caught_by (default: the property's own check)
  checks=$(jq -r '.caught_by // ""' seeded/$id/meta.json 2>/dev/null | grep -o 'C[0-9][0-9]' | sort -u | tr '\n' ' ')
  [ -n "$checks" ] || checks=${id:0:3}
  out=$(LINES_MAX=3 tools/trymut.sh seeded/$id/patch.diff $checks 2>&1)
  rc=$(echo "$out" | sed -n 's/^== .* rc=\([0-9]*\)$/\1/p' | sort -u | grep -m1 -x 1 || echo "$out" | sed -n 's/^== .* rc=\([0-9]*\)$/\1/p' | head -1)
  first=$(echo "$out" | grep -m1 '^  \[' | cut -c1-160)
  if [ "$rc" = 1 ]; then echo "$id caught: $first"; else echo "$id NOT CAUGHT (rc=$rc)"; echo "$out" | tail -3; bad=1; fi
done
exit $bad
