#!/bin/bash
# Mechanical build-time rewrite (never touches the repository): in the listed files sync.Mutex becomes
# vsync.Mutex (a durably-blocking mutex), so that a mutex held across a timed wait cannot freeze the
# virtual clock of a synctest bubble. Output goes to <outdir>/<relpath>; mkoverlay maps it over the original.
set -eu
REPO=$1; OUT=$2
rm -rf "$OUT"; mkdir -p "$OUT"
for f in internal/martian/proxy.go proxyproto/net.go; do
  [ -f "$REPO/$f" ] || continue
  mkdir -p "$OUT/$(dirname "$f")"
  python3 - "$REPO/$f" "$OUT/$f" <<'PY'
import re, sys
src = open(sys.argv[1]).read()
out = re.sub(r'\bsync\.Mutex\b', 'vsync.Mutex', src)
if out != src:
    imp = '\tvsync "github.com/saucelabs/forwarder/internal/zzverif/vsync"\n'
    out = out.replace('import (\n', 'import (\n' + imp, 1)
    body = out.split(')', 1)[1]
    if not re.search(r'\bsync\.', body):
        out = re.sub(r'\n\t"sync"\n', '\n', out, 1)
open(sys.argv[2], 'w').write(out)
PY
done
