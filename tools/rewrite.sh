#!/bin/bash
# Mechanical build-time rewrite (never touches the repository), see tools/instr/main.go: in the listed
# files "sync"/"sync/atomic" are redirected to the shim packages and `go` statements become scheduler
# threads. Without an active scheduler the shims are plain primitives whose Lock blocks durably inside a
# synctest bubble (needed by Engine S: a sync.Mutex held across a timed wait freezes the virtual clock).
# Output goes to <outdir>/<relpath>; mkoverlay maps it over the original.
set -eu
REPO=$1; OUT=$2
V=$(cd "$(dirname "$0")/.." && pwd)
INSTR=$V/.work/instr
if [ ! -x "$INSTR" ] || [ "$V/tools/instr/main.go" -nt "$INSTR" ]; then
  mkdir -p "$V/.work"
  ( cd "$V/tools/instr" && GOFLAGS= GOTOOLCHAIN=local go1.26 build -o "$INSTR" . )
fi
rm -rf "$OUT"; mkdir -p "$OUT"
# every other non-test file that uses sync.Pool gets the adversarial pool model (engine/vpool: storage is
# poisoned at Put, so a use after Put is a deterministic corruption instead of a rare interleaving)
POOLFILES=$(cd "$REPO" && grep -rl --include='*.go' 'sync\.Pool' . 2>/dev/null | grep -v '_test\.go$' | grep -v '^./internal/zzverif/' | sed 's|^\./||' \
  | grep -v -x -e internal/martian/proxy.go -e proxyproto/net.go -e conntrack/conntrack.go -e internal/martian/h2/relay.go -e pac/pool.go -e internal/martian/mitm/mitm.go -e ruleset/regexp.go -e header/header.go -e credentials.go -e internal/martian/header/via_modifier.go | sed 's|$|::@poolonly|')
"$INSTR" "$REPO" "$OUT" $POOLFILES \
  'internal/martian/proxy.go::::@range|Close|p.conns|sync.KeyOf' \
  proxyproto/net.go \
  conntrack/conntrack.go \
  'internal/martian/h2/relay.go::::@range|sendQueuedFramesUnderWindowSize|r.outputBuffers|sync.KeyOf' \
  pac/pool.go \
  'ruleset/regexp.go::.' \
  'header/header.go::.' \
  'credentials.go::.' \
  'internal/martian/header/via_modifier.go::.' \
  'internal/martian/mitm/mitm.go::c\.certs\.(Get|Add)\(|CreateCertificate\(|append\(|copy\('

# Config.Proxy of the h2 relay dials its origin with tls.Dial (real network): the call is redirected to the seam
# verifTLSDial (inpkg/internal/martian/h2/dial.go: tls.Dial unless a harness set VerifTLSDial), so that the real entry
# point - connection preface, wiring of the two relays - runs on the simulated network. Skipped when the call is absent.
f=internal/martian/h2/h2.go
if [ -f "$REPO/$f" ] && grep -q 'tls\.Dial(' "$REPO/$f"; then
  mkdir -p "$OUT/$(dirname $f)"
  [ -f "$OUT/$f" ] || cp "$REPO/$f" "$OUT/$f"
  sed -i 's/\btls\.Dial(/verifTLSDial(/g' "$OUT/$f"
fi
