#!/bin/bash
# tools/seedrebase.sh <ID> <rebased.patch> : install a hand-rebased patch for an archived seeded change
# (keeps the author's version as patch.as-delivered.diff, notes the fact in meta.json)
id=$1; p=$2; d=/verif/seeded/$id
[ -f $d/patch.as-delivered.diff ] || cp $d/patch.diff $d/patch.as-delivered.diff
cp "$p" $d/patch.diff
python3 - $id <<'PY'
import json,sys
p=f'/verif/seeded/{sys.argv[1]}/meta.json'
m=json.load(open(p)); m['rebased']='patch.diff was re-based by hand onto the repaired tree (later fix: commits changed the same lines); the change as its author delivered it is patch.as-delivered.diff'
json.dump(m,open(p,'w'),indent=1)
PY
