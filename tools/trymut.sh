#!/bin/bash
# tools/trymut.sh <patch.diff> <ID> [<ID>...]  - apply a patch to a scratch worktree of /repo (outside /repo and /verif),
# run the quick checks against it, print exit codes, remove the worktree and its build output.
set -u
P=$(realpath "$1"); shift
D=$(mktemp -d /tmp/mut.XXXXXX)
git -C /repo worktree add -q --detach "$D" HEAD || exit 2
( cd "$D" && git apply "$P" ) || { echo "patch does not apply"; git -C /repo worktree remove --force "$D"; exit 2; }
for id in "$@"; do
  out=$(cd /verif && VERIF_REPO=$D VERIF_OUT=$D/.verif-out ./check "$id" ${TIER:-quick} 2>&1); rc=$?
  echo "== $id rc=$rc"; echo "$out" | grep -E "^(VIOLATION|KNOWN|SUMMARY|HARNESS)|^  \[" | cut -c1-400 | head -${LINES_MAX:-8}
done
git -C /repo worktree remove --force "$D"
rm -rf /verif/.work/alt-$(echo "$D" | md5sum | cut -c1-8)
