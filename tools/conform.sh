#!/bin/bash
# tools/conform.sh [quick|thorough] - conformance of the simulated network with real loopback TCP (props/conform):
# the same tunnel scripts are run on simnet and on real sockets against the same proxy code; prints
# DIVERGENCE lines and a CONFORMANCE summary. Not a property check (real time is involved), see DESIGN.md.
set -u
V=$(cd "$(dirname "$0")/.." && pwd)
REPO=${VERIF_REPO:-/repo}
export GOFLAGS=-mod=mod GOPROXY=off GOTOOLCHAIN=local TZ=UTC VERIF_TIER=${1:-quick}
unset GOSUMDB
W=$V/.work/main; mkdir -p $W/bin
"$V/tools/rewrite.sh" "$REPO" "$W/rewrite" || exit 2
python3 "$V/tools/mkoverlay.py" "$REPO" "$W/overlay.json" "$W/rewrite" || exit 2
( cd "$REPO" && go1.26 test -c -tags verif -vet=off -overlay "$W/overlay.json" -o "$W/bin/conform.test" ./internal/zzverif/conform ) || exit 2
cd /tmp && "$W/bin/conform.test" -test.run TestConform -test.timeout 30m 2>&1 | grep -v "^PASS\|^ok" 
