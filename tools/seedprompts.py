#!/usr/bin/env python3
"""tools/seedprompts.py <suffix> : writes /tmp/seed/prompts/<ID><suffix>.txt, the complete task text given to the
independent sub-agents that write property-breaking changes (they see the property text and a scratch worktree
/tmp/seed/<ID><suffix>, nothing from /verif). For a further round, the one-line description of the changes already
archived for that property is appended as "already taken" so that the new change is a different one."""
import json, os, sys, glob
suffix = sys.argv[1] if len(sys.argv) > 1 else ''
props = [json.loads(l) for l in open('/verif/properties.jsonl')]
tmpl = '''You are working on a scratch git worktree of the Go project saucelabs/forwarder (an HTTP/HTTPS forward proxy with MITM, PAC evaluation, PROXY-protocol listener, HTTP/2 frame relay, upstream proxy chaining) at {wt}. Work ONLY inside {wt}. Do not read, list or modify /repo or /verif (they are off limits), and do not use the network (there is none).

Environment: run every go command as `cd {wt} && GOFLAGS=-mod=mod GOPROXY=off go ...` (plain `go`; the module needs exactly this environment to build offline). Two existing tests fail in this sandbox for environmental reasons and can be ignored: TestIntegrationConnect/reserr (needs DNS) and TestParseFilePath/insufficient_permissions (runs as root). The machine is heavily loaded by other jobs: a timing-sensitive existing test that fails once and passes when re-run alone (`-count=5`) is a load flake, say so in your notes. NEVER use `git stash` (the stash is shared with other worktrees of the same repository): to compare with the unchanged code use `git diff > /tmp/{id}.diff; git apply -R /tmp/{id}.diff; ...; git apply /tmp/{id}.diff`.

Here is a semantic property that the current code is believed to satisfy:

TITLE: {title}

STATEMENT: {statement}

QUANTIFIED OVER: {quant}

CODE ANCHORS: {files}

Your task: produce ONE realistic change to the project's non-test source code that BREAKS this property, while
  (a) the project still compiles (`go build ./...`),
  (b) the existing test suite still passes (run the tests of the packages you touched, and at the end `go test ./... 2>&1 | tail -40` once; apart from the two environmental failures named above nothing may fail), and
  (c) the breakage needs something SPECIFIC to manifest - a particular interleaving or timing, a fault at a particular point, a multi-step sequence of operations, an unusual but legal input, a particular configuration combination, or two cooperating code sites that each look fine alone. Do NOT make a change that ordinary use (a simple GET through the proxy, the default configuration) would expose at once. Think of the kind of regression a plausible refactoring, optimisation or "cleanup" by a maintainer could introduce (a hoisted buffer, a cursor advanced before a check, a swapped field, a narrowed lock scope, Set instead of Add, an off-by-one at a buffer boundary, a check moved before/after another step, a cache key missing a component, ...).
{taken}
Also write a DEMONSTRATION: a Go test file (or small program) that FAILS with your change applied and PASSES on the unchanged code. Keep it under {wt}/.seed/ and let demo.sh copy it into the package, run it and remove it again, so that the worktree's own test suite is unaffected. Verify both directions yourself (apply/revert your patch as described above).

Deliverables, all under {wt}/.seed/ (create the directory):
  - patch.diff   : output of `git diff` containing ONLY the property-breaking change to non-test source files (not the demonstration);
  - the demonstration file(s), plus demo.sh: a shell script that runs the demonstration from the worktree root (exit status non-zero when the property is broken);
  - notes.md     : which clause of the property is broken, exactly what is needed for it to manifest (input / sequence / timing / configuration), the commands you ran and their results (build, existing tests, demonstration with and without the change).
Leave the worktree with your change APPLIED (working tree modified, nothing committed, `git diff` identical to patch.diff). In your final answer summarise the change in 3-6 lines.'''
os.makedirs('/tmp/seed/prompts', exist_ok=True)
for p in props:
    i = p['id']
    taken = ''
    prev = []
    for m in sorted(glob.glob('/verif/seeded/%s*/meta.json' % i)):
        prev.append(json.load(open(m))['needs_to_manifest'])
    if suffix and prev:
        taken = '\nALREADY TAKEN (another engineer has already produced a change for this property; yours must break a DIFFERENT clause or a different code path, not a variation of it): the earlier change(s) manifest with: ' + ' | '.join(prev) + '\n'
    if suffix >= 'i':
        taken += ('\nFLAVOUR REQUIRED FOR THIS ROUND: the breakage must be caused AT A DISTANCE. Do NOT edit the function that obviously implements the behaviour the property describes, and preferably not even the files named under CODE ANCHORS. Make the change in something that code RELIES ON: (1) a shared helper, utility, wrapper type, adapter, constructor, option default, flag / environment / config-file plumbing, validation or clone / copy / reset routine in ANOTHER file (preferably another package) whose contract the anchored code silently depends on; or (2) code that runs at a DIFFERENT MOMENT of the life-cycle (start-up, option parsing and defaulting, object construction, a per-connection or per-request context being derived, a transport / dialer / listener being wrapped) than the moment at which the property visibly fails. The earlier rounds (concurrency/timing, boundary values and partial I/O failures, feature interactions, optimisations and error paths, parsing/normalisation, and two free rounds) produced the items listed above, ALL of which the project\'s verification harness detects today; yours must not be a variation of any of them. Think of what a maintainer could plausibly change in a utility while working on something else (a helper that now trims / lower-cases / caches / returns a shared slice or a pointer into shared state, a wrapper that forgets to forward one optional interface or one method, a default that changes when a field is left zero, a Clone that becomes shallow, a context that is derived from the wrong parent, a config struct copied before instead of after a field is set) and whose effect on THIS property only shows for particular inputs, sequences or configurations. Typical use must behave exactly as before.\n')
    elif suffix >= 'h':
        taken += ('\nNO REQUIRED FLAVOUR THIS ROUND. The engineers before you were asked for (in turn) concurrency/timing defects, boundary values and partial I/O failures, feature interactions, optimisations and error/clean-up paths, and parsing/normalisation mismatches; what they produced is listed above and is ALL detected by the project\'s verification harness today. Choose the kind of defect that YOU judge most likely to slip past a thorough harness that already catches all of those - think about which inputs, configurations, sequences, life-cycle moments (start-up, first/last request, reload, long uptime), protocol corners or code paths are least likely to be exercised - and break a clause or a code path that is not a variation of any listed item.\n')
    elif suffix >= 'g':
        taken += ('\nFLAVOUR REQUIRED FOR THIS ROUND: the breakage must be a PARSING / NORMALISATION / REPRESENTATION defect. Either (1) two places that interpret the SAME datum now disagree (one normalises and the other does not: letter case, a trailing dot, IPv6 brackets or zone, a default versus explicit port, percent-encoding, leading zeros, surrounding or internal whitespace, repeated or comma-joined header lines, empty list elements, signed versus unsigned, seconds versus milliseconds, int32 versus int64, a nil versus an empty value); or (2) a parser, formatter or converter becomes slightly too lenient or too strict or loses information on an unusual BUT LEGAL spelling (a number with a sign or leading zeros or at the limit of its type, a quoted string, an escape, a very long or empty token, an uncommon separator, a value that only round-trips approximately). Ordinary, canonical spellings must behave exactly as before.\n')
    elif suffix >= 'f':
        taken += ('\nFLAVOUR REQUIRED FOR THIS ROUND: the breakage must come from a WELL-MEANT OPTIMISATION or from an ERROR / CLEAN-UP / RETRY PATH. Either (1) a cache, memo, fast path, early return, lazily built or pre-computed value, reused buffer or object, batching, or a skipped re-validation whose result differs from the ordinary (slow) path for SOME inputs or AFTER some earlier event - while the first operation on fresh state and typical inputs give exactly the old result; or (2) the handling of a failure, cancellation, time-out, retry, shutdown or early client departure that leaves something behind (a counter, a registration, a deadline, buffered bytes, a half-open connection, a flag) so that a LATER, perfectly ordinary operation on the same proxy / connection / object misbehaves. Runs in which nothing fails and nothing is reused must behave exactly as before.\n')
    elif suffix >= 'e':
        taken += ('\nFLAVOUR REQUIRED FOR THIS ROUND: the breakage must be a FEATURE-INTERACTION defect - it manifests only when TWO OR MORE features, options or protocol variants are combined (for example: MITM together with an upstream proxy; a TLS or PROXY-protocol listener together with CONNECT; header rules together with Upgrade; basic auth together with keep-alive reuse; HTTP/1.0 or pipelined or 100-continue or HEAD or trailers together with gzip, chunking or a particular routing; two flags that each work alone), or only for a LESS COMMON PROTOCOL VARIANT of an otherwise ordinary exchange. Each feature used on its own, and the default configuration, must behave exactly as before.\n')
    elif suffix >= 'd':
        taken += ('\nFLAVOUR REQUIRED FOR THIS ROUND: the breakage must be a BOUNDARY or PARTIAL-FAILURE defect - it manifests only at a boundary value (a size, count, offset, length, port, time or number exactly at, one below or one past some limit: a buffer size, a window, a maximum, zero, the first or last element, an empty or maximal field) or only when an I/O operation fails or completes PARTIALLY at one particular point (a short read or short write, an error from the n-th call, a peer that closes between two specific steps, an ignored error return, a retry that repeats a side effect). Typical in-range inputs and runs in which every I/O call succeeds completely must behave exactly as before.\n')
    elif suffix >= 'c':
        taken += ('\nFLAVOUR REQUIRED FOR THIS ROUND: the breakage must be a CONCURRENCY or TIMING defect - it manifests only under a particular interleaving of two goroutines / connections / streams, or a particular ordering of events in time (a narrowed or dropped lock, check-then-act, a shared buffer or variable between connections, publishing before initialising, a missed wake-up, a timer started at the wrong moment, state reset while another party still uses it). A purely sequential single-connection run must behave exactly as before. If the property offers no concurrency at all, choose a multi-step ORDER-dependent defect instead (the same operations in another order behave correctly).\n')
    wt = '/tmp/seed/' + i + suffix
    open('/tmp/seed/prompts/' + i + suffix + '.txt', 'w').write(tmpl.format(wt=wt, id=i + suffix, title=p['title'], statement=p['statement'], quant=p['quantifier']['text'], files=', '.join(p['anchors']['files']), taken=taken))
print('wrote', len(props), 'prompts')
