#!/usr/bin/env python3
"""Generate the go build -overlay file that maps /verif sources into the repository's module.

  engine/<pkg>/*.go        -> <repo>/internal/zzverif/<pkg>/
  props/<name>/*.go        -> <repo>/internal/zzverif/<name>/
  inpkg/<pkgpath>/*.go     -> <repo>/<pkgpath>/zzverif_<file>      (inpkg/_root = module root package)
  .work/rewrite/<relpath>  -> <repo>/<relpath>                     (mechanically rewritten copies)
"""
import json, os, sys

verif = os.path.dirname(os.path.dirname(os.path.abspath(__file__)))
repo = sys.argv[1] if len(sys.argv) > 1 else "/repo"
out = sys.argv[2] if len(sys.argv) > 2 else os.path.join(verif, ".work", "overlay.json")
rewrite_dir = sys.argv[3] if len(sys.argv) > 3 else os.path.join(verif, ".work", "rewrite")
repl = {}

def walk(base):
    for d, _, fs in os.walk(base):
        for f in sorted(fs):
            if f.endswith(".go") or f.endswith(".js") or f.endswith(".pem"):
                yield os.path.relpath(os.path.join(d, f), base), os.path.join(d, f)

for sub in ("engine", "props"):
    for rel, p in walk(os.path.join(verif, sub)):
        repl[os.path.join(repo, "internal", "zzverif", rel)] = p
for rel, p in walk(os.path.join(verif, "inpkg")):
    d, f = os.path.split(rel)
    if d == "_root" or d.startswith("_root/"):
        d = d[len("_root"):].lstrip("/")
    repl[os.path.join(repo, d, "zzverif_" + f)] = p
if os.path.isdir(rewrite_dir):
    for rel, p in walk(rewrite_dir):
        repl[os.path.join(repo, rel)] = p
os.makedirs(os.path.dirname(out), exist_ok=True)
with open(out, "w") as fh:
    json.dump({"Replace": repl}, fh, indent=1)
