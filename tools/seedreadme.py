#!/usr/bin/env python3
"""tools/seedreadme.py : regenerates seeded/README.md from seeded/*/meta.json."""
import json, glob, os
rows = []
for m in sorted(glob.glob('/verif/seeded/C*/meta.json')):
    d = json.load(open(m)); i = os.path.basename(os.path.dirname(m))
    rows.append('| %s | %s | %s | %s |' % (i, d['needs_to_manifest'].replace('|', '/'), d['caught_by'].replace('|', '/'), d['initially']))
head = '''# Seeded property-breaking changes

Each directory holds one change to saucelabs/forwarder that breaks the named property while the project
still compiles and the pinned test suite still passes, written by an independent sub-agent that saw only the
text of the property and a scratch worktree (nothing from /verif; the task text is produced by
`tools/seedprompts.py`). `patch.diff` applies to /repo's HEAD; `demo.sh` + test file is the author's
demonstration (fails with the change, passes without); `meta.json` records what the change needs in order to
manifest, what was run to confirm it, and which check reports it; `confirmation.txt` (later entries) is the
transcript of `tools/seedcheck.sh`. Directories `<id>b` hold a second, different change for property `<id>`.
None of these changes is ever committed to /repo. To re-run one: `tools/trymut.sh seeded/<dir>/patch.diff <id>`;
all of them: `tools/seedall.sh` (every change must be reported by its property's quick check).

"first attempt" = what the check did before anything was strengthened: `missed` entries name the dimension
that was added because of them.

| dir | what the change needs to manifest | reported by | first attempt |
|----|-----------------------------------|-------------|---------------|
'''
open('/verif/seeded/README.md', 'w').write(head + '\n'.join(rows) + '\n')
print(len(rows), 'rows')
