#!/bin/bash
# tools/seedbatch.sh <ID>... : run tools/seedcheck.sh for the given seed worktrees (two at a time) and print a
# compact summary (demo with/without, pinned suite, result of our check).
cd "$(dirname "$0")/.."
run() { cp /tmp/seed/$1/.seed/patch.diff /tmp/seed/$1.patch; tools/seedcheck.sh $1 > /tmp/seed/$1.seedcheck.txt 2>&1; }
ids=("$@")
i=0
while [ $i -lt ${#ids[@]} ]; do
  run ${ids[$i]} & p1=$!
  if [ $((i+1)) -lt ${#ids[@]} ]; then run ${ids[$((i+1))]} & p2=$!; wait $p2; fi
  wait $p1
  i=$((i+2))
done
for id in "${ids[@]}"; do
  f=/tmp/seed/$id.seedcheck.txt
  w=$(grep -A1 "demo WITH change" $f | tail -1); wo=$(grep -A1 "demo WITHOUT change" $f | tail -1)
  suite=$(grep "stable_pass" $f | sed 's/stable_pass: //'); miss=$(grep -c MISSING $f)
  ours=$(grep "^== " $f | tr '\n' ' ')
  echo "$id demo-with:$w demo-without:$wo suite:[$suite missing=$miss] ours: $ours"
  grep -m2 "^  \[" $f | cut -c1-220
done
