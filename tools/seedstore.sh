#!/bin/bash
# tools/seedstore.sh <ID> <caught_by> <initially: caught|missed> <needs...>
ID=$1; CAUGHT=$2; INIT=$3; shift 3; NEEDS="$*"
S=/tmp/seed/$ID/.seed; D=/verif/seeded/$ID
mkdir -p $D
cp /tmp/seed/$ID.patch $D/patch.diff
cp /tmp/seed/$ID.seedcheck.txt $D/confirmation.txt
for f in $S/*; do case $(basename $f) in patch.diff|*.log) ;; *) cp $f $D/ ;; esac; done
python3 - "$ID" "$CAUGHT" "$INIT" "$NEEDS" <<'PY'
import json,sys,subprocess
i,caught,init,needs=sys.argv[1:5]
sc=open(f'/tmp/seed/{i}.seedcheck.txt').read() if True else ''
def grab(tag):
    import re
    m=re.search(tag+r'.*?\nrc=(\d+)',sc,re.S)
    return m.group(1) if m else None
meta={"property":i[:3],"origin":"independent sub-agent that saw only the property text and a scratch worktree",
 "needs_to_manifest":needs,
 "confirmed_by_me":{"applies_and_builds":"build-ok" in sc,"demo_rc_with_change":grab("demo WITH change"),"demo_rc_without_change":grab("demo WITHOUT change"),
   "pinned_suite_with_change":[l.strip() for l in sc.splitlines() if l.startswith("stable_pass")][:1]},
 "ran":["tools/seedcheck.sh "+i+" (demo with/without, tools/baseline.sh on the scratch worktree, tools/trymut.sh)"],
 "caught_by":caught,"initially":init}
json.dump(meta,open(f'/verif/seeded/{i}/meta.json','w'),indent=1)
PY
ls $D
