// C06: credentials are confined to the hop they belong to.
// Engine S: credential tables x upstream selection x target/kind x client header shapes; every byte
// every endpoint receives (decrypted where the harness terminates TLS) is searched for every
// credential token, and each occurrence must be at the place the reference expectCreds allows;
// expected credentials must also be present.
package c06

import (
	"bytes"
	"crypto/tls"
	"crypto/x509"
	"encoding/base64"
	"fmt"
	"github.com/saucelabs/forwarder/internal/zzverif/simnet"
	"github.com/saucelabs/forwarder/internal/zzverif/tcore"
	"net"
	"sort"
	"strings"
	"testing"
	"time"

	"github.com/saucelabs/forwarder/internal/zzverif/explore"
	"github.com/saucelabs/forwarder/internal/zzverif/httpwire"
	"github.com/saucelabs/forwarder/internal/zzverif/world"
)

func tok(user, pass string) string {
	return base64.StdEncoding.EncodeToString([]byte(user + ":" + pass))
}

type entry struct {
	user, pass, host, port string // host/port "*" = wildcard
}

func (e entry) String() string { return fmt.Sprintf("%s:%s@%s:%s", e.user, e.pass, e.host, e.port) }

var entries = []entry{
	{"u1", "p1", "origin.test", "80"},
	{"u2", "p2", "*", "80"},
	{"u3", "p3", "origin.test", "*"},
	{"u4", "p4", "*", "*"},
	{"u5", "p5", "other.test", "8080"},
	{"u6", "p6", "up.test", "8080"},
	{"u7", "p7", "*", "8080"},
	{"u8", "p8", "origin.test", "443"},
}

// match is the documented precedence: exact host:port, then *:port, then host:*, then *:*.
func match(table []entry, host, port string) *entry {
	host = strings.Trim(host, "[]") // (an IPv6 literal is written in brackets in an entry; host is the bare address)
	for _, pass := range []func(e entry) bool{
		func(e entry) bool { return strings.Trim(e.host, "[]") == host && e.port == port },
		func(e entry) bool { return e.host == "*" && e.port == port },
		func(e entry) bool { return strings.Trim(e.host, "[]") == host && e.port == "*" },
		func(e entry) bool { return e.host == "*" && e.port == "*" },
	} {
		for i := range table {
			if pass(table[i]) {
				return &table[i]
			}
		}
	}
	return nil
}

func subsets() [][]int {
	out := [][]int{{}}
	n := len(entries)
	for a := 0; a < n; a++ {
		out = append(out, []int{a})
	}
	for a := 0; a < n; a++ {
		for b := a + 1; b < n; b++ {
			out = append(out, []int{a, b})
		}
	}
	for a := 0; a < n; a++ {
		for b := a + 1; b < n; b++ {
			for c := b + 1; c < n; c++ {
				out = append(out, []int{a, b, c})
			}
		}
	}
	return out
}

var upstreamKinds = []string{"none", "static-userinfo", "static-table", "pac"}

type targetKind struct {
	name, host, port, authority string
	kind                        int // 0 plain, 1 CONNECT, 2 MITM
}

var targetKinds = []targetKind{
	{"origin-implicit-80", "origin.test", "80", "origin.test", 0},
	{"origin-explicit-80", "origin.test", "80", "origin.test:80", 0},
	{"origin-443-connect", "origin.test", "443", "origin.test:443", 1},
	{"origin-443-mitm", "origin.test", "443", "origin.test:443", 2},
	{"other-8080", "other.test", "8080", "other.test:8080", 0},
	{"other-443-mitm", "other.test", "443", "other.test:443", 2},
}

const clientPA = "clientuser:clientpass"
const clientAuthz = "siteuser:sitepass-from-client"

var clientShapes = []struct {
	name   string
	fields []httpwire.Field
	authz  bool
	value  string // the client's own Authorization value ("" = the Basic one)
}{
	{"none", nil, false, ""},
	{"pa-once", []httpwire.Field{{Name: "Proxy-Authorization", Value: "Basic " + base64.StdEncoding.EncodeToString([]byte(clientPA))}}, false, ""},
	{"pa-twice", []httpwire.Field{{Name: "Proxy-Authorization", Value: "Basic " + base64.StdEncoding.EncodeToString([]byte(clientPA))}, {Name: "X-Mid", Value: "1"}, {Name: "Proxy-Authorization", Value: "Basic " + base64.StdEncoding.EncodeToString([]byte(clientPA))}}, false, ""},
	{"pa-nominated", []httpwire.Field{{Name: "Connection", Value: "Proxy-Authorization"}, {Name: "Proxy-Authorization", Value: "Basic " + base64.StdEncoding.EncodeToString([]byte(clientPA))}}, false, ""},
	{"pa-nominated-in-upgrade-request", []httpwire.Field{{Name: "Connection", Value: "Upgrade, Proxy-Authorization"}, {Name: "Upgrade", Value: "websocket"}, {Name: "Proxy-Authorization", Value: "Basic " + base64.StdEncoding.EncodeToString([]byte(clientPA))}}, false, ""},
	{"pa-in-upgrade-request", []httpwire.Field{{Name: "Connection", Value: "Upgrade"}, {Name: "Upgrade", Value: "websocket"}, {Name: "Proxy-Authorization", Value: "Basic " + base64.StdEncoding.EncodeToString([]byte(clientPA))}}, false, ""},
	{"pa-mixed-case", []httpwire.Field{{Name: "pRoXy-AuThOrIzAtIoN", Value: "Basic " + base64.StdEncoding.EncodeToString([]byte(clientPA))}}, false, ""},
	{"authorization", []httpwire.Field{{Name: "Authorization", Value: "Basic " + base64.StdEncoding.EncodeToString([]byte(clientAuthz))}}, true, ""},
	{"authorization-bearer", []httpwire.Field{{Name: "Authorization", Value: "Bearer client-token-abc"}}, true, "Bearer client-token-abc"},
	{"authorization-digest", []httpwire.Field{{Name: "Authorization", Value: `Digest username="c", realm="r", nonce="n", uri="/x", response="00"`}}, true, `Digest username="c", realm="r", nonce="n", uri="/x", response="00"`},
	{"authorization-malformed-basic", []httpwire.Field{{Name: "Authorization", Value: "Basic !!!not-base64"}}, true, "Basic !!!not-base64"},
	{"authorization-lowercase-scheme", []httpwire.Field{{Name: "authorization", Value: "basic " + base64.StdEncoding.EncodeToString([]byte(clientAuthz))}}, true, "basic " + base64.StdEncoding.EncodeToString([]byte(clientAuthz))},
	{"authorization-negotiate", []httpwire.Field{{Name: "Authorization", Value: "Negotiate YIIabc"}}, true, "Negotiate YIIabc"},
	{"authorization+pa", []httpwire.Field{{Name: "Authorization", Value: "Basic " + base64.StdEncoding.EncodeToString([]byte(clientAuthz))}, {Name: "Proxy-Authorization", Value: "Basic " + base64.StdEncoding.EncodeToString([]byte(clientPA))}}, true, ""},
}

// sighting is one place where some bytes were received.
type sighting struct {
	where string // origin | upstream | upstream-tunnel
	msg   *httpwire.Msg
	raw   []byte
}

func scenario(x *explore.X, product bool) {
	free := x.Choose
	if product {
		free = x.ChooseFree
	}
	subs := subsets()
	var table []entry
	for _, i := range subs[free("table", len(subs))] {
		table = append(table, entries[i])
	}
	upk := free("upstream", len(upstreamKinds))
	tk := targetKinds[free("target", len(targetKinds))]
	shape := clientShapes[x.Choose("client-fields", len(clientShapes))]

	opts := world.Options{}
	for _, e := range table {
		opts.Credentials = append(opts.Credentials, e.String())
	}
	pki := world.NewPKI("harness CA")
	opts.TransportCAPEM = pki.CAPEM
	var proxyCreds *entry
	switch upk {
	case 1:
		opts.Upstream = "http://pu:pp@up.test:8080"
		proxyCreds = &entry{user: "pu", pass: "pp"}
	case 2:
		opts.Upstream = "http://up.test:8080"
		proxyCreds = match(table, "up.test", "8080")
	case 3:
		opts.PAC = `function FindProxyForURL(url, host) { return "PROXY up.test:8080"; }`
		proxyCreds = match(table, "up.test", "8080")
	}
	if tk.kind == 2 {
		opts.MITM = true
	}
	w, err := world.Start(opts)
	if err != nil {
		x.Failf("harness/start", "%v", err)
		return
	}
	x.Logf("table=%v upstream=%s target=%s client=%s", table, upstreamKinds[upk], tk.name, shape.name)
	viaUp := upk != 0
	up, _ := w.Hop("up.test:8080", nil)
	leaf := pki.Leaf([]string{tk.host}, -time.Hour, time.Hour)
	originTLS := &tls.Config{Certificates: []tls.Certificate{leaf}}
	var org *world.Hop
	if tk.kind == 2 {
		org, _ = w.Hop(net.JoinHostPort(tk.host, tk.port), originTLS)
	} else {
		org, _ = w.Hop(net.JoinHostPort(tk.host, tk.port), nil)
	}

	raw, _ := w.Client()
	var cl world.Stream = raw
	var sightings []sighting
	fieldsWire := func() string {
		var sb strings.Builder
		for _, f := range shape.fields {
			sb.WriteString(f.Name + ": " + f.Value + "\r\n")
		}
		return sb.String()
	}
	// answerUpstreamConnect handles a CONNECT arriving at the upstream proxy hop; returns the raw conn index
	answerUpstreamConnect := func() (world.Stream, *world.Peer, bool) {
		msgs, conns, _ := up.Next()
		if len(msgs) != 1 || msgs[0].Method != "CONNECT" {
			x.Failf("upstream/no-connect", "upstream proxy received %d requests, want one CONNECT ; client got %q", len(msgs), world.Clip(cl.Recv()))
			return nil, nil, false
		}
		m := msgs[0]
		sightings = append(sightings, sighting{where: "upstream", msg: &m})
		c := up.Conns[conns[0]]
		c.Send([]byte("HTTP/1.1 200 OK\r\n\r\n"))
		return c, up.Raw[conns[0]], true
	}
	switch tk.kind {
	case 0:
		cl.Send([]byte("GET http://" + tk.authority + "/x HTTP/1.1\r\nHost: " + tk.authority + "\r\n" + fieldsWire() + "\r\n"))
		h := org
		where := "origin"
		if viaUp {
			h, where = up, "upstream"
		}
		msgs, conns, _ := h.Next()
		for i := range msgs {
			m := msgs[i]
			sightings = append(sightings, sighting{where: where, msg: &m})
			h.Conns[conns[i]].Send([]byte("HTTP/1.1 200 OK\r\nContent-Length: 2\r\n\r\nok"))
		}
		if len(msgs) != 1 {
			x.Failf("not-forwarded", "next hop received %d requests; client got %q", len(msgs), world.Clip(cl.Recv()))
		}
	case 1:
		cl.Send([]byte("CONNECT " + tk.authority + " HTTP/1.1\r\nHost: " + tk.authority + "\r\n" + fieldsWire() + "\r\n"))
		var tunnelEnd world.Stream
		if viaUp {
			c, _, ok := answerUpstreamConnect()
			if !ok {
				return
			}
			tunnelEnd = c
		} else {
			org.Poll()
			if len(org.Conns) != 1 {
				x.Failf("not-forwarded", "CONNECT target not dialled; client got %q", world.Clip(cl.Recv()))
				return
			}
			tunnelEnd = org.Conns[0]
		}
		before := len(tunnelEnd.Recv())
		cl.Send([]byte("opaque-tunnel-payload"))
		where := "origin"
		if viaUp {
			where = "upstream-tunnel"
		}
		payload := tunnelEnd.Recv()[before:]
		if string(payload) != "opaque-tunnel-payload" {
			x.Failf("tunnel-payload", "far end of the tunnel received %q", world.Clip(payload))
		}
		sightings = append(sightings, sighting{where: where, raw: payload})
	case 2:
		raw.Send([]byte("CONNECT " + tk.authority + " HTTP/1.1\r\nHost: " + tk.authority + "\r\n" + fieldsWire() + "\r\n"))
		if got := string(raw.Recv()); got != "HTTP/1.1 200 OK\r\n\r\n" {
			x.Failf("mitm/connect-reply", "CONNECT answered with %q", got)
			return
		}
		pool := x509.NewCertPool()
		pool.AddCert(w.Proxy.MITMCACert())
		tc := world.TLSClient(raw, &tls.Config{RootCAs: pool, ServerName: tk.host})
		if done, err := tc.Handshake(); !done || err != nil {
			x.Failf("mitm/handshake", "done=%v err=%v", done, err)
			return
		}
		cl = tc
		cl.Send([]byte("GET /x HTTP/1.1\r\nHost: " + tk.host + "\r\n" + fieldsWire() + "\r\n"))
		var inner world.Stream
		if viaUp {
			_, rawc, ok := answerUpstreamConnect()
			if !ok {
				return
			}
			// play the origin at the far end of the tunnel
			tp := world.TLSServer(rawc, originTLS)
			if done, err := tp.Handshake(); !done || err != nil {
				x.Failf("mitm/origin-handshake", "done=%v err=%v", done, err)
				return
			}
			inner = tp
		} else {
			org.Poll()
			if len(org.Conns) != 1 {
				x.Failf("not-forwarded", "origin not dialled; client got %q", world.Clip(cl.Recv()))
				return
			}
			inner = org.Conns[0]
		}
		rq := httpwire.ParseRequests(inner.Recv())
		if len(rq.Msgs) != 1 {
			x.Failf("not-forwarded", "origin (inside TLS) received %q", world.Clip(inner.Recv()))
		} else {
			m := rq.Msgs[0]
			sightings = append(sightings, sighting{where: "origin", msg: &m})
			inner.Send([]byte("HTTP/1.1 200 OK\r\nContent-Length: 2\r\n\r\nok"))
		}
		defer inner.Close()
	}

	// ---- the oracle ------------------------------------------------------------------------------
	x.Check()
	type secret struct {
		name, token string
	}
	secrets := []secret{{"client Proxy-Authorization", base64.StdEncoding.EncodeToString([]byte(clientPA))}}
	if upk == 1 {
		secrets = append(secrets, secret{"upstream URL credentials", tok("pu", "pp")})
	}
	for _, e := range entries {
		secrets = append(secrets, secret{"table entry " + e.String(), tok(e.user, e.pass)})
	}
	site := match(table, tk.host, tk.port)
	ctx := fmt.Sprintf("table=%v upstream=%s target=%s client=%s", table, upstreamKinds[upk], tk.name, shape.name)
	for _, s := range sightings {
		var blob []byte
		if s.msg != nil {
			blob = s.msg.Raw
		} else {
			blob = s.raw
		}
		for _, sec := range secrets {
			if !bytes.Contains(blob, []byte(sec.token)) {
				continue
			}
			total := bytes.Count(blob, []byte(sec.token))
			allowedN := 0
			if s.msg != nil {
				if s.where == "upstream" && proxyCreds != nil && sec.token == tok(proxyCreds.user, proxyCreds.pass) {
					// the upstream proxy's own credentials, in Proxy-Authorization of a request addressed to it
					allowedN += strings.Count(strings.Join(s.msg.Get("Proxy-Authorization"), " "), sec.token)
				}
				if site != nil && sec.token == tok(site.user, site.pass) && !shape.authz && s.msg.Method != "CONNECT" {
					// site credentials of the matching entry, on a request for that target (at the origin,
					// or on its way there in a plain request through the upstream proxy)
					allowedN += strings.Count(strings.Join(s.msg.Get("Authorization"), " "), sec.token)
				}
			}
			allowed := total <= allowedN
			if !allowed {
				sig := "credential-leak/" + strings.Fields(sec.name)[0] + "/" + s.where
				if s.msg != nil && s.msg.Method == "CONNECT" && strings.HasPrefix(sec.name, "table") && site != nil && sec.token == tok(site.user, site.pass) {
					sig = "site-credentials-in-CONNECT-to-upstream-proxy"
				}
				x.Failf(sig, "%s seen at %s where it does not belong\n  %s\n  received: %q", sec.name, s.where, ctx, world.Clip(blob))
			}
		}
		// presence
		if s.msg == nil {
			continue
		}
		if s.where == "upstream" && proxyCreds != nil {
			if pa := s.msg.Get("Proxy-Authorization"); len(pa) != 1 || pa[0] != "Basic "+tok(proxyCreds.user, proxyCreds.pass) {
				x.Failf("upstream-credentials-missing", "upstream proxy got Proxy-Authorization %q, want Basic credentials of %s:%s\n  %s", pa, proxyCreds.user, proxyCreds.pass, ctx)
			}
		}
		if s.where == "upstream" && proxyCreds == nil {
			if pa := s.msg.Get("Proxy-Authorization"); len(pa) != 0 {
				x.Failf("upstream-credentials-invented", "upstream proxy got Proxy-Authorization %q although none is configured\n  %s", pa, ctx)
			}
		}
		if s.msg.Method != "CONNECT" {
			az := s.msg.Get("Authorization")
			switch {
			case shape.authz:
				wantAz := "Basic " + base64.StdEncoding.EncodeToString([]byte(clientAuthz))
				if shape.value != "" {
					wantAz = shape.value
				}
				if len(az) != 1 || az[0] != wantAz {
					x.Failf("client-authorization-replaced", "Authorization %q, want the client's own\n  %s", az, ctx)
				}
			case site != nil:
				if len(az) != 1 || az[0] != "Basic "+tok(site.user, site.pass) {
					x.Failf("site-credentials-wrong", "Authorization %q, want credentials of entry %s (documented precedence)\n  %s", az, site, ctx)
				}
			default:
				if len(az) != 0 {
					x.Failf("site-credentials-invented", "Authorization %q although no entry matches %s:%s\n  %s", az, tk.host, tk.port, ctx)
				}
			}
		}
	}
	var sn []string
	for _, s := range sightings {
		sn = append(sn, s.where)
	}
	sort.Strings(sn)
	x.Outcome(fmt.Sprintf("up=%v site=%v proxycreds=%v %v", upk, site != nil, proxyCreds != nil, sn))
	cl.Close()
	if err := w.Stop(); err != nil {
		x.Failf("shutdown", "%v", err)
	}
	up.Close()
	org.Close()
	if l := world.Leaks(); l != "" {
		x.Failf("goroutine-leak", "%s", l)
	}
}

// ---- sequences of requests on ONE proxy: credentials are chosen per request, whatever was requested before -----

var historyTable = []entry{
	{"h1", "q1", "origin.test", "80"},
	{"h2", "q2", "origin.test", "8080"},
	{"h3", "q3", "other.test", "8080"},
	{"h4", "q4", "up.test", "8080"},
	{"h6", "q6", "[2001:db8::6]", "80"}, // an origin named by an IPv6 literal
	{"h1", "another-password-of-h1", "other.test", "80"}, // the same user name as the first entry, another site, another password
}

var historyRequests = []struct {
	name, host, port, authority string
	own                         bool // the client supplies its own Authorization
	connect                     bool // a CONNECT (only through the upstream proxy)
	reset                       bool // ... whose connection the upstream proxy resets as soon as it is established
	https                       bool // absolute-form https:// target (the proxy itself speaks TLS to port 443); direct only
}{
	{"origin.test", "origin.test", "80", "origin.test", false, false, false, false},
	{"origin.test:8080", "origin.test", "8080", "origin.test:8080", false, false, false, false},
	{"other.test:8080", "other.test", "8080", "other.test:8080", false, false, false, false},
	{"other.test", "other.test", "80", "other.test", false, false, false, false},
	{"origin.test+own-authorization", "origin.test", "80", "origin.test", true, false, false, false},
	{"CONNECT origin.test:443", "origin.test", "443", "origin.test:443", false, true, false, false},
	{"CONNECT origin.test:443 (upstream resets the connection)", "origin.test", "443", "origin.test:443", false, true, true, false},
	// the same host name without a port under the other scheme: the implied port differs (443, no entry)
	{"https://origin.test", "origin.test", "443", "origin.test", false, false, false, true},
	{"[2001:db8::6]", "2001:db8::6", "80", "[2001:db8::6]", false, false, false, false},
}

func historyScenario(x *explore.X, n int) {
	viaUp := x.ChooseFree("upstream", 2) == 1
	var seq []int
	for i := 0; i < n; i++ {
		seq = append(seq, x.ChooseFree(fmt.Sprintf("request-%d", i), len(historyRequests)))
	}
	pki := world.NewPKI("harness CA")
	opts := world.Options{TransportCAPEM: pki.CAPEM}
	for _, e := range historyTable {
		opts.Credentials = append(opts.Credentials, e.String())
	}
	if viaUp {
		opts.Upstream = "http://up.test:8080"
	}
	w, err := world.Start(opts)
	if err != nil {
		x.Failf("harness/start", "%v", err)
		return
	}
	hops := map[string]*world.Hop{}
	for _, a := range []string{"up.test:8080", "origin.test:80", "origin.test:8080", "other.test:8080", "other.test:80", "[2001:db8::6]:80"} {
		hops[a], _ = w.Hop(a, nil)
	}
	hops["origin.test:443"], _ = w.Hop("origin.test:443", &tls.Config{Certificates: []tls.Certificate{pki.Leaf([]string{"origin.test"}, -time.Hour, time.Hour)}})
	ownAz := "Basic " + base64.StdEncoding.EncodeToString([]byte(clientAuthz))
	var names, out []string
	for _, k := range seq {
		rq := historyRequests[k]
		names = append(names, rq.name)
		ctx := fmt.Sprintf("request %s after %v, upstream proxy %v", rq.name, names[:len(names)-1], viaUp)
		if rq.connect {
			if !viaUp {
				out = append(out, "n/a")
				continue
			}
			cl, _ := w.Client()
			up := hops["up.test:8080"]
			if rq.reset {
				w.Net.Plan["up.test:8080"] = simnet.ResetAfterAccept
			}
			cl.Send([]byte("CONNECT " + rq.authority + " HTTP/1.1\r\nHost: " + rq.authority + "\r\n\r\n"))
			world.Settle(5 * time.Second)
			w.Net.Plan["up.test:8080"] = simnet.Connect
			x.Check()
			if rq.reset {
				out = append(out, "reset")
				cl.Close()
				continue
			}
			msgs, conns, problem := up.Next()
			if problem != "" || len(msgs) != 1 || msgs[0].Method != "CONNECT" || msgs[0].Target != rq.authority {
				x.Failf("upstream-connect-garbled/after-earlier-requests", "%s: the upstream proxy must receive exactly one CONNECT %s, it holds %d requests (%s): %q", ctx, rq.authority, len(msgs), problem, world.Clip(up.Conns[len(up.Conns)-1].Recv()))
				return
			}
			if pa := msgs[0].Get("Proxy-Authorization"); len(pa) != 1 || pa[0] != "Basic "+tok("h4", "q4") {
				x.Failf("upstream-credentials-wrong/after-earlier-requests", "%s: CONNECT carries Proxy-Authorization %q", ctx, pa)
			}
			hc := up.Conns[conns[0]]
			hc.Send([]byte("HTTP/1.1 200 OK\r\n\r\n"))
			before := len(hc.Recv())
			cl.Send([]byte("opaque-tunnel-payload"))
			if got := string(hc.Recv()[before:]); got != "opaque-tunnel-payload" {
				x.Failf("tunnel-payload/after-earlier-requests", "%s: inside the tunnel the upstream proxy (i.e. the origin behind it) received %q", ctx, world.Clip([]byte(got)))
			}
			for _, e := range historyTable {
				if n := bytes.Count(hc.Recv()[before:], []byte(tok(e.user, e.pass))); n > 0 {
					x.Failf("credential-leak/tunnel/after-earlier-requests", "%s: credentials of entry %s travel inside the tunnel", ctx, e)
				}
			}
			out = append(out, "tunnel")
			cl.Close()
			hc.Close()
			continue
		}
		cl, _ := w.Client()
		extra := ""
		if rq.own {
			extra = "Authorization: " + ownAz + "\r\n"
		}
		scheme := "http"
		if rq.https {
			if viaUp {
				out = append(out, "n/a")
				cl.Close()
				continue
			}
			scheme = "https"
		}
		cl.Send([]byte("GET " + scheme + "://" + rq.authority + "/x HTTP/1.1\r\nHost: " + rq.authority + "\r\n" + extra + "\r\n"))
		addr := net.JoinHostPort(rq.host, rq.port)
		if viaUp {
			addr = "up.test:8080"
		}
		msgs, conns, _ := hops[addr].Next()
		x.Check()
		if len(msgs) != 1 {
			x.Failf("not-forwarded", "%s: %s received %d requests; client got %q", ctx, addr, len(msgs), world.Clip(cl.Recv()))
			return
		}
		m := msgs[0]
		hops[addr].Conns[conns[0]].Send([]byte("HTTP/1.1 200 OK\r\nContent-Length: 2\r\n\r\nok"))
		site := match(historyTable, rq.host, rq.port)
		wantAz := ""
		switch {
		case rq.own:
			wantAz = ownAz
		case site != nil:
			wantAz = "Basic " + tok(site.user, site.pass)
		}
		az := m.Get("Authorization")
		if (wantAz == "" && len(az) != 0) || (wantAz != "" && (len(az) != 1 || az[0] != wantAz)) {
			x.Failf("site-credentials-wrong/after-earlier-requests", "%s: next hop received Authorization %q, want %q", ctx, az, wantAz)
		}
		wantPA := ""
		if viaUp {
			wantPA = "Basic " + tok("h4", "q4")
		}
		pa := m.Get("Proxy-Authorization")
		if (wantPA == "" && len(pa) != 0) || (wantPA != "" && (len(pa) != 1 || pa[0] != wantPA)) {
			x.Failf("upstream-credentials-wrong/after-earlier-requests", "%s: next hop received Proxy-Authorization %q, want %q", ctx, pa, wantPA)
		}
		for _, e := range historyTable {
			t := tok(e.user, e.pass)
			n := bytes.Count(m.Raw, []byte(t))
			allowed := 0
			if "Basic "+t == wantAz {
				allowed++
			}
			if "Basic "+t == wantPA {
				allowed++
			}
			if n > allowed {
				x.Failf("credential-leak/table/after-earlier-requests", "%s: credentials of entry %s seen %d times at %s (allowed %d): %q", ctx, e, n, addr, allowed, world.Clip(m.Raw))
			}
		}
		out = append(out, fmt.Sprint(len(az), len(pa)))
		cl.Close()
	}
	x.Outcome(strings.Join(out, ","))
	if err := w.Stop(); err != nil {
		x.Failf("shutdown", "%v", err)
	}
	for _, h := range hops {
		h.Close()
	}
	if l := world.Leaks(); l != "" {
		x.Failf("goroutine-leak", "%s", l)
	}
}

func TestC06(t *testing.T) {
	s := explore.NewSuite(t, "C06", "exploration",
		"credential table = every subset of size <= 3 of 8 entries (exact host:port, *:port, host:*, *:*, other host, entries matching the upstream proxy) (93) x upstream(none, static URL with userinfo, static URL resolved through the table, PAC-selected) x target/kind(6: implicit/explicit port 80, CONNECT, inside MITM, other host) x client fields(12: Proxy-Authorization once/twice/nominated by Connection/mixed case, client Authorization Basic / Bearer / Digest / Negotiate / malformed Basic / lower-case scheme); deviation-bounded (D=2 quick) and full product table x upstream x target with client fields as the only bounded dimension (D=1 quick, unbounded thorough); every byte received by the origin, by the upstream proxy and inside the tunnel is searched for the base64 token of every credential, each occurrence must be where expectCreds allows, and expected credentials must be present; plus (concurrent-lookups, Engine T) the credentials matcher of one proxy asked by 2-3 connections at once about 4 targets (after 0-1 earlier lookups), credentials.go rebuilt with a scheduling point before every statement, every interleaving within 2 (quick) / 3 (thorough) preemptions: every lookup returns its own target's entry; plus (history) ONE proxy (with and without an upstream proxy whose credentials come from the table) and EVERY sequence of 2 (quick) / 4 (thorough) requests out of 9 (an origin named by an IPv6 literal with its own table entry, same host on two ports, another host on two ports, the client's own Authorization, a CONNECT through the upstream proxy, a CONNECT whose upstream connection is reset as soon as it is established, the same host name under https:// with the implied port 443): each request carries the credentials of its own target whatever was requested before; (round 9) the full product runs with one deviation in the client fields in the quick tier too (a CONNECT relayed through the upstream proxy whose client sent Proxy-Authorization)")
	s.Assume = []string{"secrets are searched in their Basic (base64) form and the harness terminates TLS at the scripted origin", "simnet owns every connection"}
	s.Add(explore.Scenario{Name: "bounded", Remote: true, Tiers: []string{"quick"}, MaxDev: map[string]int{"quick": 2},
		Run: func(x *explore.X) { world.Run(t, x, func() { scenario(x, false) }) }})
	s.Add(explore.Scenario{Name: "product", Remote: true, MaxDev: map[string]int{"quick": 1, "thorough": -1},
		Run: func(x *explore.X) { world.Run(t, x, func() { scenario(x, true) }) }})
	s.Add(explore.Scenario{Name: "concurrent-lookups", Remote: true, MaxDev: map[string]int{"quick": 2, "thorough": 3},
		Run: func(x *explore.X) {
			var table []string
			for _, e := range historyTable {
				table = append(table, e.String())
			}
			tcore.ConcurrentCredentials(t, x, table, []string{"origin.test:80", "origin.test:8080", "other.test:8080", "other.test:80"}, func(hp string) string {
				h, p, _ := net.SplitHostPort(hp)
				if e := match(historyTable, h, p); e != nil {
					return e.user + ":" + e.pass
				}
				return ""
			})
		}})
	s.Add(explore.Scenario{Name: "history-quick", Remote: true, Tiers: []string{"quick"},
		Run: func(x *explore.X) { world.Run(t, x, func() { historyScenario(x, 2) }) }})
	s.Add(explore.Scenario{Name: "history-thorough", Remote: true, Tiers: []string{"thorough"},
		Run: func(x *explore.X) { world.Run(t, x, func() { historyScenario(x, 4) }) }})
	s.Main()
}
