// C13: request and connection accounting is conserved on every path.
// Engine S: sequences of exchanges of every kind (success, refusals, dial error, origin reset,
// tunnels torn down from either side, upgrade, MITM hand-off, rejected upstream CONNECT, client
// aborts) on one or two client connections of one richly configured proxy; at every quiescent state
// between exchanges the real Prometheus registry is gathered and compared with the harness ledger.
// A second scenario drives the byte counters and the close-once callback at the Listener/Dialer API.
package c13

import (
	"bytes"
	"context"
	"crypto/tls"
	"crypto/x509"
	"errors"
	"fmt"
	"io"
	"net"
	"sort"
	"strings"
	"testing"
	"testing/synctest"
	"time"

	"github.com/prometheus/client_golang/prometheus"
	"github.com/saucelabs/forwarder"
	"github.com/saucelabs/forwarder/conntrack"
	"github.com/saucelabs/forwarder/internal/zzverif/explore"
	"github.com/saucelabs/forwarder/internal/zzverif/h1x"
	"github.com/saucelabs/forwarder/internal/zzverif/httpwire"
	"github.com/saucelabs/forwarder/internal/zzverif/simnet"
	"github.com/saucelabs/forwarder/internal/zzverif/world"
)

const creds = "Proxy-Authorization: Basic dTpw\r\n" // u:p

var kindNames = []string{"ok", "denied-403", "unauthenticated-407", "dial-error", "origin-reset-mid-body", "connect-client-closes-first",
	"connect-target-closes-first", "upgrade", "mitm-inner-request", "rejected-upstream-connect", "client-abort-uploading", "client-abort-downloading",
	"head", "post", "connect-client-aborts-while-dialling", "upgrade-client-aborts-before-101", "client-abort-before-response", "overlapping-same-request-id", "ok-via-connect-to", "upgrade-connection-close", "connect-terminate-tls-fails", "ok-response-advertises-upgrade", "upgrade-required-426", "connect-via-silent-upstream-proxy", "connect-via-upstream-proxy"}

type ledger struct {
	totals map[string]int // "code,method" -> count; code "*" = any code
	any    map[string]int // method -> completions whose status the harness cannot know (client vanished)
}

type st struct {
	x     *explore.X
	w     *world.World
	pki   *world.PKI
	hops  map[string]*world.Hop
	led   ledger
	conns []*world.Peer            // client connections opened by the harness
	sent  map[*world.Peer][]string // methods of the requests sent on each client connection
}

func (s *st) hop(addr string, tcfg *tls.Config) *world.Hop {
	if h, ok := s.hops[addr]; ok {
		return h
	}
	h, err := s.w.Hop(addr, tcfg)
	if err != nil {
		s.x.Failf("harness/listen", "%v", err)
		return nil
	}
	s.hops[addr] = h
	return h
}

func (s *st) count(code int, method string) { s.led.totals[fmt.Sprintf("%d,%s", code, method)]++ }

func (s *st) client() *world.Peer {
	p, err := s.w.Client()
	if err != nil {
		s.x.Failf("harness/client", "%v", err)
		return nil
	}
	s.conns = append(s.conns, p)
	return p
}

// exchange performs one exchange of the kind on connection c (nil = new connection); it returns the
// connection if it is still usable for a further plain request.
func (s *st) exchange(kind string, c *world.Peer) *world.Peer {
	x := s.x
	if c == nil || c.EOF() || c.Reset() || c.C.IsClosed() {
		if c = s.client(); c == nil {
			return nil
		}
	}
	expectStatus := func(stream world.Stream, methods []string, want int) bool {
		rs := httpwire.ParseResponses(stream.Recv(), methods, false)
		if len(rs.Msgs) == 0 || rs.Msgs[len(rs.Msgs)-1].Status != want {
			x.Failf("harness/exchange", "%s: client got %q, want status %d", kind, world.Clip(stream.Recv()), want)
			return false
		}
		return true
	}
	methods := func(m string) []string {
		s.sent[c] = append(s.sent[c], m)
		return s.sent[c]
	}
	switch kind {
	case "ok-via-connect-to":
		// --connect-to maps redirected.test:80 to ok.test:80: the socket is opened to (and counted for) ok.test
		h := s.hop("ok.test:80", nil)
		c.Send([]byte("GET http://redirected.test/ HTTP/1.1\r\nHost: redirected.test\r\nConnection: close\r\n" + creds + "\r\n"))
		msgs, conns, _ := h.Next()
		if len(msgs) != 1 {
			x.Failf("harness/exchange", "%s not forwarded: %q", kind, world.Clip(c.Recv()))
			return nil
		}
		h.Conns[conns[0]].Send([]byte("HTTP/1.1 200 OK\r\nContent-Length: 2\r\nConnection: close\r\n\r\nok"))
		h.Conns[conns[0]].Close()
		expectStatus(c, methods("GET"), 200)
		s.count(200, "GET")
		return nil
	case "ok-response-advertises-upgrade", "upgrade-required-426":
		// an ordinary (non-101) response that carries Connection: Upgrade and an Upgrade field: a server advertising
		// h2c, or refusing with 426 Upgrade Required. Nothing is switched; the exchange completes like any other.
		h := s.hop("ok.test:80", nil)
		c.Send([]byte("GET http://ok.test/ HTTP/1.1\r\nHost: ok.test\r\n" + creds + "\r\n"))
		msgs, conns, _ := h.Next()
		if len(msgs) != 1 {
			x.Failf("harness/exchange", "%s not forwarded: %q", kind, world.Clip(c.Recv()))
			return nil
		}
		status, line := 200, "200 OK"
		if kind == "upgrade-required-426" {
			status, line = 426, "426 Upgrade Required"
		}
		h.Conns[conns[0]].Send([]byte("HTTP/1.1 " + line + "\r\nConnection: Upgrade\r\nUpgrade: h2c\r\nContent-Length: 2\r\n\r\nok"))
		expectStatus(c, methods("GET"), status)
		s.count(status, "GET")
		return c
	case "ok", "head", "post":
		h := s.hop("ok.test:80", nil)
		m := map[string]string{"ok": "GET", "head": "HEAD", "post": "POST"}[kind]
		body := ""
		extra := ""
		if m == "POST" {
			body, extra = "12345", "Content-Length: 5\r\n"
		}
		c.Send([]byte(m + " http://ok.test/ HTTP/1.1\r\nHost: ok.test\r\n" + creds + extra + "\r\n" + body))
		msgs, conns, _ := h.Next()
		if len(msgs) != 1 {
			x.Failf("harness/exchange", "%s not forwarded: %q", kind, world.Clip(c.Recv()))
			return nil
		}
		reply := "HTTP/1.1 200 OK\r\nContent-Length: 2\r\n\r\nok"
		if m == "HEAD" {
			reply = "HTTP/1.1 200 OK\r\nContent-Length: 2\r\n\r\n"
		}
		h.Conns[conns[0]].Send([]byte(reply))
		expectStatus(c, methods(m), 200)
		s.count(200, m)
		return c
	case "denied-403":
		c.Send([]byte("GET http://denied.test/ HTTP/1.1\r\nHost: denied.test\r\n" + creds + "\r\n"))
		expectStatus(c, methods("GET"), 403)
		s.count(403, "GET")
		return c
	case "unauthenticated-407":
		c.Send([]byte("GET http://ok.test/ HTTP/1.1\r\nHost: ok.test\r\nProxy-Authorization: Basic eDp5\r\n\r\n"))
		expectStatus(c, methods("GET"), 407)
		s.count(407, "GET")
		return c
	case "dial-error":
		c.Send([]byte("GET http://refused.test/ HTTP/1.1\r\nHost: refused.test\r\n" + creds + "\r\n"))
		world.Settle(5 * time.Second)
		expectStatus(c, methods("GET"), 502)
		s.count(502, "GET")
		return c
	case "origin-reset-mid-body":
		h := s.hop("ok.test:80", nil)
		c.Send([]byte("GET http://ok.test/big HTTP/1.1\r\nHost: ok.test\r\n" + creds + "\r\n"))
		msgs, conns, _ := h.Next()
		if len(msgs) != 1 {
			x.Failf("harness/exchange", "%s not forwarded", kind)
			return nil
		}
		h.Conns[conns[0]].Send([]byte("HTTP/1.1 200 OK\r\nContent-Length: 50000\r\n\r\n" + string(h1x.Pattern(20000, 1))))
		h.Raw[conns[0]].Abort()
		world.Settle(time.Second)
		s.count(200, "GET")
		return nil
	case "connect-client-closes-first", "connect-target-closes-first":
		h := s.hop("tunnel.test:443", nil)
		c.Send([]byte("CONNECT tunnel.test:443 HTTP/1.1\r\nHost: tunnel.test:443\r\n" + creds + "\r\n"))
		h.Poll()
		if !expectStatus(c, methods("CONNECT"), 200) || len(h.Raw) == 0 {
			return nil
		}
		t := h.Raw[len(h.Raw)-1]
		c.Send([]byte("ping"))
		t.Send([]byte("pong-pong"))
		// while the tunnel is up the request is in flight: checked by the caller via inTunnel
		s.checkMetrics("inside "+kind, map[string]int{"CONNECT": 1})
		if kind == "connect-client-closes-first" {
			c.CloseWrite()
			t.CloseWrite()
		} else {
			t.CloseWrite()
			c.CloseWrite()
		}
		c.Close()
		t.Close()
		s.count(200, "CONNECT")
		return nil
	case "connect-terminate-tls-fails":
		// CONNECT asking the proxy to terminate TLS towards the target itself (X-Martian-Terminate-Tls: true); the
		// target is reached but does not speak TLS: the CONNECT fails AFTER a connection was dialled
		h := s.hop("tunnel.test:443", nil)
		c.Send([]byte("CONNECT tunnel.test:443 HTTP/1.1\r\nHost: tunnel.test:443\r\nX-Martian-Terminate-Tls: true\r\n" + creds + "\r\n"))
		h.Poll()
		if len(h.Raw) == 0 {
			x.Failf("harness/exchange", "%s: the target was not dialled; client got %q", kind, world.Clip(c.Recv()))
			return nil
		}
		t := h.Raw[len(h.Raw)-1]
		t.Send([]byte("HTTP/1.1 400 Bad Request\r\nConnection: close\r\n\r\n"))
		t.Close()
		world.Settle(5 * time.Second)
		rs := httpwire.ParseResponses(c.Recv(), methods("CONNECT"), false)
		if len(rs.Msgs) == 0 || rs.Msgs[len(rs.Msgs)-1].Status < 500 {
			x.Failf("harness/exchange", "%s: client got %q, want a 5xx", kind, world.Clip(c.Recv()))
			return nil
		}
		s.count(rs.Msgs[len(rs.Msgs)-1].Status, "CONNECT")
		return nil
	case "upgrade", "upgrade-connection-close":
		h := s.hop("ws.test:80", nil)
		conn := "Upgrade"
		if kind == "upgrade-connection-close" {
			conn = "Upgrade, close"
		}
		c.Send([]byte("GET http://ws.test/ws HTTP/1.1\r\nHost: ws.test\r\nConnection: " + conn + "\r\nUpgrade: websocket\r\n" + creds + "\r\n"))
		msgs, conns, _ := h.Next()
		if len(msgs) != 1 {
			x.Failf("harness/exchange", "upgrade not forwarded: %q", world.Clip(c.Recv()))
			return nil
		}
		t := h.Raw[conns[0]]
		t.Send([]byte("HTTP/1.1 101 Switching Protocols\r\nConnection: Upgrade\r\nUpgrade: websocket\r\n\r\n"))
		if !expectStatus(c, methods("GET"), 101) {
			return nil
		}
		c.Send([]byte("frame"))
		t.Send([]byte("frame-back"))
		s.checkMetrics("inside upgrade tunnel", map[string]int{"GET": 1})
		t.CloseWrite()
		c.CloseWrite()
		c.Close()
		t.Close()
		s.count(101, "GET")
		return nil
	case "mitm-inner-request", "rejected-upstream-connect":
		host := "mitm.test"
		if kind == "rejected-upstream-connect" {
			host = "mitm-viaup.test"
		}
		s.hop("mitm.test:443", &tls.Config{Certificates: []tls.Certificate{s.pki.Leaf([]string{"mitm.test"}, -time.Hour, time.Hour)}})
		s.hop("up.test:8080", nil)
		c.Send([]byte("CONNECT " + host + ":443 HTTP/1.1\r\nHost: " + host + ":443\r\n" + creds + "\r\n"))
		if !expectStatus(c, methods("CONNECT"), 200) {
			return nil
		}
		c.Recv()
		s.count(200, "CONNECT")
		pool := x509.NewCertPool()
		pool.AddCert(s.w.Proxy.MITMCACert())
		tc := world.TLSClient(c, &tls.Config{RootCAs: pool, ServerName: host})
		if done, err := tc.Handshake(); !done || err != nil {
			x.Failf("harness/mitm-handshake", "done=%v err=%v", done, err)
			return nil
		}
		tc.Send([]byte("GET /in HTTP/1.1\r\nHost: " + host + "\r\n" + creds + "\r\n"))
		if kind == "mitm-inner-request" {
			h := s.hop("mitm.test:443", &tls.Config{Certificates: []tls.Certificate{s.pki.Leaf([]string{"mitm.test"}, -time.Hour, time.Hour)}})
			msgs, conns, _ := h.Next()
			if len(msgs) != 1 {
				x.Failf("harness/exchange", "inner request not forwarded: %q", world.Clip(tc.Recv()))
				return nil
			}
			h.Conns[conns[0]].Send([]byte("HTTP/1.1 200 OK\r\nContent-Length: 2\r\n\r\nok"))
			expectStatus(tc, []string{"GET"}, 200)
			s.count(200, "GET")
		} else {
			h := s.hop("up.test:8080", nil)
			msgs, conns, _ := h.Next()
			if len(msgs) != 1 || msgs[0].Method != "CONNECT" {
				x.Failf("harness/exchange", "upstream proxy did not get a CONNECT: %q", world.Clip(tc.Recv()))
				return nil
			}
			h.Conns[conns[0]].Send([]byte("HTTP/1.1 403 Forbidden\r\nContent-Length: 0\r\n\r\n"))
			h.Conns[conns[0]].Close()
			world.Settle(time.Second)
			expectStatus(tc, []string{"GET"}, 403)
			s.count(403, "GET")
		}
		tc.Close()
		return nil
	case "connect-via-silent-upstream-proxy", "connect-via-upstream-proxy":
		// (round 9) a CONNECT relayed through the upstream HTTP proxy. Silent variant: the upstream proxy accepts the connection,
		// reads the CONNECT and never answers: the connect time-out (60 s) ends the attempt, the client gets an error
		// response, the request completes once and the socket to the upstream proxy is released (dialer gauge back to 0)
		h := s.hop("up.test:8080", nil)
		c.Send([]byte("CONNECT tunnel-viaup.test:443 HTTP/1.1\r\nHost: tunnel-viaup.test:443\r\n" + creds + "\r\n"))
		msgs, conns, _ := h.Next()
		if len(msgs) != 1 || msgs[0].Method != "CONNECT" {
			x.Failf("harness/exchange", "%s: the upstream proxy did not get a CONNECT (client holds %q)", kind, world.Clip(c.Recv()))
			return nil
		}
		up := h.Conns[conns[0]]
		if kind == "connect-via-upstream-proxy" {
			up.Send([]byte("HTTP/1.1 200 OK\r\n\r\n"))
			if !expectStatus(c, methods("CONNECT"), 200) {
				return nil
			}
			c.Send([]byte("ping"))
			up.Send([]byte("pong"))
			s.checkMetrics("inside "+kind, map[string]int{"CONNECT": 1})
			c.Close()
			world.Settle(2 * time.Minute)
			up.Close()
			s.count(200, "CONNECT")
			return nil
		}
		s.checkMetrics("inside "+kind+" (upstream proxy silent)", map[string]int{"CONNECT": 1})
		world.Settle(3 * time.Minute)
		rs := httpwire.ParseResponses(c.Recv(), methods("CONNECT"), false)
		if len(rs.Msgs) == 0 {
			x.Failf("harness/exchange", "%s: no response three minutes after the upstream proxy fell silent: %q", kind, world.Clip(c.Recv()))
			return nil
		}
		s.count(rs.Msgs[len(rs.Msgs)-1].Status, "CONNECT")
		// (the upstream proxy keeps its end open: whether the proxy has released its own end is what the dialer gauge
		// and the network's view of open sockets are compared on)
		if !h.Raw[conns[0]].PeerReleased() {
			x.Failf("dialled-connection-not-closed", "%s: the proxy gave up the CONNECT through the upstream proxy (client got %q) but still holds the connection to it", kind, world.Clip(c.Recv()))
		}
		up.Close()
		return nil
	case "connect-client-aborts-while-dialling":
		// the client vanishes while the proxy is still connecting to the target: the 200 that establishes
		// the tunnel cannot be written; the request still completes exactly once and the target socket is released
		s.hop("slow.test:443", nil)
		s.w.Net.Plan["slow.test:443"] = simnet.Slow
		c.Send([]byte("CONNECT slow.test:443 HTTP/1.1\r\nHost: slow.test:443\r\n" + creds + "\r\n"))
		s.sent[c] = append(s.sent[c], "CONNECT")
		s.checkMetrics("inside "+kind+" (dial pending)", map[string]int{"CONNECT": 1})
		c.Abort()
		world.Settle(5 * time.Second)
		s.led.any["CONNECT"]++
		return nil
	case "upgrade-client-aborts-before-101":
		h := s.hop("ws.test:80", nil)
		c.Send([]byte("GET http://ws.test/ws HTTP/1.1\r\nHost: ws.test\r\nConnection: Upgrade\r\nUpgrade: websocket\r\n" + creds + "\r\n"))
		msgs, conns, _ := h.Next()
		if len(msgs) != 1 {
			x.Failf("harness/exchange", "upgrade not forwarded: %q", world.Clip(c.Recv()))
			return nil
		}
		s.sent[c] = append(s.sent[c], "GET")
		c.Abort()
		h.Raw[conns[0]].Send([]byte("HTTP/1.1 101 Switching Protocols\r\nConnection: Upgrade\r\nUpgrade: websocket\r\n\r\n"))
		world.Settle(5 * time.Second)
		h.Raw[conns[0]].Close()
		world.Settle(time.Second)
		s.led.any["GET"]++
		return nil
	case "client-abort-before-response":
		h := s.hop("ok.test:80", nil)
		c.Send([]byte("GET http://ok.test/gone HTTP/1.1\r\nHost: ok.test\r\n" + creds + "\r\n"))
		msgs, conns, _ := h.Next()
		if len(msgs) != 1 {
			x.Failf("harness/exchange", "%s not forwarded", kind)
			return nil
		}
		s.sent[c] = append(s.sent[c], "GET")
		c.Abort()
		h.Conns[conns[0]].Send([]byte("HTTP/1.1 200 OK\r\nContent-Length: 2\r\n\r\nok"))
		world.Settle(5 * time.Second)
		s.led.any["GET"]++
		return nil
	case "overlapping-same-request-id":
		// two exchanges on two connections overlap in time and carry the same X-Request-Id (the header is the
		// client's to choose): each is still reported complete exactly once
		h := s.hop("ok.test:80", nil)
		c.Send([]byte("GET http://ok.test/slow HTTP/1.1\r\nHost: ok.test\r\nX-Request-Id: dup-1\r\n" + creds + "\r\n"))
		msgs, conns, _ := h.Next()
		if len(msgs) != 1 {
			x.Failf("harness/exchange", "%s: first request not forwarded: %q", kind, world.Clip(c.Recv()))
			return nil
		}
		c2 := s.client()
		if c2 == nil {
			return nil
		}
		c2.Send([]byte("GET http://ok.test/fast HTTP/1.1\r\nHost: ok.test\r\nX-Request-Id: dup-1\r\n" + creds + "\r\n"))
		msgs2, conns2, _ := h.Next()
		if len(msgs2) != 1 {
			x.Failf("harness/exchange", "%s: second request not forwarded: %q", kind, world.Clip(c2.Recv()))
			return nil
		}
		h.Conns[conns2[0]].Send([]byte("HTTP/1.1 200 OK\r\nContent-Length: 2\r\n\r\nok"))
		s.sent[c2] = append(s.sent[c2], "GET")
		expectStatus(c2, s.sent[c2], 200)
		s.count(200, "GET")
		s.checkMetrics("inside "+kind+" (first exchange still at its origin)", map[string]int{"GET": 1})
		h.Conns[conns[0]].Send([]byte("HTTP/1.1 200 OK\r\nContent-Length: 2\r\n\r\nok"))
		expectStatus(c, methods("GET"), 200)
		s.count(200, "GET")
		c2.Close()
		return c
	case "client-abort-uploading":
		h := s.hop("ok.test:80", nil)
		c.Send([]byte("POST http://ok.test/up HTTP/1.1\r\nHost: ok.test\r\nContent-Length: 100000\r\n" + creds + "\r\n" + string(h1x.Pattern(1000, 1))))
		h.Poll()
		c.Abort()
		world.Settle(5 * time.Second)
		s.led.any["POST"]++
		return nil
	case "client-abort-downloading":
		h := s.hop("ok.test:80", nil)
		c.Send([]byte("GET http://ok.test/down HTTP/1.1\r\nHost: ok.test\r\n" + creds + "\r\n"))
		msgs, conns, _ := h.Next()
		if len(msgs) != 1 {
			x.Failf("harness/exchange", "%s not forwarded", kind)
			return nil
		}
		oc := h.Conns[conns[0]]
		oc.Send([]byte("HTTP/1.1 200 OK\r\nContent-Length: 200000\r\n\r\n" + string(h1x.Pattern(50000, 1))))
		c.Abort()
		oc.Send(h1x.Pattern(150000, 2))
		world.Settle(5 * time.Second)
		s.led.any["GET"]++
		return nil
	}
	return nil
}

func manyGets() []string {
	l := make([]string, 0, 16)
	for i := 0; i < 16; i++ {
		l = append(l, "GET")
	}
	return l
}

// checkMetrics gathers the real registry and compares it with the ledger. inFlight names the
// requests that are legitimately in progress right now (method -> count).
func (s *st) checkMetrics(when string, inFlight map[string]int) {
	x := s.x
	x.Check()
	m, err := s.w.Metrics()
	if err != nil {
		x.Failf("metrics/gather", "%v", err)
		return
	}
	dump := func() string {
		var ks []string
		for k, v := range m {
			if strings.Contains(k, "http_requests") || strings.Contains(k, "cx_active") {
				ks = append(ks, fmt.Sprintf("%s=%v", k, v))
			}
		}
		sort.Strings(ks)
		return strings.Join(ks, " ")
	}
	// in-flight gauge
	for k, v := range m {
		if !strings.HasPrefix(k, "forwarder_http_requests_in_flight{") {
			continue
		}
		method := strings.TrimSuffix(strings.TrimPrefix(k, "forwarder_http_requests_in_flight{method="), "}")
		if int(v) != inFlight[method] {
			x.Failf("in-flight-gauge", "%s: %s = %v, want %d\n  %s", when, k, v, inFlight[method], dump())
			return
		}
	}
	// totals: exact per (code, method) except for completions whose status is unknowable
	gotByMethod := map[string]int{}
	wantByMethod := map[string]int{}
	for k, v := range m {
		if !strings.HasPrefix(k, "forwarder_http_requests_total{") {
			continue
		}
		lbl := strings.TrimSuffix(strings.TrimPrefix(k, "forwarder_http_requests_total{"), "}")
		var code, method string
		for _, kv := range strings.Split(lbl, ",") {
			if strings.HasPrefix(kv, "code=") {
				code = kv[5:]
			}
			if strings.HasPrefix(kv, "method=") {
				method = kv[7:]
			}
		}
		gotByMethod[method] += int(v)
		if want := s.led.totals[code+","+method]; int(v) < want || int(v) > want+s.led.any[method] {
			x.Failf("request-counter", "%s: %s = %v, ledger says %d (+ up to %d of unknown status)\n  %s", when, k, v, want, s.led.any[method], dump())
			return
		}
	}
	for k, v := range s.led.totals {
		wantByMethod[strings.SplitN(k, ",", 2)[1]] += v
	}
	for meth, v := range s.led.any {
		wantByMethod[meth] += v
	}
	for meth, want := range wantByMethod {
		if gotByMethod[meth] != want {
			x.Failf("request-counter-sum", "%s: requests_total for method %s sums to %d, want %d (one per request read)\n  %s", when, meth, gotByMethod[meth], want, dump())
			return
		}
	}
	for meth, got := range gotByMethod {
		if got != wantByMethod[meth] {
			x.Failf("request-counter-sum", "%s: requests_total for method %s sums to %d, want %d\n  %s", when, meth, got, wantByMethod[meth], dump())
			return
		}
	}
	// listener gauge = client sockets the proxy still holds
	open := 0
	for _, c := range s.conns {
		if !c.C.Status().PeerClosed {
			open++
		}
	}
	if got := int(m["forwarder_listener_cx_active{}"]); got != open {
		x.Failf("listener-active-gauge", "%s: listener_cx_active = %d, the proxy holds %d client sockets\n  %s", when, got, open, dump())
	}
	if got := int(m["forwarder_listener_cx_total{}"]); got != len(s.conns) {
		x.Failf("listener-total", "%s: listener_cx_total = %d, %d connections were accepted", when, got, len(s.conns))
	}
	// dialer gauges = upstream sockets the proxy still holds, per host label
	wantDial := map[string]int{}
	for _, c := range s.w.Net.Conns() {
		if strings.HasPrefix(c.Name, "proxy-out.test->") && strings.HasSuffix(c.Name, "/dialer") && !c.IsClosed() {
			hp := strings.TrimSuffix(strings.TrimPrefix(c.Name, "proxy-out.test->"), "/dialer")
			h, _, _ := net.SplitHostPort(hp)
			wantDial[h]++
		}
	}
	for k, v := range m {
		if strings.HasPrefix(k, "forwarder_dialer_cx_active{host=") {
			h := strings.TrimSuffix(strings.TrimPrefix(k, "forwarder_dialer_cx_active{host="), "}")
			if int(v) != wantDial[h] {
				x.Failf("dialer-active-gauge", "%s: %s = %v, the proxy holds %d sockets to that host\n  %s", when, k, v, wantDial[h], dump())
			}
			delete(wantDial, h)
		}
	}
	for h, n := range wantDial {
		if n != 0 {
			x.Failf("dialer-active-gauge", "%s: no dialer_cx_active series for %s although %d sockets are open", when, h, n)
		}
	}
}

func scenario(x *explore.X, maxLen int) {
	s := &st{x: x, hops: map[string]*world.Hop{}, sent: map[*world.Peer][]string{}, led: ledger{totals: map[string]int{}, any: map[string]int{}}}
	s.pki = world.NewPKI("harness CA")
	opts := world.Options{
		BasicAuth:      "u:p",
		DenyDomains:    []string{`^denied\.test$`},
		MITMDomains:    []string{`^mitm(-viaup)?\.test$`},
		PAC:            `function FindProxyForURL(url, host) { if (host == "mitm-viaup.test" || host == "tunnel-viaup.test") return "PROXY up.test:8080"; return "DIRECT"; }`,
		TransportCAPEM: s.pki.CAPEM,
		ConnectTo:      []string{"redirected.test:80:ok.test:80"},
	}
	w, err := world.Start(opts)
	if err != nil {
		x.Failf("harness/start", "%v", err)
		return
	}
	s.w = w
	n := 1 + x.Choose("exchanges-1", maxLen)
	var keep *world.Peer
	var names []string
	for i := 0; i < n && !x.Failed(); i++ {
		kind := kindNames[x.Choose(fmt.Sprintf("kind%d", i), len(kindNames))]
		newConn := i > 0 && x.Choose(fmt.Sprintf("new-connection%d", i), 2) == 1
		if newConn {
			keep = nil
		}
		names = append(names, kind)
		x.Logf("exchange %d: %s", i+1, kind)
		keep = s.exchange(kind, keep)
		if x.Failed() {
			break
		}
		s.checkMetrics(fmt.Sprintf("after exchange %d (%s)", i+1, strings.Join(names, ", ")), nil)
	}
	// everything is closed: all gauges return to zero
	for _, c := range s.conns {
		c.Close()
	}
	if err := w.Stop(); err != nil {
		x.Failf("shutdown", "%v", err)
	}
	for _, h := range s.hops {
		h.Close()
	}
	world.Settle(time.Second)
	if !x.Failed() {
		m, _ := w.Metrics()
		for k, v := range m {
			if (strings.Contains(k, "cx_active") || strings.Contains(k, "in_flight")) && v != 0 {
				x.Failf("gauge-not-zero-at-end", "after everything was closed %s = %v (exchanges %v)", k, v, names)
			}
		}
	}
	x.Outcome(strings.Join(names, ","))
	if l := world.Leaks(); l != "" {
		x.Failf("goroutine-leak", "%s", l)
	}
}

// ---- a PROXY-protocol listener: connections that never get past their header are accepted sockets like any other ----

// ppScenario: a PROXY-protocol listener (header time-out 3 s). In any order: a client that sends a complete header
// and performs an exchange, and a client that stalls in its header (silent, 5 or 20 bytes) until the time-out cuts
// it. Every accepted connection is counted as closed exactly once: the gauges follow the sockets that are open.
func ppScenario(x *explore.X) {
	s := &st{x: x, hops: map[string]*world.Hop{}, sent: map[*world.Peer][]string{}, led: ledger{totals: map[string]int{}, any: map[string]int{}}}
	s.pki = world.NewPKI("harness CA")
	w, err := world.Start(world.Options{BasicAuth: "u:p", ProxyProtocol: true, ProxyProtoTO: 3 * time.Second, TransportCAPEM: s.pki.CAPEM})
	if err != nil {
		x.Failf("harness/start", "%v", err)
		return
	}
	s.w = w
	const ppHeader = "PROXY TCP4 192.0.2.7 198.51.100.1 40000 3128\r\n"
	var names []string
	n := 1 + x.ChooseFree("clients-1", 3)
	for i := 0; i < n && !x.Failed(); i++ {
		k := x.ChooseFree(fmt.Sprintf("client%d", i), 4) // 0 complete header + exchange, 1 silent, 2 five header bytes, 3 twenty header bytes
		c := s.client()
		if c == nil {
			return
		}
		switch k {
		case 0:
			names = append(names, "served")
			c.Send([]byte(ppHeader))
			s.exchange("ok", c)
			c.Close()
		default:
			cut := []int{0, 0, 5, 20}[k]
			names = append(names, fmt.Sprintf("stalls-after-%d-header-bytes", cut))
			if cut > 0 {
				c.Send([]byte(ppHeader[:cut]))
			}
			world.Settle(4 * time.Second) // past the header time-out: the proxy gives the connection up
			if st := c.C.Status(); !st.PeerClosed && !st.EOF && !st.Reset {
				x.Failf("harness/not-cut", "a client stalling in its PROXY header is still connected 4 s later (time-out 3 s)")
			}
			c.Close()
		}
		world.Settle(time.Second)
		s.checkMetrics(fmt.Sprintf("after client %d (%s)", i+1, strings.Join(names, ", ")), nil)
	}
	for _, c := range s.conns {
		c.Close()
	}
	if err := w.Stop(); err != nil {
		x.Failf("shutdown", "%v", err)
	}
	for _, h := range s.hops {
		h.Close()
	}
	world.Settle(time.Second)
	if !x.Failed() {
		m, _ := w.Metrics()
		for k, v := range m {
			if (strings.Contains(k, "cx_active") || strings.Contains(k, "in_flight")) && v != 0 {
				x.Failf("gauge-not-zero-at-end", "after everything was closed %s = %v (clients %v)", k, v, names)
			}
		}
	}
	x.Outcome(strings.Join(names, ","))
	if l := world.Leaks(); l != "" {
		x.Failf("goroutine-leak", "%s", l)
	}
}

// ---- byte counters and close-once at the Listener / Dialer API ---------------------------------------

// failingReader is a source that ends with an error instead of EOF.
type failingReader struct{}

func (failingReader) Read([]byte) (int, error) { return 0, errors.New("source reset") }

func apiScenario(x *explore.X) {
	side := x.ChooseFree("side", 2) // 0 accepted connection, 1 dialled connection
	n := simnet.New()
	forwarder.VerifListen = func(addr string) (net.Listener, error) { return n.Listen(addr) }
	forwarder.VerifDial = n.Dial
	reg := prometheus.NewRegistry()
	var conn net.Conn
	var peer *simnet.Conn
	if side == 0 {
		l := &forwarder.Listener{ListenerConfig: forwarder.ListenerConfig{Address: "l.test:1", TrackTraffic: true}, PromConfig: forwarder.PromConfig{PromRegistry: reg, PromNamespace: "t"}}
		if err := l.Listen(); err != nil {
			x.Failf("harness/listen", "%v", err)
			return
		}
		defer l.Close()
		var err error
		peer, err = n.DialFrom("peer.test", "l.test:1")
		if err != nil {
			x.Failf("harness/dial", "%v", err)
			return
		}
		conn, err = l.Accept()
		if err != nil {
			x.Failf("harness/accept", "%v", err)
			return
		}
	} else {
		sl, _ := n.Listen("srv.test:2")
		d := forwarder.NewDialer(&forwarder.DialConfig{PromConfig: forwarder.PromConfig{PromRegistry: reg, PromNamespace: "t"}})
		var err error
		conn, err = d.DialContext(forwarder.WithDialConnTrack(context.Background(), forwarder.DialConnTrackTraffic), "tcp", "srv.test:2")
		if err != nil {
			x.Failf("harness/dial", "%v", err)
			return
		}
		peer = sl.TryAccept()
		defer sl.Close()
	}
	obs := conntrack.ObserverFromConn(conn)
	if obs == nil {
		x.Failf("observer-missing", "ObserverFromConn returned nil for a connection built with TrackTraffic")
		return
	}
	sizes := []int{0, 1, 4096, 70000}
	var rx, tx uint64
	ops := 1 + x.ChooseFree("ops-1", 3)
	for i := 0; i < ops; i++ {
		op := x.ChooseFree(fmt.Sprintf("op%d", i), 6)
		sz := sizes[x.ChooseFree(fmt.Sprintf("size%d", i), len(sizes))]
		switch op {
		case 0: // Write
			k, _ := conn.Write(h1x.Pattern(sz, 1))
			tx += uint64(k)
			peer.Take()
		case 1: // Read what the peer sent
			if sz > 0 {
				peer.Write(h1x.Pattern(sz, 2))
				buf := make([]byte, sz+10)
				k, _ := io.ReadAtLeast(conn, buf, sz)
				rx += uint64(k)
			}
		case 2: // io.Copy into the connection (ReadFrom path)
			k, _ := io.Copy(conn, bytes.NewReader(h1x.Pattern(sz, 3)))
			tx += uint64(k)
			peer.Take()
		case 4: // a Write that is cut short: the peer stops reading (4 KiB socket buffer) and then resets
			peer.SetLimit(4096)
			var k int
			done := make(chan struct{})
			go func() { k, _ = conn.Write(h1x.Pattern(70000+sz, 5)); close(done) }()
			synctest.Wait()
			peer.Abort()
			<-done
			tx += uint64(k)
			i = ops
		case 5: // io.Copy into the connection from a source that fails after sz bytes (partial ReadFrom)
			k, _ := io.Copy(conn, io.MultiReader(bytes.NewReader(h1x.Pattern(sz, 6)), failingReader{}))
			tx += uint64(k)
			peer.Take()
		case 3: // io.Copy out of the connection (WriteTo path) until the peer half-closes
			peer.Write(h1x.Pattern(sz, 4))
			peer.CloseWrite()
			k, _ := io.Copy(io.Discard, conn)
			rx += uint64(k)
			i = ops
		}
		x.Check()
		if obs.Rx() != rx || obs.Tx() != tx {
			x.Failf("byte-counters", "side %d after op %d (kind %d, %d bytes): Observer rx=%d tx=%d, actually transferred rx=%d tx=%d", side, i, op, sz, obs.Rx(), obs.Tx(), rx, tx)
			return
		}
	}
	gauge := func() float64 {
		mfs, _ := reg.Gather()
		for _, mf := range mfs {
			if strings.HasSuffix(mf.GetName(), "cx_active") {
				var s float64
				for _, m := range mf.GetMetric() {
					s += m.GetGauge().GetValue()
				}
				return s
			}
		}
		return -1
	}
	if g := gauge(); g != 1 {
		x.Failf("active-gauge", "side %d: cx_active = %v with one open connection", side, g)
	}
	closes := 1 + x.ChooseFree("closes-1", 3)
	for i := 0; i < closes; i++ {
		conn.Close()
	}
	if g := gauge(); g != 0 {
		x.Failf("close-once", "side %d: cx_active = %v after %d Close calls on one connection", side, g, closes)
	}
	peer.Close()
	x.Outcome(fmt.Sprintf("side%d rx>0=%v tx>0=%v closes=%d", side, rx > 0, tx > 0, closes))
}

func TestC13(t *testing.T) {
	s := explore.NewSuite(t, "C13", "model_checking",
		"(sequences) every sequence of 1-2 (quick) / 1-3 (thorough) exchanges over 20 kinds (an Upgrade whose request also says Connection: close, a request whose connection is redirected by --connect-to to another host, two exchanges overlapping on two connections with the same X-Request-Id, ok, HEAD, POST, 403, 407, dial error, origin reset mid-body, CONNECT torn down client-first / target-first, Upgrade, MITM hand-off + inner request, rejected upstream CONNECT inside MITM, client abort while uploading / downloading / before the response, client abort while the proxy is still dialling the CONNECT target (the tunnel-establishing 200 cannot be written), client abort before the 101 of an Upgrade) on the same or a new client connection, against one proxy configured with basic auth, deny-domains, mitm-domains and a PAC-selected upstream; states = quiescent points between exchanges (and inside tunnels), at each the real Prometheus registry is gathered: in-flight gauge = requests in progress, requests_total = exactly one per request read under the status sent, listener/dialer active gauges = sockets the proxy actually holds (from the simulated network), all gauges zero at the end; (api) Listener/Dialer with traffic tracking: every sequence of <= 3 operations (Write, Read, io.Copy in/out, a Write cut short by a stalled and then resetting peer, io.Copy from a source that fails after n bytes) x sizes, Observer rx/tx = bytes moved, then 1-3 Close calls: active gauge drops exactly once; (concurrent-close) 2-3 threads closing one tracked connection under a controlled scheduler, OnClose exactly once; (round 9) kinds CONNECT relayed through the PAC-selected upstream proxy that answers 200 / that reads the CONNECT and never answers (connect time-out): the dialled connection is released, dialer gauge back to zero")
	s.Assume = []string{"simnet is the ground truth for which sockets are open", "status of a response to a client that has vanished is unknowable; for those only 'exactly one completion' is required", "(concurrent-close) conntrack's sync.Once / atomics are redirected at build time to a cooperative scheduler: all interleavings of 2-3 concurrent Close calls (and a reader) with at most 2 (quick) / 3 (thorough) preemptions"}
	for _, tier := range []string{"quick", "thorough"} {
		l := map[string]int{"quick": 2, "thorough": 3}[tier]
		s.Add(explore.Scenario{Name: "sequences-" + tier, Remote: true, Tiers: []string{tier},
			Run: func(x *explore.X) { world.Run(t, x, func() { scenario(x, l) }) }})
	}
	s.Add(explore.Scenario{Name: "concurrent-close", Remote: true, MaxDev: map[string]int{"quick": 2, "thorough": 3},
		Run: func(x *explore.X) { closeOnceScenario(t, x) }})
	s.Add(explore.Scenario{Name: "proxy-protocol-listener", Remote: true, Run: func(x *explore.X) { world.Run(t, x, func() { ppScenario(x) }) }})
	s.Add(explore.Scenario{Name: "api-counters", Remote: true, Run: func(x *explore.X) { world.Run(t, x, func() { apiScenario(x) }) }})
	s.Main()
}
