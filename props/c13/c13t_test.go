package c13

import (
	"fmt"
	"testing"
	"time"

	"github.com/saucelabs/forwarder/conntrack"
	"github.com/saucelabs/forwarder/internal/zzverif/explore"
	"github.com/saucelabs/forwarder/internal/zzverif/simnet"
	"github.com/saucelabs/forwarder/internal/zzverif/tsched"
	"github.com/saucelabs/forwarder/internal/zzverif/vsync"
)

// closeOnceScenario (Engine T): 2-3 threads close one tracked connection concurrently (plus an optional
// reader); every interleaving of the hooked operations of conntrack (sync.Once of the close listener, the
// traffic counters) within the preemption bound; the OnClose callback must have run exactly once.
func closeOnceScenario(t *testing.T, x *explore.X) {
	closers := 2 + x.ChooseFree("closers-2", 2)
	traffic := x.ChooseFree("track-traffic", 2) == 1
	reader := x.ChooseFree("reader", 2) == 1
	count := 0
	var peer *simnet.Conn
	tsched.Run(t, x, time.Second, false, func() {
		n := simnet.New()
		l, _ := n.Listen("srv.test:1")
		peer, _ = n.DialFrom("peer.test", "srv.test:1")
		raw := l.TryAccept()
		conn := conntrack.Builder{TrackTraffic: traffic, OnClose: func() { count++ }}.Build(raw)
		peer.Write([]byte("data"))
		for i := 0; i < closers; i++ {
			vsync.GoNamed(fmt.Sprintf("closer%d", i), func() { conn.Close() })
		}
		if reader {
			vsync.GoNamed("reader", func() {
				buf := make([]byte, 8)
				conn.Read(buf)
			})
		}
	}, func(s *vsync.Scheduler) {
		x.Check()
		if count != 1 {
			x.Failf("close-callback-count", "%d concurrent Close calls (track-traffic=%v, reader=%v): the OnClose callback ran %d times\n  schedule: %v", closers, traffic, reader, count, s.Trace)
		}
		if !peer.Status().PeerClosed {
			x.Failf("not-closed", "the underlying connection is still open after %d Close calls", closers)
		}
		x.Outcome(fmt.Sprintf("closers=%d traffic=%v reader=%v", closers, traffic, reader))
		peer.Close()
	})
}
