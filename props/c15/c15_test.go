// C15: stalled clients are cut off at configured limits and cannot delay other clients.
// Engine S with the virtual clock: for every listener stacking and every stall point, N peers stall
// at one virtual instant; a probe client connecting at that same instant must be served with zero
// virtual time elapsed; each stalled socket must still be open 1 ms before the applicable limit and
// closed 1 ms after it; a connection waiting only for a slow origin is never closed.
package c15

import (
	"crypto/tls"
	"crypto/x509"
	"fmt"
	"strings"
	"testing"
	"time"

	"github.com/saucelabs/forwarder"
	"github.com/saucelabs/forwarder/internal/zzverif/explore"
	"github.com/saucelabs/forwarder/internal/zzverif/httpwire"
	"github.com/saucelabs/forwarder/internal/zzverif/world"
)

const (
	idleTO   = 30 * time.Second
	headerTO = 7 * time.Second
	tlsTO    = 5 * time.Second
	ppTO     = 3 * time.Second
)

var stacks = []string{"plain", "tls", "proxy-protocol", "proxy-protocol+tls", "mitm"}

const ppHeader = "PROXY TCP4 192.0.2.7 198.51.100.1 40000 3128\r\n"
const reqHead = "GET http://ok.test/x HTTP/1.1\r\nHost: ok.test\r\n\r\n"

var helloPrefix = []byte{0x16, 0x03, 0x01, 0x02, 0x00, 0x01, 0x00, 0x01, 0xfc, 0x03, 0x03, 1, 2, 3}

type stallPoint struct {
	name  string
	limit time.Duration // 0 = must never be closed
	// what the limit is measured from: the instant the stall was established (all stalls in this
	// check are established at one virtual instant, so "from accept" and "from first byte" coincide)
}

// stallPoints lists, per stacking, the phases a peer can stall in and the limit that applies.
func stallPoints(stack string, everyOffset bool) []stallPoint {
	var sp []stallPoint
	if everyOffset {
		pp := stack == "proxy-protocol" || stack == "proxy-protocol+tls"
		if pp {
			for k := 1; k < len(ppHeader); k++ {
				sp = append(sp, stallPoint{fmt.Sprintf("pp-partial-header-%d", k), ppTO})
			}
		}
		if stack == "tls" || stack == "proxy-protocol+tls" {
			for k := 1; k <= len(helloPrefix); k++ {
				sp = append(sp, stallPoint{fmt.Sprintf("tls-partial-hello-%d", k), tlsTO})
			}
		}
		if stack == "mitm" {
			for k := 1; k <= len(helloPrefix); k++ {
				sp = append(sp, stallPoint{fmt.Sprintf("mitm-partial-hello-%d", k), tlsTO})
			}
		}
		n := len(reqHead)
		if stack == "mitm" {
			n = len("GET /x HTTP/1.1\r\nHost: ok.test\r\n\r\n")
		}
		for k := 1; k < n; k++ {
			sp = append(sp, stallPoint{fmt.Sprintf("partial-request-head-%d", k), headerTO})
		}
		return sp
	}
	pp := stack == "proxy-protocol" || stack == "proxy-protocol+tls"
	tl := stack == "tls" || stack == "proxy-protocol+tls"
	if pp {
		sp = append(sp, stallPoint{"pp-no-byte", ppTO}, stallPoint{"pp-partial-header-5", ppTO}, stallPoint{"pp-partial-header-20", ppTO}, stallPoint{"pp-header-without-LF", ppTO})
	}
	if tl {
		sp = append(sp, stallPoint{"tls-no-byte", tlsTO}, stallPoint{"tls-partial-hello-1", tlsTO}, stallPoint{"tls-partial-hello-14", tlsTO})
	}
	if stack == "mitm" {
		sp = append(sp, stallPoint{"mitm-after-connect-no-byte", idleTO}, stallPoint{"mitm-partial-hello-1", tlsTO}, stallPoint{"mitm-partial-hello-14", tlsTO})
	}
	if !pp && !tl {
		sp = append(sp, stallPoint{"no-byte", idleTO})
	}
	sp = append(sp, stallPoint{"partial-request-head-1", headerTO}, stallPoint{"partial-request-head-20", headerTO}, stallPoint{"request-head-without-final-LF", headerTO},
		stallPoint{"between-requests", idleTO}, stallPoint{"origin-slow", 0}, stallPoint{"request-body-incomplete", 0})
	return sp
}

type peerConn struct {
	raw *world.Peer
	s   world.Stream
}

type ctx struct {
	patient bool // the probe: when a step is not complete at quiescence, let virtual time pass (the delay is what is measured)
	x       *explore.X
	w       *world.World
	stack   string
	pki     *world.PKI
	ok      *world.Hop
	okTLS   *world.Hop
	// ppDelay > 0: the PROXY header is sent in two parts (ppCut octets, then the rest) ppDelay apart
	ppDelay time.Duration
	ppCut   int
}

// connect opens a client connection and advances it through the listener layers up to (not including)
// the phase named by upto: "pp", "tls", "request". stall says where to stop sending.
func (c *ctx) open(stall string) *peerConn {
	raw, err := c.w.Client()
	if err != nil {
		c.x.Failf("harness/client", "%v", err)
		return nil
	}
	pc := &peerConn{raw: raw, s: raw}
	pp := c.stack == "proxy-protocol" || c.stack == "proxy-protocol+tls"
	tl := c.stack == "tls" || c.stack == "proxy-protocol+tls"
	if pp {
		var k int
		switch {
		case stall == "pp-no-byte":
			return pc
		case stall == "pp-header-without-LF":
			raw.Send([]byte(ppHeader[:len(ppHeader)-1]))
			return pc
		case scan(stall, "pp-partial-header-%d", &k):
			raw.Send([]byte(ppHeader[:k]))
			return pc
		}
		if c.ppDelay > 0 {
			// a slow but legitimate PROXY header: it is completed just inside its own limit; the limits of the
			// later phases (TLS handshake, request head, idle) count from the end of this phase
			raw.Send([]byte(ppHeader[:c.ppCut]))
			world.Settle(c.ppDelay)
			if pc.closedByProxy() {
				limit := fmt.Sprint(ppTO)
				if c.w.Cfg.ProxyProtocolConfig != nil && c.w.Cfg.ProxyProtocolConfig.ReadHeaderTimeout == 0 {
					limit = "none (0)"
				}
				c.x.Failf("closed-before-limit/proxy-protocol-header", "stack %s: a peer that had sent %d bytes of its PROXY header was closed within %v, the header limit is %s", c.stack, c.ppCut, c.ppDelay, limit)
				return nil
			}
			raw.Send([]byte(ppHeader[c.ppCut:]))
		} else {
			raw.Send([]byte(ppHeader))
		}
	}
	if tl {
		var k int
		switch {
		case stall == "tls-no-byte":
			return pc
		case scan(stall, "tls-partial-hello-%d", &k):
			raw.Send(helloPrefix[:k])
			return pc
		}
		tc := world.TLSClient(raw, &tls.Config{InsecureSkipVerify: true})
		c.await(func() bool { done, _ := tc.Handshake(); return done })
		if done, err := tc.Handshake(); !done || err != nil {
			c.x.Failf("listener-handshake", "TLS handshake with the listener: done=%v err=%v", done, err)
			return nil
		}
		pc.s = tc
	}
	if c.stack == "mitm" {
		pc.s.Send([]byte("CONNECT ok.test:443 HTTP/1.1\r\nHost: ok.test:443\r\n\r\n"))
		c.await(func() bool { return len(pc.s.Recv()) > 0 })
		if got := string(pc.s.Recv()); got != "HTTP/1.1 200 OK\r\n\r\n" {
			c.x.Failf("mitm/connect-reply", "%q", got)
			return nil
		}
		var k int
		switch {
		case stall == "mitm-after-connect-no-byte":
			return pc
		case scan(stall, "mitm-partial-hello-%d", &k):
			raw.Send(helloPrefix[:k])
			return pc
		}
		pool := x509.NewCertPool()
		pool.AddCert(c.w.Proxy.MITMCACert())
		tc := world.TLSClient(raw, &tls.Config{RootCAs: pool, ServerName: "ok.test"})
		c.await(func() bool { done, _ := tc.Handshake(); return done })
		if done, err := tc.Handshake(); !done || err != nil {
			c.x.Failf("mitm-handshake", "done=%v err=%v", done, err)
			return nil
		}
		pc.s = tc
	}
	if stall == "no-byte" {
		return pc
	}
	return c.request(pc, stall)
}

// bodyHead is the head of a request that declares a 10-octet body.
func (c *ctx) bodyHead() string {
	if c.stack == "mitm" {
		return "POST /x HTTP/1.1\r\nHost: ok.test\r\nContent-Length: 10\r\n\r\n"
	}
	return "POST http://ok.test/x HTTP/1.1\r\nHost: ok.test\r\nContent-Length: 10\r\n\r\n"
}

func (c *ctx) head() string {
	if c.stack == "mitm" {
		return "GET /x HTTP/1.1\r\nHost: ok.test\r\n\r\n"
	}
	return reqHead
}

// headCut is the number of bytes of the request head a peer stalling at the named point sends (0: not a head stall).
func (c *ctx) headCut(stall string) int {
	var k int
	switch {
	case stall == "request-head-without-final-LF":
		return len(c.head()) - 1
	case scan(stall, "partial-request-head-%d", &k):
		return k
	}
	return 0
}

// request sends the next request head on an established connection up to the stall point; without a
// stall in the head it drives a full exchange (unanswered for "origin-slow").
func (c *ctx) request(pc *peerConn, stall string) *peerConn {
	if k := c.headCut(stall); k > 0 {
		pc.s.Send([]byte(c.head()[:k]))
		return pc
	}
	if stall == "request-body-incomplete" {
		// the head is complete (read-header-timeout no longer applies), half of the declared body has arrived
		pc.s.Send([]byte(c.bodyHead() + "12345"))
		return pc
	}
	return c.exchange(pc, stall, []byte(c.head()))
}

// exchange sends the (rest of the) request head and expects the exchange to be forwarded and answered.
func (c *ctx) exchange(pc *peerConn, stall string, bytes []byte) *peerConn {
	before := len(httpwire.ParseResponses(pc.s.Recv(), []string{"GET", "GET", "GET"}, false).Msgs)
	pc.s.Send(bytes)
	hop := c.ok
	if c.stack == "mitm" {
		hop = c.okTLS
	}
	msgs, conns, _ := hop.Next()
	c.await(func() bool {
		if len(msgs) == 0 {
			msgs, conns, _ = hop.Next()
		}
		return len(msgs) == 1
	})
	if len(msgs) != 1 {
		c.x.Failf("exchange-not-forwarded", "request of a well-behaved client was not forwarded (stall point %q): client got %q", stall, world.Clip(pc.s.Recv()))
		return nil
	}
	if stall == "origin-slow" {
		return pc // the origin does not answer yet
	}
	hop.Conns[conns[0]].Send([]byte("HTTP/1.1 200 OK\r\nContent-Length: 2\r\n\r\nok"))
	rs := httpwire.ParseResponses(pc.s.Recv(), []string{"GET", "GET", "GET"}, false)
	if len(rs.Msgs) != before+1 || rs.Msgs[before].Status != 200 {
		c.x.Failf("exchange-not-answered", "client got %q", world.Clip(pc.s.Recv()))
		return nil
	}
	return pc // "between-requests" and the probe end here
}

// await lets up to 60 s of virtual time pass (patient mode only) until cond holds.
func (c *ctx) await(cond func() bool) {
	for i := 0; c.patient && i < 600 && !cond(); i++ {
		world.Settle(100 * time.Millisecond)
	}
}

func scan(s, format string, k *int) bool {
	n, err := fmt.Sscanf(s, format, k)
	return n == 1 && err == nil
}

func (p *peerConn) closedByProxy() bool {
	st := p.raw.C.Status()
	return st.PeerClosed || st.Reset || (st.EOF && st.Pending == 0)
}

func scenario(x *explore.X, everyOffset bool) {
	stack := stacks[x.ChooseFree("stack", len(stacks))]
	sps := stallPoints(stack, everyOffset)
	sp := sps[x.ChooseFree("stall-point", len(sps))]
	npeers := []int{1, 2, 8}[x.Choose("stalled-peers", 3)]
	c := &ctx{x: x, stack: stack, pki: world.NewPKI("harness CA")}
	opts := world.Options{TransportCAPEM: c.pki.CAPEM}
	switch stack {
	case "tls":
		opts.TLSListener = true
	case "proxy-protocol":
		opts.ProxyProtocol, opts.ProxyProtoTO = true, ppTO
	case "proxy-protocol+tls":
		opts.ProxyProtocol, opts.ProxyProtoTO, opts.TLSListener = true, ppTO, true
	case "mitm":
		opts.MITM = true
	}
	// (round 9 rule) the limits reach the configuration as struct fields, or the way an operator's do: as command-line
	// flags through the plumbing of package bind
	if x.Choose("limits-given-as-command-line-flags", 2) == 1 {
		opts.Flags = []string{"--idle-timeout", idleTO.String(), "--read-header-timeout", headerTO.String(), "--tls-handshake-timeout", tlsTO.String()}
		if opts.ProxyProtocol {
			opts.ProxyProtocol, opts.ProxyProtoTO = false, 0
			opts.Flags = append(opts.Flags, "--proxy-protocol-listener", "--proxy-protocol-read-header-timeout", ppTO.String())
		}
	} else {
		opts.Tweak = func(cfg *forwarder.HTTPProxyConfig, _ *forwarder.HTTPTransportConfig) {
			cfg.IdleTimeout = idleTO
			cfg.ReadHeaderTimeout = headerTO
			cfg.TLSServerConfig.HandshakeTimeout = tlsTO
		}
	}
	w, err := world.Start(opts)
	if err != nil {
		x.Failf("harness/start", "%v", err)
		return
	}
	c.w = w
	c.ok, _ = w.Hop("ok.test:80", nil)
	c.okTLS, _ = w.Hop("ok.test:443", &tls.Config{Certificates: []tls.Certificate{c.pki.Leaf([]string{"ok.test"}, -time.Hour, time.Hour)}})

	// A stall inside a request head can be preceded by complete exchanges and by a quiet period shorter
	// than idle-timeout (also longer than read-header-timeout): the header limit runs from the first
	// byte of the head, so neither changes the instant at which the socket must be closed; and instead
	// of stalling for good the peer may complete its head 1 ms before the limit and must be served.
	headStall := false
	var prior, finish int
	var quiet time.Duration
	{
		cc := &ctx{stack: stack}
		headStall = cc.headCut(sp.name) > 0
	}
	// the same for the TLS hello of an intercepted CONNECT: tls-handshake-timeout runs from the first byte of
	// the hello; until then the connection is merely idle
	var helloK int
	helloStall := scan(sp.name, "mitm-partial-hello-%d", &helloK)
	if headStall {
		// 2: the first bytes of the stalled head arrive in the SAME segment as the previous (complete) request
		prior = x.Choose("prior-exchanges", 3)
		if prior != 2 {
			quiet = []time.Duration{0, headerTO + time.Second, idleTO - time.Millisecond}[x.Choose("quiet-before-head", 3)]
		}
		finish = x.Choose("completes-head-1ms-before-limit", 2)
	}
	if helloStall {
		quiet = []time.Duration{0, tlsTO + time.Second, idleTO - time.Millisecond}[x.Choose("quiet-before-hello", 3)]
	}
	// a stall in a later phase of a PROXY-protocol listener may follow a PROXY header that itself took almost
	// all of its own limit (one stalled peer only: its phases are then at known instants)
	if (stack == "proxy-protocol" || stack == "proxy-protocol+tls") && !strings.HasPrefix(sp.name, "pp-") && npeers == 1 {
		if k := x.Choose("slow-proxy-header", 3); k > 0 {
			c.ppDelay, c.ppCut = ppTO-time.Millisecond, []int{0, 0, 20}[k]
		}
	}
	t0 := time.Now()
	var stalled []*peerConn
	for i := 0; i < npeers; i++ {
		first := sp.name
		if headStall {
			first = []string{"no-byte", "between-requests", "no-byte"}[prior]
		}
		if helloStall {
			first = "mitm-after-connect-no-byte"
		}
		pc := c.open(first)
		if pc == nil {
			if c.ppDelay > 0 {
				cleanup(x, w, c, stalled, nil)
			}
			return
		}
		if headStall && prior == 2 {
			if pc = c.exchange(pc, "", []byte(c.head()+c.head()[:c.headCut(sp.name)])); pc == nil {
				cleanup(x, w, c, stalled, nil)
				return
			}
		}
		stalled = append(stalled, pc)
	}
	if c.ppDelay > 0 {
		t0 = time.Now() // the later phases count from the end of the PROXY header
		c.ppDelay = 0   // the probe is prompt
	}
	if helloStall {
		world.Settle(quiet)
		for i, pc := range stalled {
			if pc.closedByProxy() {
				x.Failf("closed-before-limit/idle", "stack %s: peer %d was closed %v after its CONNECT without having started the handshake, idle-timeout is %v", stack, i, time.Since(t0), idleTO)
			}
		}
		if x.Failed() {
			cleanup(x, w, c, stalled, nil)
			return
		}
		t0 = time.Now()
		for _, pc := range stalled {
			pc.raw.Send(helloPrefix[:helloK])
		}
	}
	if headStall {
		if d := time.Since(t0); d != 0 {
			x.Failf("delayed-by-stalled-peers/establishing", "stack %s: bringing %d peers to the start of a request head (prior exchanges %d) took %v of virtual time", stack, npeers, prior, d)
			cleanup(x, w, c, stalled, nil)
			return
		}
		world.Settle(quiet)
		for i, pc := range stalled {
			if pc.closedByProxy() {
				x.Failf("closed-before-limit/idle", "stack %s: peer %d (prior exchanges %d) was closed after %v without a request, idle-timeout is %v", stack, i, prior, time.Since(t0), idleTO)
			}
		}
		if x.Failed() {
			cleanup(x, w, c, stalled, nil)
			return
		}
		t0 = time.Now()
		for _, pc := range stalled {
			if prior != 2 {
				c.request(pc, sp.name)
			}
		}
	}
	if d := time.Since(t0); d != 0 {
		// establishing the stalls must not consume virtual time either (each peer behaves well up to its stall point)
		x.Failf("delayed-by-stalled-peers/establishing", "stack %s stall %s: bringing %d peers to their stall point took %v of virtual time", stack, sp.name, npeers, d)
	}
	x.Logf("stack=%s stall=%s peers=%d limit=%v", stack, sp.name, npeers, sp.limit)
	// the probe: a well-behaved client connecting at the same virtual instant
	x.Check()
	t1 := time.Now()
	c.patient = true
	probe := c.open("")
	c.patient = false
	if probe == nil {
		if !x.Failed() {
			x.Failf("probe-not-served", "stack %s, %d peers stalled at %s: probe client not served", stack, npeers, sp.name)
		}
	} else if d := time.Since(t1); d != 0 {
		sig := "delayed-by-stalled-peers"
		if sp.limit == ppTO {
			sig = "delayed-by-stalled-peers/proxy-protocol-header"
		}
		x.Failf(sig, "stack %s, %d peers stalled at %s: the probe client was served after %v of virtual time, want 0", stack, npeers, sp.name, d)
	}
	if x.Failed() {
		cleanup(x, w, c, stalled, probe)
		return
	}
	elapsed := time.Since(t0)
	if sp.limit > 0 {
		world.Settle(sp.limit - time.Millisecond - elapsed)
		for i, pc := range stalled {
			if pc.closedByProxy() {
				x.Failf("closed-before-limit", "stack %s stall %s (prior exchanges %d, quiet %v before the first byte): peer %d was closed %v after stalling, before the limit of %v", stack, sp.name, prior, quiet, i, time.Since(t0), sp.limit)
			}
		}
		if finish == 1 && !x.Failed() {
			for i, pc := range stalled {
				if c.exchange(pc, "", []byte(c.head()[c.headCut(sp.name):])) == nil && !x.Failed() {
					x.Failf("late-head-not-served", "stack %s stall %s: peer %d completed its request head %v after its first byte (limit %v) and was not served", stack, sp.name, i, time.Since(t0), sp.limit)
				}
			}
			x.Outcome(fmt.Sprintf("%s/%s/%v/completed", stack, sp.name, sp.limit))
			cleanup(x, w, c, stalled, probe)
			return
		}
		world.Settle(2 * time.Millisecond)
		for i, pc := range stalled {
			if !pc.closedByProxy() {
				sig := "not-closed-at-limit"
				if sp.name == "mitm-after-connect-no-byte" {
					sig = "not-closed-at-limit/mitm-after-connect-no-byte"
				}
				x.Failf(sig, "stack %s stall %s: peer %d is still open %v after stalling, limit %v", stack, sp.name, i, time.Since(t0), sp.limit)
			}
		}
	} else {
		// only the origin is slow: the client connection must stay open, then the late answer must arrive
		world.Settle(10 * time.Minute)
		for i, pc := range stalled {
			if pc.closedByProxy() {
				x.Failf("closed-while-origin-slow", "stack %s stall %s: peer %d was closed although no limit applies to this phase (after %v)", stack, sp.name, i, time.Since(t0))
			}
		}
		hop := c.ok
		if stack == "mitm" {
			hop = c.okTLS
		}
		if sp.name == "request-body-incomplete" {
			// the client finishes its upload ten minutes later: the request must reach the origin whole
			for _, pc := range stalled {
				pc.s.Send([]byte("67890"))
			}
			msgs, _, _ := hop.Next()
			for i, m := range msgs {
				if string(m.Body) != "1234567890" {
					x.Failf("late-body-lost", "stack %s: the origin received body %q of request %d, the client sent 1234567890 (second half ten minutes after the first)", stack, m.Body, i)
				}
			}
			if len(msgs) != len(stalled) {
				x.Failf("late-body-lost", "stack %s: %d of %d slow uploads reached the origin", stack, len(msgs), len(stalled))
			}
		}
		for _, oc := range hop.Conns {
			oc.Send([]byte("HTTP/1.1 200 OK\r\nContent-Length: 4\r\n\r\nlate"))
		}
		for i, pc := range stalled {
			rs := httpwire.ParseResponses(pc.s.Recv(), []string{"POST"}, false)
			if len(rs.Msgs) != 1 || string(rs.Msgs[0].Body) != "late" {
				x.Failf("late-answer-lost", "stack %s: peer %d did not receive the origin's late answer: %q", stack, i, world.Clip(pc.s.Recv()))
			}
		}
	}
	x.Outcome(fmt.Sprintf("%s/%s/%v", stack, sp.name, sp.limit))
	cleanup(x, w, c, stalled, probe)
}

// noHeaderLimit: --proxy-protocol-read-header-timeout 0 means "no limit": a peer may take as long as it likes for
// its PROXY header (far longer than the default of the option) and is then served like any other.
func noHeaderLimit(x *explore.X) {
	stack := []string{"proxy-protocol", "proxy-protocol+tls"}[x.ChooseFree("stack", 2)]
	cut := []int{0, 1, 20, len(ppHeader) - 1}[x.ChooseFree("header-bytes-sent-before-the-pause", 4)]
	pause := []time.Duration{4 * time.Second, 6 * time.Second, time.Minute, 10 * time.Minute}[x.ChooseFree("pause", 4)]
	c := &ctx{x: x, stack: stack, pki: world.NewPKI("harness CA")}
	opts := world.Options{TransportCAPEM: c.pki.CAPEM, ProxyProtocol: true, ProxyProtoNoTO: true, TLSListener: stack == "proxy-protocol+tls"}
	opts.Tweak = func(cfg *forwarder.HTTPProxyConfig, _ *forwarder.HTTPTransportConfig) {
		cfg.IdleTimeout = idleTO
		cfg.ReadHeaderTimeout = headerTO
		cfg.TLSServerConfig.HandshakeTimeout = tlsTO
	}
	w, err := world.Start(opts)
	if err != nil {
		x.Failf("harness/start", "%v", err)
		return
	}
	c.w = w
	c.ok, _ = w.Hop("ok.test:80", nil)
	c.okTLS, _ = w.Hop("ok.test:443", nil)
	c.ppDelay, c.ppCut = pause, cut
	c.patient = true
	x.Check()
	pc := c.open("")
	if pc == nil && !x.Failed() {
		x.Failf("slow-proxy-header-not-served", "stack %s, no PROXY header limit configured: a peer that paused %v after %d header bytes was not served", stack, pause, cut)
	}
	x.Outcome(fmt.Sprintf("%s/%v", stack, pc != nil))
	var st []*peerConn
	if pc != nil {
		st = append(st, pc)
	}
	cleanup(x, w, c, st, nil)
}

func cleanup(x *explore.X, w *world.World, c *ctx, stalled []*peerConn, probe *peerConn) {
	for _, pc := range stalled {
		pc.s.Close()
		pc.raw.Close()
	}
	if probe != nil {
		probe.s.Close()
		probe.raw.Close()
	}
	if err := w.Stop(); err != nil {
		x.Failf("shutdown", "%v", err)
	}
	c.ok.Close()
	c.okTLS.Close()
	if l := world.Leaks(); l != "" {
		x.Failf("goroutine-leak", "%s", l)
	}
}

// manyStalled (round 9): a listener with bandwidth limits and MANY (1100) connections that make no progress - no byte
// yet, part of a request head, idle between two requests. A limit is a budget of octets per second for the octets that
// move; a connection on which nothing moves costs nothing: a well-behaved client connecting at the same instant is
// served without any virtual time passing, and so is one of the idle connections when it sends its next request.
func manyStalled(x *explore.X) {
	lim := x.ChooseFree("limits", 3) // 0 write-limit, 1 read-limit, 2 both
	sp := x.ChooseFree("stall-point", 3)
	const n = 1100
	opts := world.Options{}
	if lim != 1 {
		opts.WriteLimit = 16 * 1024
	}
	if lim != 0 {
		opts.ReadLimit = 16 * 1024
	}
	opts.Tweak = func(cfg *forwarder.HTTPProxyConfig, _ *forwarder.HTTPTransportConfig) {
		cfg.IdleTimeout = idleTO
		cfg.ReadHeaderTimeout = headerTO
	}
	w, err := world.Start(opts)
	if err != nil {
		x.Failf("harness/start", "%v", err)
		return
	}
	ok, _ := w.Hop("ok.test:80", nil)
	req := "GET http://ok.test/ HTTP/1.1\r\nHost: ok.test\r\n\r\n"
	exchange := func(c *world.Peer, what string) bool {
		c.Send([]byte(req))
		msgs, conns, _ := ok.Next()
		if len(msgs) != 1 {
			return false
		}
		ok.Conns[conns[0]].Send([]byte("HTTP/1.1 200 OK\r\nContent-Length: 2\r\n\r\nok"))
		rs := httpwire.ParseResponses(c.Recv(), []string{"GET", "GET"}, false)
		return len(rs.Msgs) >= 1 && rs.Msgs[len(rs.Msgs)-1].Status == 200
	}
	t0 := time.Now()
	var stalled []*world.Peer
	for i := 0; i < n; i++ {
		c, err := w.Client()
		if err != nil {
			x.Failf("harness/client", "%v", err)
			return
		}
		stalled = append(stalled, c)
		switch sp {
		case 1:
			c.Send([]byte(req[:20]))
		case 2:
			if !exchange(c, "setting up") {
				x.Failf("delayed-by-stalled-peers/establishing", "limits %d: connection %d of %d was not served its first exchange at once (%v of virtual time so far)", lim, i+1, n, time.Since(t0))
				return
			}
		}
	}
	what := fmt.Sprintf("limits %s, %d connections stalled at %s", []string{"write 16 KiB/s", "read 16 KiB/s", "read and write 16 KiB/s"}[lim], n, []string{"no byte", "a partial request head", "idle between requests"}[sp])
	if d := time.Since(t0); d != 0 {
		x.Failf("delayed-by-stalled-peers/establishing", "%s: bringing them there took %v of virtual time", what, d)
		return
	}
	x.Check()
	probe, _ := w.Client()
	if !exchange(probe, "probe") || time.Since(t0) != 0 {
		for i := 0; i < 60 && len(probe.Recv()) == 0; i++ {
			world.Settle(time.Second)
			if msgs, conns, _ := ok.Next(); len(msgs) == 1 {
				ok.Conns[conns[0]].Send([]byte("HTTP/1.1 200 OK\r\nContent-Length: 2\r\n\r\nok"))
			}
		}
		x.Failf("delayed-by-stalled-peers/rate-limited-listener", "%s: a well-behaved client connecting at the same instant was served after %v of virtual time (got %q), want 0", what, time.Since(t0), world.Clip(probe.Recv()))
	} else if sp == 2 {
		if !exchange(stalled[n/2], "idle connection resumes") || time.Since(t0) != 0 {
			x.Failf("delayed-by-stalled-peers/rate-limited-listener", "%s: one of the idle connections sent its next request and was served after %v of virtual time, want 0", what, time.Since(t0))
		}
	}
	x.Outcome(fmt.Sprintf("lim%d sp%d", lim, sp))
	for _, c := range stalled {
		c.Close()
	}
	probe.Close()
	if err := w.Stop(); err != nil {
		x.Failf("shutdown", "%v", err)
	}
	ok.Close()
	if l := world.Leaks(); l != "" {
		x.Failf("goroutine-leak", "%s", l)
	}
}

func TestC15(t *testing.T) {
	s := explore.NewSuite(t, "C15", "model_checking",
		"listener stacking(5: plain, TLS, PROXY protocol, PROXY protocol + TLS, MITM inside CONNECT) x every stall point of that stacking (no byte, partial PROXY header at 3 offsets, partial TLS hello at 2 offsets, after CONNECT, partial request head at 3 offsets, between requests, origin slow) [full product] x number of simultaneously stalled peers {1,2,8} x for stalls inside a request head: complete exchanges before it {0,1} x quiet period before its first byte {0, read-header-timeout+1s, idle-timeout-1ms} x {stall for good, complete the head 1 ms before the limit and be served}; for stalls inside the TLS hello of an intercepted CONNECT: quiet period between the 200 and the first hello byte {0, tls-handshake-timeout+1s, idle-timeout-1ms} [bounded: quick <=2 deviations, thorough full product]; thorough additionally stalls at EVERY byte offset of the PROXY header, of the TLS hello prefix and of the request head; all on the virtual clock with distinct limits (idle 30 s, read-header 7 s, TLS handshake 5 s, PROXY header 3 s); states = quiescent states at t0, limit-1ms, limit+1ms; oracle: probe client connecting at the same virtual instant is served in 0 s, stalled sockets open at limit-1ms and closed at limit+1ms, never closed while only the origin is slow (10 virtual minutes), the late answer is delivered; plus (no-proxy-header-limit) --proxy-protocol-read-header-timeout 0 x {PROXY protocol, PROXY protocol + TLS} x 4 cut points of the header x pause {4 s, 6 s, 1 min, 10 min}: the peer is served; plus later-phase stalls preceded by a PROXY header completed 1 ms inside its limit, and head stalls whose first bytes arrive in the segment of the previous request; (many-stalled-peers-on-a-rate-limited-listener, round 9) limits {write, read, both: 16 KiB/s} x 1100 connections stalled at {no byte, partial request head, idle between requests}: a well-behaved client (and one of the idle connections sending its next request) is served without any virtual time passing; the four limits reach the configuration as struct fields or as command-line flags through the plumbing of package bind (choice)")
	s.Assume = []string{"testing/synctest virtual clock: time advances only when every goroutine of the proxy is durably blocked", "sync.Mutex held across timed waits in proxy.go and proxyproto/net.go replaced by a channel mutex at build time (vsync) so the virtual clock can advance"}
	s.Add(explore.Scenario{Name: "stalls", Remote: true, MaxDev: map[string]int{"quick": 2, "thorough": 4},
		Run: func(x *explore.X) { world.Run(t, x, func() { scenario(x, false) }) }})
	s.Add(explore.Scenario{Name: "many-stalled-peers-on-a-rate-limited-listener", Remote: true, Run: func(x *explore.X) { world.Run(t, x, func() { manyStalled(x) }) }})
	s.Add(explore.Scenario{Name: "no-proxy-header-limit", Remote: true, Run: func(x *explore.X) { world.Run(t, x, func() { noHeaderLimit(x) }) }})
	s.Add(explore.Scenario{Name: "every-offset", Remote: true, Tiers: []string{"thorough"}, MaxDev: map[string]int{"thorough": 2},
		Run: func(x *explore.X) { world.Run(t, x, func() { scenario(x, true) }) }})
	s.Main()
}
