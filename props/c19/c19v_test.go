package c19

import (
	"encoding/base64"
	"fmt"
	"net/url"
	"strings"
	"time"

	"github.com/saucelabs/forwarder/internal/zzverif/explore"
	"github.com/saucelabs/forwarder/internal/zzverif/httpwire"
	"github.com/saucelabs/forwarder/internal/zzverif/simnet"
	"github.com/saucelabs/forwarder/internal/zzverif/world"
)

// errorResponses (Engine S, virtual clock): the proxy talks to a password-protected upstream proxy (the
// password comes from the proxy URL or from a --credentials entry) and the exchange fails in every way the
// upstream can make it fail - including the ways that take a minute of (virtual) time. Whatever the client
// is sent back must not contain the password in any of its encodings.
func errorResponses(x *explore.X) {
	// (the last secret is longer than the 255 octets a SOCKS5 password may have: the dialer refuses it - the
	// refusal goes to the client like every other failure)
	secretsV := append(append([]string{}, secrets...), strings.Repeat("Lp9x", 75))
	secret := secretsV[x.ChooseFree("secret", len(secretsV))]
	schemeK := x.ChooseFree("upstream-scheme", 4) // 0: http proxy, 1: socks5 proxy, 2/3: a PAC script that answers SOCKS4 / SOCKS (unsupported types)
	socks := schemeK == 1
	pacUnsupported := schemeK >= 2
	fromTable := x.ChooseFree("password-from", 2) == 1 // 0: --proxy userinfo, 1: --credentials entry for the proxy
	connect := x.ChooseFree("request", 2) == 1         // 0: GET through the upstream, 1: CONNECT through the upstream
	fault := x.ChooseFree("fault", 7)
	faults := []string{"dial refused", "dial black-holed", "upstream answers 403", "upstream answers 407", "upstream never answers", "upstream closes without answering", "upstream answers garbage"}
	if pacUnsupported && (!fromTable || fault != 0) {
		x.Outcome("inadmissible") // a PAC-selected proxy gets its password from the table; the request fails before any connection
		return
	}
	if strings.Contains(secret, "@") && !fromTable {
		x.Outcome("inadmissible")
		return
	}
	opts := world.Options{}
	scheme := "http"
	if socks {
		scheme = "socks5"
		faults = []string{"dial refused", "dial black-holed", "no acceptable method", "credentials rejected", "upstream never answers", "upstream closes without answering", "upstream answers garbage"}
	}
	if pacUnsupported {
		scheme = []string{"", "", "SOCKS4", "SOCKS"}[schemeK]
		opts.PAC = `function FindProxyForURL(url, host) { return "` + scheme + ` up.test:8080"; }`
		opts.Credentials = []string{"pxuser:" + secret + "@up.test:8080"}
		faults[0] = "PAC result of an unsupported proxy type"
	} else if fromTable {
		opts.Upstream = scheme + "://up.test:8080"
		opts.Credentials = []string{"pxuser:" + secret + "@up.test:8080"}
	} else {
		opts.Upstream = scheme + "://" + url.UserPassword("pxuser", secret).String() + "@up.test:8080"
	}
	w, err := world.Start(opts)
	if err != nil {
		if !fromTable || strings.ContainsAny(secret, "@ ") {
			x.Outcome("configuration-rejected") // this secret cannot be written in that form
			return
		}
		x.Failf("harness/start", "%v", err)
		return
	}
	switch fault {
	case 0:
		if !pacUnsupported {
			w.Net.Plan["up.test:8080"] = simnet.Refuse
		}
	case 1:
		w.Net.Plan["up.test:8080"] = simnet.Blackhole
	}
	srv, _ := w.Server("up.test:8080")
	cl, _ := w.Client()
	method := "GET"
	if connect {
		method = "CONNECT"
		cl.Send([]byte("CONNECT origin.test:443 HTTP/1.1\r\nHost: origin.test:443\r\n\r\n"))
	} else {
		cl.Send([]byte("GET http://origin.test/x HTTP/1.1\r\nHost: origin.test\r\n\r\n"))
	}
	world.Settle(time.Second)
	var hops []*world.Peer
	serve := func() {
		for p := srv.Accept(); p != nil; p = srv.Accept() {
			hops = append(hops, p)
			if socks {
				switch fault {
				case 2:
					p.Send([]byte{5, 0xff})
				case 3:
					p.Send([]byte{5, 2})
					world.Settle(time.Second)
					p.Send([]byte{1, 1})
				case 5:
					p.Close()
				case 6:
					p.Send([]byte("HTTP/1.1 400 Bad Request\r\n\r\n"))
				}
				continue
			}
			switch fault {
			case 2:
				p.Send([]byte("HTTP/1.1 403 Forbidden\r\nContent-Length: 6\r\n\r\ndenied"))
			case 3:
				p.Send([]byte("HTTP/1.1 407 Proxy Authentication Required\r\nProxy-Authenticate: Basic realm=\"up\"\r\nContent-Length: 0\r\n\r\n"))
			case 4:
			case 5:
				p.Close()
			case 6:
				p.Send([]byte("\x16\x03\x01 this is not HTTP\r\n\r\n"))
			}
		}
	}
	serve()
	for i := 0; i < 5; i++ { // retries and time limits run on the virtual clock
		world.Settle(time.Minute)
		serve()
	}
	what := fmt.Sprintf("password %q from %s, %s through the upstream "+scheme+" proxy, %s", world.Clip([]byte(secret)), map[bool]string{false: "--proxy", true: "--credentials"}[fromTable], method, faults[fault])
	got := cl.Recv()
	x.Check()
	used := false
	for _, p := range hops {
		if strings.Contains(string(p.Recv()), base64.StdEncoding.EncodeToString([]byte("pxuser:"+secret))) {
			used = true
		}
	}
	_ = used // (how a password with reserved characters is written into Proxy-Authorization is C06's business)
	rs := httpwire.ParseResponses(got, []string{method}, cl.EOF())
	if len(rs.Msgs) == 0 && !(fault == 4 && !connect) { // (no response-header time limit is configured: a GET to a silent upstream simply waits)
		x.Failf("harness/no-response", "%s: the client got no response: %q", what, world.Clip(got))
	}
	needles := []string{secret, url.QueryEscape(secret), url.PathEscape(secret), url.UserPassword("u", secret).String()[2:],
		base64.StdEncoding.EncodeToString([]byte(secret)), base64.StdEncoding.EncodeToString([]byte("pxuser:" + secret))}
	for _, n := range needles {
		if n != "" && strings.Contains(string(got), n) {
			i := strings.Index(string(got), n)
			lo, hi := max(0, i-120), min(len(got), i+len(n)+40)
			x.Failf("secret-disclosed/error-response/upstream-proxy", "%s: the response sent to the client contains the password (%q): …%s…", what, world.Clip([]byte(n)), got[lo:hi])
			break
		}
	}
	st := 0
	if len(rs.Msgs) > 0 {
		st = rs.Msgs[0].Status
	}
	x.Outcome(fmt.Sprintf("%s/%s/%s/%d", scheme, method, faults[fault], st))
	cl.Close()
	for _, p := range hops {
		p.Close()
	}
	if err := w.Stop(); err != nil {
		x.Failf("shutdown", "%v", err)
	}
	if l := world.Leaks(); l != "" {
		x.Failf("goroutine-leak", "%s", l)
	}
}

var _ = explore.NewSuite

// requestLogLines (Engine S): TWO proxy instances in one process - as the binary has a proxy and an API server,
// each with its own log-http mode. Instance A dumps headers (mode headers / body, or errors with a failing
// exchange) for an exchange that carries injected site credentials; afterwards instance B, whose mode never
// shows headers, serves a successful exchange. Whatever B's request log prints for it must not contain the
// password: what one logger has seen must not come out of another.
func requestLogLines(x *explore.X) {
	secret := secrets[x.ChooseFree("secret", len(secrets))]
	modeA := []string{"errors", "headers", "body"}[x.ChooseFree("log-http-of-the-other-instance", 3)]
	modeB := []string{"short-url", "url", "none", "errors"}[x.ChooseFree("log-http", 4)]
	nA := 1 + x.ChooseFree("exchanges-on-the-other-instance-1", 2)
	if strings.ContainsAny(secret, "@ ") {
		x.Outcome("inadmissible") // cannot be written as a --credentials entry
		return
	}
	netw := simnet.New()
	creds := []string{"siteuser:" + secret + "@site.test:80"}
	wA, err := world.Start(world.Options{Net: netw, Addr: "proxy-a.test:3128", LogHTTP: modeA, Credentials: creds, NoProm: true})
	if err != nil {
		x.Failf("harness/start", "%v", err)
		return
	}
	wB, err := world.Start(world.Options{Net: netw, Addr: "proxy-b.test:3128", LogHTTP: modeB, Credentials: creds, NoProm: true})
	if err != nil {
		x.Failf("harness/start", "%v", err)
		return
	}
	site, _ := wA.Hop("site.test:80", nil)
	token := base64.StdEncoding.EncodeToString([]byte("siteuser:" + secret))
	one := func(w *world.World, path, reply string) bool {
		cl, _ := w.Client()
		cl.Send([]byte("GET http://site.test" + path + " HTTP/1.1\r\nHost: site.test\r\n\r\n"))
		msgs, conns, _ := site.Next()
		if len(msgs) != 1 || !strings.Contains(string(msgs[0].Raw), token) {
			x.Failf("harness/secret-not-used", "the site did not receive the injected credentials: %d requests; client got %q", len(msgs), world.Clip(cl.Recv()))
			return false
		}
		site.Conns[conns[0]].Send([]byte(reply))
		world.Settle(time.Second)
		cl.Close()
		world.Settle(time.Second)
		return true
	}
	for i := 0; i < nA; i++ {
		if !one(wA, "/on-a", "HTTP/1.1 503 Service Unavailable\r\nContent-Length: 0\r\n\r\n") {
			return
		}
	}
	before := len(wB.Log.Lines())
	if !one(wB, "/on-b?token=visible", "HTTP/1.1 200 OK\r\nContent-Length: 2\r\n\r\nok") {
		return
	}
	x.Check()
	needles := []string{secret, url.QueryEscape(secret), url.PathEscape(secret), base64.StdEncoding.EncodeToString([]byte(secret)), token}
	what := fmt.Sprintf("instance A log-http=%s served %d exchange(s) answered 503, then instance B log-http=%s served a successful exchange", modeA, nA, modeB)
	dump := 0
	for _, l := range wB.Log.Lines()[before:] {
		if strings.Contains(l, "HTTP dump") {
			dump++
		}
		for _, n := range needles {
			if n != "" && strings.Contains(l, n) {
				x.Failf("secret-disclosed/request-log/credentials", "%s: B's log line contains the secret (%q): %s", what, n, world.Clip([]byte(l)))
				return
			}
		}
	}
	x.Outcome(fmt.Sprintf("%s/%s/dump=%d", modeA, modeB, dump))
	wA.Stop()
	wB.Stop()
	site.Close()
	if l := world.Leaks(); l != "" {
		x.Failf("goroutine-leak", "%s", l)
	}
}
