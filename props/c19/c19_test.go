// C19: configured secrets never appear in diagnostics.
// Engine B: the real cmd/forwarder binary (built from the working tree, no hooks) is run as a
// subprocess for every element of the bounded product secret x carrier x form (flag / environment /
// config file) x log level x log-http mode; the harness talks to it over loopback (successful
// exchanges through an upstream proxy, CONNECT, site-credential injection; then a 407 and an upstream
// failure), fetches /configz, stops it, and scans everything it emitted.
package c19

import (
	"bufio"
	"bytes"
	"crypto/ecdsa"
	"crypto/elliptic"
	"crypto/rand"
	"crypto/tls"
	"crypto/x509"
	"crypto/x509/pkix"
	"encoding/base64"
	"encoding/pem"
	"fmt"
	"github.com/saucelabs/forwarder/internal/zzverif/world"
	"io"
	"math/big"
	"net"
	"net/url"
	"os"
	"os/exec"
	"path/filepath"
	"strings"
	"sync"
	"syscall"
	"testing"
	"time"

	"github.com/saucelabs/forwarder/internal/zzverif/explore"
)

var secrets = []string{"s3cr3tZq9", "Zq9:w7", "Zq9@w7", "Zq9%41w7", "Zq9ä/w7", "Zq9 w7"}
var carriers = []string{"basic-auth", "api-basic-auth", "proxy", "credentials", "tls-key-file", "mitm-cakey-file"}
var forms = []string{"flag", "env", "config-file"}
var levels = []string{"info", "error", "debug"}
// (round 9) the last two name a covered mode for each module (proxy, api) next to an unnamed default of "headers", which
// then applies to no module: a named entry wins for its module whatever the order of the entries
var modes = []string{"errors", "none", "short-url", "url", "proxy:url,api:errors,headers", "headers,proxy:short-url,api:none"}

type pemPair struct{ cert, key []byte }

var (
	pkiOnce sync.Once
	srvPair pemPair
	caPair  pemPair
)

func genPair(isCA bool) pemPair {
	key, _ := ecdsa.GenerateKey(elliptic.P256(), rand.Reader)
	tmpl := &x509.Certificate{SerialNumber: big.NewInt(time.Now().UnixNano()), Subject: pkix.Name{CommonName: "c19"}, NotBefore: time.Now().Add(-time.Hour), NotAfter: time.Now().Add(24 * time.Hour),
		KeyUsage: x509.KeyUsageDigitalSignature | x509.KeyUsageCertSign, ExtKeyUsage: []x509.ExtKeyUsage{x509.ExtKeyUsageServerAuth}, BasicConstraintsValid: true, IsCA: isCA,
		DNSNames: []string{"localhost"}, IPAddresses: []net.IP{net.ParseIP("127.0.0.1")}}
	der, _ := x509.CreateCertificate(rand.Reader, tmpl, tmpl, key.Public(), key)
	kb, _ := x509.MarshalPKCS8PrivateKey(key)
	return pemPair{pem.EncodeToMemory(&pem.Block{Type: "CERTIFICATE", Bytes: der}), pem.EncodeToMemory(&pem.Block{Type: "PRIVATE KEY", Bytes: kb})}
}

// dataURI writes inline data with the given spelling of the data: scheme (URI schemes are case-insensitive; a
// binary that takes another spelling as inline data must redact it just the same, one that takes it for a
// file name refuses to start and nothing is demanded). The spelling is a per-execution value: executions of
// this check run concurrently in one process.
func dataURI(scheme string, b []byte) string { return scheme + base64.StdEncoding.EncodeToString(b) }

// listener helpers (real loopback sockets)
type tcpServer struct {
	l     net.Listener
	mu    sync.Mutex
	seen  [][]byte
	serve func(c net.Conn, rec func([]byte))
}

func newServer(serve func(c net.Conn, rec func([]byte))) (*tcpServer, error) {
	l, err := net.Listen("tcp", "127.0.0.1:0")
	if err != nil {
		return nil, err
	}
	s := &tcpServer{l: l, serve: serve}
	go func() {
		for {
			c, err := l.Accept()
			if err != nil {
				return
			}
			go func() {
				defer c.Close()
				s.serve(c, func(b []byte) {
					s.mu.Lock()
					s.seen = append(s.seen, append([]byte(nil), b...))
					s.mu.Unlock()
				})
			}()
		}
	}()
	return s, nil
}

func (s *tcpServer) port() string { _, p, _ := net.SplitHostPort(s.l.Addr().String()); return p }
func (s *tcpServer) all() []byte {
	s.mu.Lock()
	defer s.mu.Unlock()
	return bytes.Join(s.seen, []byte("\n"))
}

func readHead(c net.Conn) ([]byte, error) {
	c.SetReadDeadline(time.Now().Add(5 * time.Second))
	br := bufio.NewReader(c)
	var head []byte
	for {
		line, err := br.ReadBytes('\n')
		head = append(head, line...)
		if err != nil {
			return head, err
		}
		if len(line) <= 2 {
			return head, nil
		}
	}
}

func freePort() string {
	l, err := net.Listen("tcp", "127.0.0.1:0")
	if err != nil {
		return "0"
	}
	defer l.Close()
	_, p, _ := net.SplitHostPort(l.Addr().String())
	return p
}

func exchange(addr string, useTLS bool, req string, wait time.Duration) string {
	c, err := net.DialTimeout("tcp", addr, 3*time.Second)
	if err != nil {
		return "DIAL-ERROR " + err.Error()
	}
	defer c.Close()
	if useTLS {
		tc := tls.Client(c, &tls.Config{InsecureSkipVerify: true})
		if err := tc.Handshake(); err != nil {
			return "TLS-ERROR " + err.Error()
		}
		c = tc
	}
	c.Write([]byte(req))
	c.SetReadDeadline(time.Now().Add(wait))
	b, _ := io.ReadAll(io.LimitReader(c, 1<<16))
	return string(b)
}

func scenario(x *explore.X, bin string) {
	pkiOnce.Do(func() { srvPair, caPair = genPair(false), genPair(true) })
	carrier := carriers[x.Choose("carrier", len(carriers))]
	secret := secrets[x.Choose("secret", len(secrets))]
	form := forms[x.Choose("form", len(forms))]
	level := levels[x.Choose("log-level", len(levels))]
	mode := modes[x.Choose("log-http", len(modes))]
	dataScheme := "data:"
	if carrier == "tls-key-file" || carrier == "mitm-cakey-file" {
		dataScheme = []string{"data:", "Data:", "DATA:"}[x.Choose("data-scheme-spelling", 3)]
	}
	if carrier == "proxy" && strings.Contains(secret, "@") {
		x.Outcome("inadmissible") // the --proxy syntax admits only one '@'
		return
	}
	// scripted upstream proxy and origin on loopback
	origin, err := newServer(func(c net.Conn, rec func([]byte)) {
		h, _ := readHead(c)
		rec(h)
		c.Write([]byte("HTTP/1.1 200 OK\r\nContent-Length: 2\r\nConnection: close\r\n\r\nok"))
	})
	if err != nil {
		x.Failf("harness/listen", "%v", err)
		return
	}
	defer origin.l.Close()
	upstream, _ := newServer(func(c net.Conn, rec func([]byte)) {
		h, _ := readHead(c)
		rec(h)
		if bytes.HasPrefix(h, []byte("CONNECT")) {
			c.Write([]byte("HTTP/1.1 200 OK\r\n\r\n"))
			c.SetReadDeadline(time.Now().Add(2 * time.Second))
			b := make([]byte, 64)
			n, _ := c.Read(b)
			rec(b[:n])
			c.Write([]byte("tunnel-ok"))
			return
		}
		c.Write([]byte("HTTP/1.1 200 OK\r\nContent-Length: 2\r\nConnection: close\r\n\r\nup"))
	})
	defer upstream.l.Close()

	proxyPort, apiPort := freePort(), freePort()
	opts := map[string]string{"address": "127.0.0.1:" + proxyPort, "api-address": "127.0.0.1:" + apiPort, "log-level": level, "log-http": mode, "proxy-localhost": "allow"}
	var needles []string
	add := func(user, pass string) {
		needles = append(needles, pass, url.QueryEscape(pass), url.PathEscape(pass), base64.StdEncoding.EncodeToString([]byte(pass)), base64.StdEncoding.EncodeToString([]byte(user+":"+pass)))
	}
	wantVisible := []string{} // non-secret parts that must stay visible in the start-up log (info/debug)
	useTLS := false
	proxyAuth := ""
	switch carrier {
	case "basic-auth":
		opts["basic-auth"] = "user1:" + secret
		add("user1", secret)
		wantVisible = append(wantVisible, "basic-auth=user1:xxxxx")
		proxyAuth = "Proxy-Authorization: Basic " + base64.StdEncoding.EncodeToString([]byte("user1:"+secret)) + "\r\n"
	case "api-basic-auth":
		opts["api-basic-auth"] = "apiuser:" + secret
		add("apiuser", secret)
		wantVisible = append(wantVisible, "api-basic-auth=apiuser:xxxxx")
	case "proxy":
		opts["proxy"] = "http://pxuser:" + secret + "@127.0.0.1:" + upstream.port()
		add("pxuser", secret)
		wantVisible = append(wantVisible, "pxuser:xxxxx@127.0.0.1:"+upstream.port())
	case "credentials":
		opts["credentials"] = "siteuser:" + secret + "@127.0.0.1:" + origin.port()
		add("siteuser", secret)
		wantVisible = append(wantVisible, "siteuser:xxxxx@127.0.0.1:"+origin.port())
	case "tls-key-file":
		opts["protocol"] = "https"
		opts["tls-cert-file"] = dataURI(dataScheme, srvPair.cert)
		opts["tls-key-file"] = dataURI(dataScheme, srvPair.key)
		b64 := base64.StdEncoding.EncodeToString(srvPair.key)
		needles = append(needles, b64, b64[20:60], strings.Split(string(srvPair.key), "\n")[1])
		if dataScheme == "data:" {
			wantVisible = append(wantVisible, "tls-key-file=data:xxxxx")
		}
		useTLS = true
	case "mitm-cakey-file":
		opts["mitm-cacert-file"] = dataURI(dataScheme, caPair.cert)
		opts["mitm-cakey-file"] = dataURI(dataScheme, caPair.key)
		b64 := base64.StdEncoding.EncodeToString(caPair.key)
		needles = append(needles, b64, b64[20:60], strings.Split(string(caPair.key), "\n")[1])
		if dataScheme == "data:" {
			wantVisible = append(wantVisible, "mitm-cakey-file=data:xxxxx")
		}
	}
	if carrier != "proxy" {
		opts["proxy"] = "http://127.0.0.1:" + upstream.port()
	}
	if carrier == "credentials" || carrier == "mitm-cakey-file" {
		delete(opts, "proxy") // site credentials are observed at the origin directly
	}
	// launch
	dir, _ := os.MkdirTemp("", "c19-")
	defer os.RemoveAll(dir)
	args := []string{"run"}
	env := append(os.Environ(), "NO_COLOR=1")
	switch form {
	case "flag":
		for k, v := range opts {
			args = append(args, "--"+k+"="+v)
		}
	case "env":
		for k, v := range opts {
			env = append(env, "FORWARDER_"+strings.ToUpper(strings.ReplaceAll(k, "-", "_"))+"="+v)
		}
	case "config-file":
		var sb strings.Builder
		for k, v := range opts {
			fmt.Fprintf(&sb, "%s: %q\n", k, v)
		}
		cf := filepath.Join(dir, "forwarder.yaml")
		os.WriteFile(cf, []byte(sb.String()), 0o600)
		args = append(args, "--config-file", cf)
	}
	cmd := exec.Command(bin, args...)
	cmd.Env = env
	var out lockedBuf
	cmd.Stdout, cmd.Stderr = &out, &out
	if err := cmd.Start(); err != nil {
		x.Failf("harness/start", "%v", err)
		return
	}
	exited := make(chan error, 1)
	go func() { exited <- cmd.Wait() }()
	stop := func() {
		cmd.Process.Signal(syscall.SIGTERM)
		select {
		case <-exited:
		case <-time.After(8 * time.Second):
			cmd.Process.Kill()
			<-exited
		}
	}
	// readiness (liveness guard only)
	ready := false
	for i := 0; i < 2400 && !ready; i++ { // up to a minute on an overloaded machine; a healthy start takes 100-300 ms
		select {
		case err := <-exited:
			exited <- err
			i = 1 << 30
		default:
		}
		if c, err := net.DialTimeout("tcp", "127.0.0.1:"+proxyPort, 100*time.Millisecond); err == nil {
			c.Close()
			if c2, err := net.DialTimeout("tcp", "127.0.0.1:"+apiPort, 100*time.Millisecond); err == nil {
				c2.Close()
				ready = true
			}
		}
		if !ready {
			time.Sleep(25 * time.Millisecond)
		}
	}
	what := fmt.Sprintf("carrier=%s secret=%q form=%s log-level=%s log-http=%s", carrier, secret, form, level, mode)
	if dataScheme != "data:" {
		what += " scheme-spelling=" + dataScheme
	}
	x.Logf("%s", what)
	if !ready && dataScheme != "data:" {
		stop()
		x.Outcome("refused-at-start-up/" + dataScheme) // taken for a file name: not inline key material for this binary
		return
	}
	if !ready {
		stop()
		x.Failf("harness/not-ready", "%s: the binary did not come up: %s", what, out.String())
		return
	}
	paddr := "127.0.0.1:" + proxyPort
	oaddr := "127.0.0.1:" + origin.port()
	var clientVisible []string
	// ---- successful exchanges ----
	r1 := exchange(paddr, useTLS, "GET http://"+oaddr+"/ok?token=visible HTTP/1.1\r\nHost: "+oaddr+"\r\n"+proxyAuth+"Connection: close\r\n\r\n", 15*time.Second)
	if !strings.HasPrefix(r1, "HTTP/1.1 200") {
		x.Failf("harness/exchange", "%s: plain GET did not succeed: %q\n%s", what, r1, out.String())
	}
	if carrier != "mitm-cakey-file" {
		r2 := exchange(paddr, useTLS, "CONNECT "+oaddr+" HTTP/1.1\r\nHost: "+oaddr+"\r\n"+proxyAuth+"\r\nGET / HTTP/1.1\r\nHost: x\r\nConnection: close\r\n\r\n", 1500*time.Millisecond)
		if !strings.HasPrefix(r2, "HTTP/1.1 200") {
			x.Failf("harness/exchange", "%s: CONNECT did not succeed: %q", what, r2)
		}
	}
	time.Sleep(50 * time.Millisecond)
	logsAfterSuccess := out.String()
	// ---- /configz ----
	apiAuth := ""
	if carrier == "api-basic-auth" {
		apiAuth = "Authorization: Basic " + base64.StdEncoding.EncodeToString([]byte("apiuser:"+secret)) + "\r\n"
	}
	configz := exchange("127.0.0.1:"+apiPort, false, "GET /configz HTTP/1.1\r\nHost: api\r\n"+apiAuth+"Connection: close\r\n\r\n", 15*time.Second)
	if !strings.HasPrefix(configz, "HTTP/1.1 200") {
		x.Failf("harness/configz", "%s: /configz answered %q", what, configz)
	}
	// ---- failing exchanges: only what the client sees is in scope (and the logs unless log-http=errors) ----
	if carrier == "basic-auth" {
		r := exchange(paddr, useTLS, "GET http://"+oaddr+"/ HTTP/1.1\r\nHost: "+oaddr+"\r\nProxy-Authorization: Basic "+base64.StdEncoding.EncodeToString([]byte("user1:wrong"))+"\r\nConnection: close\r\n\r\n", 15*time.Second)
		if !strings.HasPrefix(r, "HTTP/1.1 407") {
			x.Failf("harness/exchange", "%s: wrong credentials answered %q", what, r)
		}
		clientVisible = append(clientVisible, r)
	}
	upstream.l.Close() // from now on the upstream proxy refuses connections
	rf := exchange(paddr, useTLS, "GET http://127.0.0.1:1/unreachable HTTP/1.1\r\nHost: 127.0.0.1:1\r\n"+proxyAuth+"Connection: close\r\n\r\n", 6*time.Second)
	clientVisible = append(clientVisible, rf)
	stop()
	finalLogs := out.String()

	// ---- scan -------------------------------------------------------------------------------------
	x.Check()
	scan := func(where, text string) {
		for _, n := range needles {
			if n != "" && strings.Contains(text, n) {
				i := strings.Index(text, n)
				lo, hi := max(0, i-100), min(len(text), i+len(n)+60)
				x.Failf("secret-disclosed/"+where+"/"+carrier, "%s: %s contains the secret (%q): …%s…", what, where, n, text[lo:hi])
				return
			}
		}
	}
	scan("log-after-successful-exchanges", logsAfterSuccess)
	if mode != "errors" {
		scan("log-at-exit", finalLogs)
	}
	scan("configz", configz)
	for _, cv := range clientVisible {
		scan("error-response", cv)
	}
	// what the upstream / origin saw proves the secret was really in use
	switch carrier {
	case "proxy":
		if !bytes.Contains(upstream.all(), []byte(base64.StdEncoding.EncodeToString([]byte("pxuser:"+secret)))) {
			x.Failf("harness/secret-not-used", "%s: the upstream proxy never saw the credentials", what)
		}
	case "credentials":
		if !bytes.Contains(origin.all(), []byte(base64.StdEncoding.EncodeToString([]byte("siteuser:"+secret)))) {
			x.Failf("harness/secret-not-used", "%s: the origin never saw the site credentials: %q", what, origin.all())
		}
	}
	if level != "error" {
		for _, v := range wantVisible {
			if !strings.Contains(finalLogs, v) {
				x.Failf("placeholder-missing", "%s: the start-up log does not show %q (non-secret parts and the placeholder must stay visible)", what, v)
			}
		}
	}
	if !strings.Contains(configz, "xxxxx") {
		x.Failf("placeholder-missing/configz", "%s: /configz shows no placeholder: %q", what, configz)
	}
	x.Outcome(fmt.Sprintf("%s/%s/%s", carrier, form, level))
}

// otherCommandsKey (Engine B): the other commands of the binary that serve TLS with an inline key (forwarder pac
// server, forwarder test httpbin --protocol https --tls-key-file data:...): their start-up log at every level.
func otherCommandsKey(x *explore.X, bin string) {
	pkiOnce.Do(func() { srvPair, caPair = genPair(false), genPair(true) })
	command := []string{"pac server", "test httpbin"}[x.ChooseFree("command", 2)]
	level := levels[x.ChooseFree("log-level", len(levels))]
	form := []string{"flag", "env"}[x.ChooseFree("form", 2)]
	dir, _ := os.MkdirTemp("", "c19o-")
	defer os.RemoveAll(dir)
	port := freePort()
	opts := map[string]string{"address": "127.0.0.1:" + port, "protocol": "https", "log-level": level,
		"tls-cert-file": dataURI("data:", srvPair.cert), "tls-key-file": dataURI("data:", srvPair.key)}
	args := strings.Fields(command)
	if command == "pac server" {
		pf := filepath.Join(dir, "p.pac")
		os.WriteFile(pf, []byte(`function FindProxyForURL(url, host) { return "DIRECT"; }`), 0o600)
		opts["pac"] = pf
	}
	env := append(os.Environ(), "NO_COLOR=1")
	for k, v := range opts {
		if form == "flag" {
			args = append(args, "--"+k+"="+v)
		} else {
			env = append(env, "FORWARDER_"+strings.ToUpper(strings.ReplaceAll(k, "-", "_"))+"="+v)
		}
	}
	cmd := exec.Command(bin, args...)
	cmd.Env = env
	var out lockedBuf
	cmd.Stdout, cmd.Stderr = &out, &out
	if err := cmd.Start(); err != nil {
		x.Failf("harness/start", "%v", err)
		return
	}
	exited := make(chan error, 1)
	go func() { exited <- cmd.Wait() }()
	ready := false
	for i := 0; i < 2400 && !ready; i++ {
		select {
		case err := <-exited:
			exited <- err
			i = 1 << 30
		default:
		}
		if c, err := net.DialTimeout("tcp", "127.0.0.1:"+port, 100*time.Millisecond); err == nil {
			c.Close()
			ready = true
		} else {
			time.Sleep(25 * time.Millisecond)
		}
	}
	cmd.Process.Signal(syscall.SIGTERM)
	select {
	case <-exited:
	case <-time.After(8 * time.Second):
		cmd.Process.Kill()
		<-exited
	}
	what := fmt.Sprintf("forwarder %s, form=%s log-level=%s", command, form, level)
	x.Logf("%s ready=%v", what, ready)
	if !ready {
		x.Failf("harness/not-ready", "%s: the command did not come up: %s", what, out.String())
		return
	}
	x.Check()
	text := out.String()
	b64 := base64.StdEncoding.EncodeToString(srvPair.key)
	for _, n := range []string{b64, b64[20:60], strings.Split(string(srvPair.key), "\n")[1]} {
		if strings.Contains(text, n) {
			i := strings.Index(text, n)
			lo, hi := max(0, i-160), min(len(text), i+60)
			x.Failf("secret-disclosed/start-up-log/"+strings.ReplaceAll(command, " ", "-"), "%s: the start-up log contains the inline private key: …%s…", what, text[lo:hi])
			return
		}
	}
	x.Outcome(command + "/" + level)
}

// refusedAtStartUp (Engine B): configurations in which every secret-bearing value is well-formed but the
// configuration as a whole is refused (two --credentials entries for the same key; a valid secret next to another
// option that is invalid): what the binary prints before it exits - the start-up log up to and including the
// fatal error line - is a start-up log too.
func refusedAtStartUp(x *explore.X, bin string) {
	secret := secrets[x.ChooseFree("secret", len(secrets))]
	kind := []string{"duplicate-exact-entry", "duplicate-wildcard-port-entry", "duplicate-star-star-entry", "another-option-invalid"}[x.ChooseFree("refusal", 4)]
	form := []string{"flag", "env"}[x.ChooseFree("form", 2)]
	level := levels[x.ChooseFree("log-level", len(levels))]
	if strings.ContainsAny(secret, "@ ,") {
		x.Outcome("inadmissible") // cannot be written inside a comma-separated --credentials value
		return
	}
	opts := map[string]string{"address": "127.0.0.1:" + freePort(), "log-level": level}
	switch kind {
	case "duplicate-exact-entry":
		opts["credentials"] = "first:first-" + secret + "@site.test:80,second:" + secret + "@site.test:80"
	case "duplicate-wildcard-port-entry":
		opts["credentials"] = "first:first-" + secret + "@site.test:*,second:" + secret + "@site.test:*"
	case "duplicate-star-star-entry":
		opts["credentials"] = "first:first-" + secret + "@*:*,second:" + secret + "@*:*"
	case "another-option-invalid":
		opts["credentials"] = "second:" + secret + "@site.test:80"
		opts["basic-auth"] = "user1:" + secret
		opts["deny-domains"] = "(unclosed"
	}
	args := []string{"run"}
	env := append(os.Environ(), "NO_COLOR=1")
	for k, v := range opts {
		if form == "flag" {
			args = append(args, "--"+k+"="+v)
		} else {
			env = append(env, "FORWARDER_"+strings.ToUpper(strings.ReplaceAll(k, "-", "_"))+"="+v)
		}
	}
	cmd := exec.Command(bin, args...)
	cmd.Env = env
	var out lockedBuf
	cmd.Stdout, cmd.Stderr = &out, &out
	if err := cmd.Start(); err != nil {
		x.Failf("harness/start", "%v", err)
		return
	}
	exited := make(chan error, 1)
	go func() { exited <- cmd.Wait() }()
	var werr error
	select {
	case werr = <-exited:
	case <-time.After(60 * time.Second):
		cmd.Process.Kill()
		<-exited
		x.Failf("harness/not-refused", "refusal=%s form=%s: the binary kept running with a configuration that must be refused: %s", kind, form, out.String())
		return
	}
	what := fmt.Sprintf("refusal=%s secret=%q form=%s log-level=%s", kind, secret, form, level)
	x.Logf("%s: exit %v", what, werr)
	x.Check()
	if werr == nil {
		x.Failf("harness/not-refused", "%s: the binary exited with status 0: %s", what, out.String())
		return
	}
	text := out.String()
	for _, n := range []string{secret, url.QueryEscape(secret), url.PathEscape(secret), base64.StdEncoding.EncodeToString([]byte(secret)), base64.StdEncoding.EncodeToString([]byte("second:" + secret))} {
		if n != "" && strings.Contains(text, n) {
			i := strings.Index(text, n)
			lo, hi := max(0, i-160), min(len(text), i+len(n)+60)
			x.Failf("secret-disclosed/refused-at-start-up/"+kind, "%s: the output of the refused start contains the secret (%q): …%s…", what, n, text[lo:hi])
			return
		}
	}
	x.Outcome(kind + "/" + form)
}

type lockedBuf struct {
	mu sync.Mutex
	b  bytes.Buffer
}

func (l *lockedBuf) Write(p []byte) (int, error) {
	l.mu.Lock()
	defer l.mu.Unlock()
	return l.b.Write(p)
}
func (l *lockedBuf) String() string {
	l.mu.Lock()
	defer l.mu.Unlock()
	return l.b.String()
}

func TestC19(t *testing.T) {
	bin := os.Getenv("VERIF_FORWARDER_BIN")
	if bin == "" {
		t.Fatal("VERIF_FORWARDER_BIN not set (the check driver builds cmd/forwarder from the working tree)")
	}
	s := explore.NewSuite(t, "C19", "exploration",
		"the real forwarder binary (built from the working tree without hooks) is started for every combination of carrier(6: --basic-auth, --api-basic-auth, --proxy userinfo, --credentials, data: URI of --tls-key-file, data: URI of --mitm-cakey-file, the scheme spelt data: / Data: / DATA: - a spelling the binary takes for a file name makes it refuse to start and demands nothing) x secret(6 passwords incl. ':', '@', '%41', non-ASCII with '/', space) x form(flag, FORWARDER_* environment, YAML config file) x log level(3) x log-http mode(errors, none, short-url, url) with at most D deviations (D=2 quick) or as the full product (thorough, inadmissible combinations skipped); successful exchanges (GET through the upstream proxy or with injected site credentials, CONNECT), /configz, then a 407 and an upstream failure; stdout+stderr after the successful exchanges and at exit (not for log-http=errors), the /configz body and the error responses are searched for the secret literally, URL-escaped and base64-encoded (alone and as user:secret); the redaction placeholder and the user names must be present; plus (error-responses, in-process proxy on the virtual clock) password(7, incl. one of 300 octets) x {--proxy userinfo, --credentials entry for the proxy} x {http upstream, socks5 upstream, PAC result SOCKS4 / SOCKS (unsupported) with a table entry for that proxy} x {GET, CONNECT through the upstream proxy} x 7 upstream faults (refused, black-holed, 403/no acceptable method, 407/credentials rejected, never answers [one virtual minute], closes, garbage) [full product]: the response sent to the client is searched in the same way; plus (other-commands-with-an-inline-key) forwarder pac server / forwarder test httpbin with --protocol https and an inline --tls-key-file x {flag, environment} x log level: start-up log searched for the key; plus (refused-at-start-up) the binary started with a configuration that is refused as a whole - two --credentials entries for the same key (exact, host:*, *:*) or a well-formed secret next to an invalid other option - x password x {flag, environment} x log level [full product]: everything it prints before it exits is searched; plus (request-log-lines, in-process) two proxy instances in one process with their own log-http modes - A in {errors, headers, body} serving 1-2 exchanges answered 503 with injected site credentials, then B in {short-url, url, none, errors} serving a successful one - x password(6) [full product]: B's request log lines are searched; non-trivial = the binary served the exchanges and was scanned; (round 9) log-http values that name a covered mode per module next to an unnamed default of headers (proxy:url,api:errors,headers / headers,proxy:short-url,api:none)")
	s.Assume = []string{"real time is used only as a liveness guard for the subprocess (no timing oracle)", "loopback TCP is available in the sandbox", "CLI usage errors that echo an inadmissible argument are outside the statement"}
	s.Add(explore.Scenario{Name: "bounded", Tiers: []string{"quick"}, MaxDev: map[string]int{"quick": 2}, Run: func(x *explore.X) { scenario(x, bin) }})
	s.Add(explore.Scenario{Name: "product", Tiers: []string{"thorough"}, Run: func(x *explore.X) { scenario(x, bin) }})
	s.Add(explore.Scenario{Name: "other-commands-with-an-inline-key", Run: func(x *explore.X) { otherCommandsKey(x, bin) }})
	s.Add(explore.Scenario{Name: "refused-at-start-up", Run: func(x *explore.X) { refusedAtStartUp(x, bin) }})
	s.Add(explore.Scenario{Name: "error-responses", Remote: true, Run: func(x *explore.X) { world.Run(t, x, func() { errorResponses(x) }) }})
	s.Add(explore.Scenario{Name: "request-log-lines", Remote: true, Run: func(x *explore.X) { world.Run(t, x, func() { requestLogLines(x) }) }})
	s.Main()
}
