// C12: upstream faults and hostile input yield a clean error or close, never a crash.
// Engine S, fault enumeration: the upstream exchange is cut at EVERY byte offset of the reply (FIN
// and RST), every dial/TLS/CONNECT-reply fault is injected for every request kind, and every
// single-position mutation / truncation of a valid client request is sent; after each fault a probe
// request on a fresh connection must still be served. The client's byte stream is classified by the
// independent parser.
package c12

import (
	"bytes"
	"crypto/tls"
	"crypto/x509"
	"fmt"
	"github.com/saucelabs/forwarder"
	"io"
	"net"
	"strings"
	"testing"
	"time"

	"github.com/saucelabs/forwarder/internal/zzverif/explore"
	"github.com/saucelabs/forwarder/internal/zzverif/h1x"
	"github.com/saucelabs/forwarder/internal/zzverif/httpwire"
	"github.com/saucelabs/forwarder/internal/zzverif/simnet"
	"github.com/saucelabs/forwarder/internal/zzverif/world"
)

const originHost = "origin.test"

var kinds = []string{"GET", "POST", "HEAD", "GET-via-upstream", "GET-inside-MITM", "CONNECT", "CONNECT-via-upstream", "MITM-GET-via-upstream"}

type env struct {
	w       *world.World
	pki     *world.PKI
	kind    string
	raw     *world.Peer
	cl      world.Stream
	methods []string
	hopAddr string
	hopTLS  bool
	viaUp   bool
	connect bool
	mitm    bool
}

// setup starts the proxy for the kind and sends the request; it returns nil after reporting a failure.
func setup(x *explore.X, kind string, plan map[string]simnet.DialPlan, tweak func(*world.Options)) *env {
	e := &env{kind: kind, pki: world.NewPKI("harness CA")}
	opts := world.Options{TransportCAPEM: e.pki.CAPEM}
	e.viaUp = strings.Contains(kind, "via-upstream")
	e.mitm = strings.Contains(kind, "MITM")
	e.connect = strings.HasPrefix(kind, "CONNECT")
	if e.viaUp {
		opts.Upstream = "http://up.test:8080"
	}
	if e.mitm {
		opts.MITM = true
	}
	if strings.Contains(kind, "handler-mode") {
		opts.HTTPHandler = true // the http.Handler variant of the proxy (NewHTTPProxyHandler / TestingHTTPHandler)
	}
	if i := strings.Index(kind, "log-http-"); i >= 0 {
		opts.LogHTTP = kind[i+len("log-http-"):] // a response modifier that may read the whole body before it is written
	}
	if tweak != nil {
		tweak(&opts)
	}
	w, err := world.Start(opts)
	if err != nil {
		x.Failf("harness/start", "%v", err)
		return nil
	}
	e.w = w
	for a, p := range plan {
		w.Net.Plan[a] = p
	}
	switch {
	case e.viaUp:
		e.hopAddr = "up.test:8080"
	case e.mitm || e.connect:
		e.hopAddr, e.hopTLS = originHost+":443", e.mitm
	default:
		e.hopAddr = originHost + ":80"
	}
	e.raw, _ = w.Client()
	e.cl = e.raw
	return e
}

func (e *env) sendRequest(x *explore.X) bool {
	switch {
	case e.mitm:
		e.raw.Send([]byte("CONNECT " + originHost + ":443 HTTP/1.1\r\nHost: " + originHost + ":443\r\n\r\n"))
		if got := string(e.raw.Recv()); got != "HTTP/1.1 200 OK\r\n\r\n" {
			x.Failf("mitm/connect-reply", "CONNECT answered with %q", got)
			return false
		}
		pool := x509.NewCertPool()
		pool.AddCert(e.w.Proxy.MITMCACert())
		tc := world.TLSClient(e.raw, &tls.Config{RootCAs: pool, ServerName: originHost})
		if done, err := tc.Handshake(); !done || err != nil {
			x.Failf("mitm/handshake", "done=%v err=%v", done, err)
			return false
		}
		e.cl = tc
		e.cl.Send([]byte("GET /x HTTP/1.1\r\nHost: " + originHost + "\r\n\r\n"))
		e.methods = []string{"GET"}
	case e.connect:
		e.cl.Send([]byte("CONNECT " + originHost + ":443 HTTP/1.1\r\nHost: " + originHost + ":443\r\n\r\n"))
		e.methods = []string{"CONNECT"}
	case strings.HasPrefix(e.kind, "POST"):
		e.cl.Send([]byte("POST http://" + originHost + "/x HTTP/1.1\r\nHost: " + originHost + "\r\nContent-Length: 5\r\n\r\nhello"))
		e.methods = []string{"POST"}
	case strings.HasPrefix(e.kind, "HEAD"):
		e.cl.Send([]byte("HEAD http://" + originHost + "/x HTTP/1.1\r\nHost: " + originHost + "\r\n\r\n"))
		e.methods = []string{"HEAD"}
	default:
		e.cl.Send([]byte("GET http://" + originHost + "/x HTTP/1.1\r\nHost: " + originHost + "\r\n\r\n"))
		e.methods = []string{"GET"}
	}
	return true
}

func (e *env) clientEOF() bool {
	if tc, ok := e.cl.(*world.TLSPeer); ok {
		return tc.ReadErr() != nil || e.raw.C.Status().EOF
	}
	return e.raw.EOF()
}

// expectCleanError: exactly one complete, well-formed error response carrying X-Forwarder-Error.
func (e *env) expectCleanError(x *explore.X, what string, wantStatus int, sigExtra string) {
	x.Check()
	rs := httpwire.ParseResponses(e.cl.Recv(), e.methods, e.clientEOF())
	if rs.State == "syntax" {
		x.Failf("error-response-malformed"+sigExtra, "%s: client stream does not parse: %s\n  stream: %q", what, rs.Err, world.Clip(e.cl.Recv()))
		return
	}
	if len(rs.Msgs) != 1 || len(rs.Rest) != 0 {
		x.Failf("error-response-missing"+sigExtra, "%s: client holds %d complete responses + %d bytes (state %q), want exactly one error response\n  stream: %q", what, len(rs.Msgs), len(rs.Rest), rs.State, world.Clip(e.cl.Recv()))
		return
	}
	m := rs.Msgs[0]
	if wantStatus != 0 && m.Status != wantStatus {
		x.Failf("error-status"+sigExtra, "%s: status %d, want %d\n  head: %q", what, m.Status, wantStatus, world.Clip(m.Raw[:m.HeadLen]))
	}
	if wantStatus == 0 && m.Status/100 != 5 {
		x.Failf("error-status"+sigExtra, "%s: status %d, want 5xx\n  head: %q", what, m.Status, world.Clip(m.Raw[:m.HeadLen]))
	}
	if !m.Has("X-Forwarder-Error") {
		x.Failf("error-without-x-forwarder-error"+sigExtra, "%s: error response lacks X-Forwarder-Error\n  head: %q", what, world.Clip(m.Raw[:m.HeadLen]))
	}
	if m.Proto != "HTTP/1.1" && m.Proto != "HTTP/1.0" {
		x.Failf("error-status-line-version"+sigExtra, "%s: status line %q", what, m.StartLine)
	}
}

// probe: a fresh client must be served (other connections are not affected, the process is alive).
func probe(x *explore.X, w *world.World, tlsListener ...bool) {
	w.Server("ok.test:80") // may already exist
	p, err := w.Client()
	if err != nil {
		x.Failf("probe/connect", "a new client cannot connect after the fault: %v", err)
		return
	}
	var ps world.Stream = p
	if len(tlsListener) > 0 && tlsListener[0] {
		tc := world.TLSClient(p, &tls.Config{InsecureSkipVerify: true})
		if done, err := tc.Handshake(); !done || err != nil {
			x.Failf("probe/tls-handshake", "a new client cannot complete the TLS handshake with the listener after the fault: done=%v err=%v", done, err)
			return
		}
		ps = tc
		defer tc.Close()
	}
	ps.Send([]byte("GET http://ok.test/probe HTTP/1.1\r\nHost: ok.test\r\n\r\n"))
	w.AnswerPlainRequests()
	synctestWait()
	world.Settle(4 * time.Minute) // when the route itself is broken the probe gets its own error response
	rs := httpwire.ParseResponses(ps.Recv(), []string{"GET"}, false)
	if len(rs.Msgs) != 1 {
		x.Failf("probe/not-served", "a probe request on a fresh connection after the fault got no response: %q", world.Clip(ps.Recv()))
	}
	p.Close()
	w.CloseProbeConns()
}

func synctestWait() { world.Settle(0) }

func (e *env) finish(x *explore.X, extra ...interface{ Close() }) {
	e.cl.Close()
	e.raw.Close()
	if err := e.w.Stop(); err != nil {
		x.Failf("shutdown", "%v", err)
	}
	for _, c := range extra {
		c.Close()
	}
	for _, c := range e.w.Net.Conns() { // release whatever scripted ends are still open
		if !c.IsClosed() && !strings.HasPrefix(c.Name, "proxy-out.test") && strings.HasSuffix(c.Name, "/acceptor") {
			c.Close()
		}
	}
	if l := world.Leaks(); l != "" {
		x.Failf("goroutine-leak", "%s", l)
	}
}

// ---- A: origin reply cut at every offset ------------------------------------------------------------

func replyFor(shape string, head bool) h1x.Msg {
	m := h1x.Msg{Start: "HTTP/1.1 200 OK", Fields: []h1x.F{{Name: "X-O", Value: "1"}}, Body: h1x.Pattern(40, 9)}
	switch shape {
	case "cl":
		m.Framing = "cl"
	case "chunked":
		m.Framing = "chunked"
		m.Chunks = []int{20}
		m.Trailers = []h1x.F{{Name: "X-T", Value: "t"}}
	case "eof":
		m.Framing = "eof"
	}
	return m
}

func replyCut(x *explore.X) {
	kind := []string{"GET", "POST", "HEAD", "GET-via-upstream", "GET-inside-MITM", "GET-handler-mode", "GET-log-http-body", "GET-log-http-headers"}[x.Choose("kind", 8)]
	shape := []string{"cl", "chunked", "eof"}[x.ChooseFree("shape", 3)]
	rst := x.ChooseFree("reset", 2) == 1
	m := replyFor(shape, false)
	head := m.Head()
	wire := m.Wire()
	if kind == "HEAD" {
		wire = head
	}
	k := x.ChooseFree("cut-offset", len(wire)+1)
	e := setup(x, kind, nil, nil)
	if e == nil {
		return
	}
	var tcfg *tls.Config
	if e.hopTLS {
		tcfg = &tls.Config{Certificates: []tls.Certificate{e.pki.Leaf([]string{originHost}, -time.Hour, time.Hour)}}
	}
	nh, _ := e.w.Hop(e.hopAddr, tcfg)
	if !e.sendRequest(x) {
		return
	}
	msgs, conns, _ := nh.Next()
	if len(msgs) != 1 {
		x.Failf("harness/not-forwarded", "request not forwarded: %q", world.Clip(e.cl.Recv()))
		e.finish(x, nh)
		return
	}
	oc := nh.Conns[conns[0]]
	rawc := nh.Raw[conns[0]]
	if k > 0 {
		oc.Send(wire[:k])
	}
	if rst {
		rawc.Abort()
	} else {
		oc.Close()
	}
	world.Settle(5 * time.Second)
	what := fmt.Sprintf("%s, origin reply (%s, %d bytes, head %d) cut after %d bytes with %s", kind, shape, len(wire), len(head), k, map[bool]string{true: "RST", false: "FIN"}[rst])
	x.Logf("%s", what)
	stream := e.cl.Recv()
	rs := httpwire.ParseResponses(stream, e.methods, e.clientEOF())
	x.Check()
	originComplete := k == len(wire)
	if shape == "eof" && kind != "HEAD" && k >= len(head) {
		// a connection-delimited body ends where the origin closes (FIN); a reset instead of the FIN means the
		// end of the message was never signalled, however many bytes had arrived
		originComplete = !rst
	}
	if kind == "HEAD" && k >= len(head) {
		originComplete = true
	}
	wantBody := m.Body
	if shape == "eof" && k >= len(head) {
		wantBody = wire[len(head):k]
	}
	if kind == "HEAD" {
		wantBody = nil
	}
	switch {
	case k < len(head):
		e.expectCleanError(x, what, 0, "")
	case originComplete:
		if rs.State == "syntax" || len(rs.Msgs) != 1 || len(rs.Rest) != 0 || rs.Msgs[0].Status != 200 || !bytes.Equal(rs.Msgs[0].Body, wantBody) {
			x.Failf("complete-reply-damaged", "%s: the origin's reply was complete but the client holds %d messages, state %q err %q\n  stream: %q", what, len(rs.Msgs), rs.State, rs.Err, world.Clip(stream))
		}
	default:
		// the origin failed in the middle of its message, after the head: the client must not see a complete message
		if rs.State == "syntax" {
			x.Failf("truncated-reply-malformed", "%s: client stream does not parse: %s\n  stream: %q", what, rs.Err, world.Clip(stream))
			break
		}
		if len(rs.Msgs) > 0 {
			got := rs.Msgs[0]
			if got.Status == 200 && shape == "eof" && got.Framing == "eof" && e.clientEOF() && bytes.HasPrefix(wire[len(head):k], got.Body) {
				// A connection-delimited origin message declares no length: all the proxy can do when the origin
				// aborts is to relay what it had read and close, which is the "closed connection" outcome of the
				// statement. (A reset may discard octets that had arrived but were not read yet - on real sockets
				// too - and a body-logging modifier that failed to read the body to its end forwards none of it:
				// any prefix of what arrived is accepted, never an octet the origin did not send.)
				break
			}
			if got.Status == 200 {
				x.Failf("truncated-reply-looks-complete", "%s: the client received a response that parses as complete (framing %s, %d body bytes of %d)\n  stream: %q", what, got.Framing, len(got.Body), len(m.Body), world.Clip(stream))
			} else if len(rs.Msgs) != 1 || got.Status/100 != 5 || !got.Has("X-Forwarder-Error") {
				x.Failf("truncated-reply-bad-error", "%s: client got %q", what, world.Clip(stream))
			}
			break
		}
		if !e.clientEOF() {
			x.Failf("truncated-reply-connection-left-open", "%s: the client holds a truncated message (state %q) and the connection is still open\n  stream: %q", what, rs.State, world.Clip(stream))
		}
		// body bytes delivered so far must be a prefix of the origin's body
		if i := bytes.Index(stream, []byte("\r\n\r\n")); i >= 0 && shape == "cl" {
			if part := stream[i+4:]; !bytes.HasPrefix(m.Body, part) {
				x.Failf("truncated-reply-body-not-prefix", "%s: partial body %q is not a prefix of the origin's", what, world.Clip(part))
			}
		}
	}
	probe(x, e.w)
	x.Outcome(fmt.Sprintf("%s %s msgs=%d state=%s eof=%v", kind, shape, len(rs.Msgs), rs.State, e.clientEOF()))
	e.finish(x, nh)
}

// ---- A2: terse but acceptable origin replies -----------------------------------------------------------------

var terseStatusLines = []string{"HTTP/1.1 200", "HTTP/1.1 200 ", "HTTP/1.1 204", "HTTP/1.1 204 ", "HTTP/1.1 304", "HTTP/1.1 304 ", "HTTP/1.0 200", "HTTP/1.1 299", "HTTP/1.1 404", "HTTP/1.1 200 \t", "HTTP/1.1 200 " + strings.Repeat("R", 5000),
	// three digits outside the five classes (net/http accepts them; with a length they carry a body like any final response)
	"HTTP/1.1 099 Weird", "HTTP/1.1 000 Zero", "HTTP/1.1 600 Odd", "HTTP/1.1 999 Max"}

// terseReplies: the origin answers with a status line that has no reason phrase - with or without the space
// after the code - or an unusually long one; Go's client accepts them all. Whatever the proxy makes of it,
// the client receives one complete response (the origin's status, or a 5xx of the proxy) and the process lives.
func terseReplies(x *explore.X) {
	kind := []string{"GET", "HEAD", "GET-via-upstream", "GET-inside-MITM", "GET-handler-mode"}[x.ChooseFree("kind", 5)]
	line := terseStatusLines[x.ChooseFree("status-line", len(terseStatusLines))]
	length := x.ChooseFree("content-length", 3) // 0 none (delimited by close), 1 Content-Length: 0, 2 Content-Length: 5 and a body
	withLength := length > 0
	var code int
	fmt.Sscanf(strings.SplitN(line, " ", 3)[1], "%d", &code)
	if length == 2 && (kind == "HEAD" || code == 204 || code == 304) {
		x.Outcome("inadmissible") // these replies have no body
		return
	}
	e := setup(x, kind, nil, nil)
	if e == nil {
		return
	}
	var tcfg *tls.Config
	if e.hopTLS {
		tcfg = &tls.Config{Certificates: []tls.Certificate{e.pki.Leaf([]string{originHost}, -time.Hour, time.Hour)}}
	}
	nh, _ := e.w.Hop(e.hopAddr, tcfg)
	if !e.sendRequest(x) {
		return
	}
	msgs, conns, _ := nh.Next()
	if len(msgs) != 1 {
		x.Failf("harness/not-forwarded", "request not forwarded: %q", world.Clip(e.cl.Recv()))
		e.finish(x, nh)
		return
	}
	reply := line + "\r\nX-O: 1\r\n"
	if withLength {
		reply += fmt.Sprintf("Content-Length: %d\r\n", []int{0, 0, 5}[length])
	}
	reply += "\r\n"
	if length == 2 {
		reply += "hello"
	}
	oc := nh.Conns[conns[0]]
	oc.Send([]byte(reply))
	if !withLength {
		oc.Close() // a 200 without a length is delimited by the connection
	}
	world.Settle(5 * time.Second)
	what := fmt.Sprintf("%s, origin reply %q (Content-Length: %s)", kind, world.Clip([]byte(line)), []string{"none", "0", "5 + body"}[length])
	x.Check()
	stream := e.cl.Recv()
	rs := httpwire.ParseResponses(stream, e.methods, e.clientEOF())
	if rs.State == "syntax" || len(rs.Msgs) != 1 {
		x.Failf("terse-reply/no-complete-response", "%s: the client holds %d complete responses (state %q, %s): %q", what, len(rs.Msgs), rs.State, rs.Err, world.Clip(stream))
	} else {
		if got := rs.Msgs[0].Status; got != code && got/100 != 5 {
			x.Failf("terse-reply/status", "%s: the client received status %d", what, got)
		} else if got == code && length == 2 && string(rs.Msgs[0].Body) != "hello" {
			x.Failf("terse-reply/body", "%s: the client received the origin's status with body %q, the origin sent \"hello\"", what, world.Clip(rs.Msgs[0].Body))
		}
	}
	oc.Close() // (a kept-alive connection to the scripted hop would swallow the probe)
	probe(x, e.w)
	x.Outcome(fmt.Sprintf("%s/%d", kind, len(rs.Msgs)))
	e.finish(x, nh)
}

// ---- B: dial faults -------------------------------------------------------------------------------

func dialFault(x *explore.X) {
	kind := kinds[x.ChooseFree("kind", len(kinds))]
	fault := x.ChooseFree("fault", 2) // 0 refused, 1 black-holed
	viaUp := strings.Contains(kind, "via-upstream")
	addr := originHost + ":80"
	if viaUp {
		addr = "up.test:8080"
	} else if strings.Contains(kind, "MITM") || strings.HasPrefix(kind, "CONNECT") {
		addr = originHost + ":443"
	}
	plan := map[string]simnet.DialPlan{addr: simnet.Refuse}
	want := 502
	if fault == 1 {
		plan[addr] = simnet.Blackhole
		want = 504
	}
	// client-side read/write time limits shorter than the time the fault takes to surface must not eat the error page
	limits := x.ChooseFree("client-side-timeouts", 2) == 1
	var tweak func(*world.Options)
	if limits {
		tweak = func(o *world.Options) {
			o.Tweak = func(cfg *forwarder.HTTPProxyConfig, _ *forwarder.HTTPTransportConfig) {
				cfg.ReadTimeout, cfg.WriteTimeout = 5*time.Second, 5*time.Second
			}
		}
	}
	e := setup(x, kind, plan, tweak)
	if e == nil {
		return
	}
	if !e.sendRequest(x) {
		return
	}
	world.Settle(4 * time.Minute)
	what := fmt.Sprintf("%s, dial to %s %s (read/write-timeout 5s: %v)", kind, addr, map[int]string{0: "refused", 1: "black-holed"}[fault], limits)
	x.Logf("%s; dials %v", what, e.w.Net.Dials())
	e.expectCleanError(x, what, want, "")
	probe(x, e.w)
	x.Outcome(fmt.Sprintf("%s fault%d", kind, fault))
	e.finish(x)
}

// ---- C: TLS faults towards the origin -----------------------------------------------------------------

func tlsFault(x *explore.X) {
	kind := []string{"GET-inside-MITM", "MITM-GET-via-upstream"}[x.ChooseFree("kind", 2)]
	fault := x.ChooseFree("fault", 10)
	e := setup(x, kind, nil, nil)
	if e == nil {
		return
	}
	srv, _ := e.w.Server(e.hopAddr)
	if !e.sendRequest(x) {
		return
	}
	hop := srv.Accept()
	if hop == nil {
		x.Failf("harness/no-dial", "hop not dialled")
		e.finish(x)
		return
	}
	if e.viaUp {
		rq := httpwire.ParseRequests(hop.Recv())
		if len(rq.Msgs) != 1 || rq.Msgs[0].Method != "CONNECT" {
			x.Failf("harness/upstream-connect", "upstream got %q", world.Clip(hop.Recv()))
			e.finish(x)
			return
		}
		hop.Send([]byte("HTTP/1.1 200 OK\r\n\r\n"))
	}
	other := world.NewPKI("some other CA")
	names := []string{"garbage (plain HTTP reply)", "close during handshake", "certificate for another name", "expired certificate", "certificate of an untrusted CA", "reset during handshake", "genuine ServerHello record, then a plain HTTP reply",
		"fatal alert handshake_failure in answer to the ClientHello", "fatal alert internal_error in answer to the ClientHello", "a TLS server that speaks no protocol version the proxy offers (its own protocol_version alert)"}
	var tp *world.TLSPeer
	switch fault {
	case 0:
		hop.Send([]byte("HTTP/1.1 400 Bad Request\r\nContent-Length: 0\r\n\r\n"))
	case 1:
		hop.Close()
	case 2:
		tp = world.TLSServer(hop, &tls.Config{Certificates: []tls.Certificate{e.pki.Leaf([]string{"elsewhere.test"}, -time.Hour, time.Hour)}})
	case 3:
		tp = world.TLSServer(hop, &tls.Config{Certificates: []tls.Certificate{e.pki.Leaf([]string{originHost}, -2*time.Hour, -time.Hour)}})
	case 4:
		tp = world.TLSServer(hop, &tls.Config{Certificates: []tls.Certificate{other.Leaf([]string{originHost}, -time.Hour, time.Hour)}})
	case 5:
		hop.Abort()
	case 6:
		// the first record is a real ServerHello (made by crypto/tls from the proxy's own ClientHello), what follows
		// is not TLS: the error the TLS stack reports for a LATER record differs from the one for the first record
		hello := hop.Recv()
		if i := bytes.Index(hello, []byte("\r\n\r\n")); e.viaUp && i >= 0 {
			hello = hello[i+4:] // (behind an upstream proxy the ClientHello follows the CONNECT head)
		}
		sh := serverHelloFor(hello, &tls.Config{Certificates: []tls.Certificate{e.pki.Leaf([]string{originHost}, -time.Hour, time.Hour)}})
		if len(sh) == 0 {
			x.Failf("harness/server-hello", "could not produce a ServerHello for the proxy's ClientHello (%d bytes)", len(hop.Recv()))
			e.finish(x, hop)
			return
		}
		hop.Send(append(sh, "HTTP/1.1 400 Bad Request\r\nContent-Length: 0\r\n\r\n"...))
	case 7, 8:
		// (round 9) the peer answers the ClientHello with a fatal alert: crypto/tls reports it as a net.OpError whose Op is
		// "remote error", a kind of error no dial or read failure ever has
		hop.Send([]byte{21, 3, 3, 0, 2, 2, map[int]byte{7: 40, 8: 80}[fault]})
		hop.Close()
	case 9:
		tp = world.TLSServer(hop, &tls.Config{MaxVersion: tls.VersionTLS11, Certificates: []tls.Certificate{e.pki.Leaf([]string{originHost}, -time.Hour, time.Hour)}})
	}
	world.Settle(30 * time.Second)
	what := fmt.Sprintf("%s, TLS fault: %s", kind, names[fault])
	e.expectCleanError(x, what, 502, "")
	if tp != nil {
		if rq := httpwire.ParseRequests(tp.Recv()); len(rq.Msgs) > 0 || len(tp.Recv()) > 0 {
			x.Failf("request-sent-despite-tls-fault", "%s: the origin received %q", what, world.Clip(tp.Recv()))
		}
	}
	probe(x, e.w)
	x.Outcome(fmt.Sprintf("%s tlsfault%d", kind, fault))
	if tp != nil {
		e.finish(x, tp)
	} else {
		e.finish(x, hop)
	}
}

// ---- C2 (round 9): a SOCKS5 upstream proxy that fails ------------------------------------------------------------------

// socksFault: the upstream is a SOCKS5 proxy; its negotiation fails in every way of a small menu (no acceptable method,
// a reply code other than success, closed or reset at every stage, something that is not SOCKS at all, a success reply
// cut short). The client gets one complete error response with X-Forwarder-Error; other connections are served.
func socksFault(x *explore.X) {
	kind := []string{"GET", "CONNECT", "GET-inside-MITM"}[x.ChooseFree("kind", 3)]
	fault := x.ChooseFree("fault", 9)
	e := setup(x, kind, nil, func(o *world.Options) {
		o.Upstream = "socks5://socks.test:1080"
		o.DirectDomains = []string{`^ok\.test$`} // (the probe after the fault goes to its origin directly)
	})
	if e == nil {
		return
	}
	srv, _ := e.w.Server("socks.test:1080")
	if e.mitm {
		if !e.sendRequest(x) {
			return
		}
	} else {
		if !e.sendRequest(x) {
			return
		}
	}
	names := []string{"no acceptable authentication method (05 FF)", "reply 05 (connection refused)", "reply 01 (general failure)", "reply 04 (host unreachable)",
		"closed after the method selection", "reset after the greeting", "an HTTP reply instead of SOCKS", "success reply cut after 4 octets, then closed", "closed at once"}
	// the dial is retried (3 attempts): every attempt meets the same fault
	for attempt := 0; attempt < 4; attempt++ {
		hop := srv.Accept()
		if hop == nil {
			if attempt == 0 {
				x.Failf("harness/no-dial", "the SOCKS5 upstream was not dialled")
				e.finish(x)
				return
			}
			break
		}
		ok := []byte{5, 0}
		switch fault {
		case 0:
			hop.Send([]byte{5, 0xFF})
		case 1, 2, 3:
			hop.Send(ok)
			hop.Send([]byte{5, map[int]byte{1: 5, 2: 1, 3: 4}[fault], 0, 1, 0, 0, 0, 0, 0, 0})
		case 4:
			hop.Send(ok)
			hop.Close()
		case 5:
			hop.Abort()
		case 6:
			hop.Send([]byte("HTTP/1.1 400 Bad Request\r\nContent-Length: 0\r\n\r\n"))
		case 7:
			hop.Send(ok)
			hop.Send([]byte{5, 0, 0, 1})
			hop.Close()
		case 8:
			hop.Close()
		}
		world.Settle(5 * time.Second)
	}
	world.Settle(2 * time.Minute)
	what := fmt.Sprintf("%s through a SOCKS5 upstream: %s", kind, names[fault])
	x.Logf("%s; dials %v", what, e.w.Net.Dials())
	e.expectCleanError(x, what, 0, "")
	probe(x, e.w)
	x.Outcome(fmt.Sprintf("%s socksfault%d", kind, fault))
	e.finish(x)
}

// serverHelloFor returns the first TLS record (the ServerHello) a real crypto/tls server writes in answer to clientHello.
func serverHelloFor(clientHello []byte, cfg *tls.Config) []byte {
	if len(clientHello) < 6 || clientHello[0] != 0x16 {
		return nil
	}
	c1, c2 := net.Pipe()
	defer c1.Close()
	defer c2.Close()
	srv := tls.Server(c2, cfg)
	go srv.Handshake() //nolint:errcheck // ends when the pipe is closed
	go c1.Write(clientHello)
	buf := make([]byte, 1<<16)
	n, err := io.ReadAtLeast(c1, buf, 5)
	if err != nil || buf[0] != 0x16 {
		return nil
	}
	l := 5 + int(buf[3])<<8 + int(buf[4])
	for n < l {
		m, err := c1.Read(buf[n:])
		if err != nil {
			return nil
		}
		n += m
	}
	return append([]byte(nil), buf[:l]...)
}

// ---- D: replies of the upstream proxy to CONNECT ---------------------------------------------------

var connectReplies = []struct {
	name   string
	wire   string
	status int // 0: the proxy must answer 5xx itself
}{
	{"403-no-body", "HTTP/1.1 403 Forbidden\r\nContent-Length: 0\r\n\r\n", 403},
	{"403-with-body", "HTTP/1.1 403 Forbidden\r\nContent-Type: text/plain\r\nContent-Length: 7\r\n\r\ndenied\n", 403},
	{"407", "HTTP/1.1 407 Proxy Authentication Required\r\nProxy-Authenticate: Basic realm=\"up\"\r\nContent-Length: 0\r\n\r\n", 407},
	{"500", "HTTP/1.1 500 Internal Server Error\r\nContent-Length: 0\r\n\r\n", 500},
	{"302", "HTTP/1.1 302 Found\r\nLocation: http://elsewhere.test/\r\nContent-Length: 0\r\n\r\n", 302},
	{"403-http10-eof-body", "HTTP/1.0 403 Forbidden\r\n\r\nno", 403},
	{"malformed", "garbage garbage\r\n\r\n", 0},
	{"not-http", "\x00\x01\x02\x03\r\n\r\n", 0},
}

func connectReply(x *explore.X) {
	kind := []string{"CONNECT-via-upstream", "MITM-GET-via-upstream", "MITM-HEAD-via-upstream"}[x.ChooseFree("kind", 3)]
	headReq := kind == "MITM-HEAD-via-upstream"
	if headReq {
		kind = "MITM-GET-via-upstream"
	}
	ri := x.ChooseFree("reply", len(connectReplies)+1)
	ok200 := "HTTP/1.1 200 Connection established\r\n\r\n"
	var wire string
	var status int
	name := ""
	cut := -1
	if ri < len(connectReplies) {
		wire, status, name = connectReplies[ri].wire, connectReplies[ri].status, connectReplies[ri].name
	} else {
		cut = x.ChooseFree("cut-offset", len(ok200)) // strictly inside the 200 reply
		wire, name = ok200[:cut], fmt.Sprintf("200 cut after %d bytes", cut)
	}
	endk := x.ChooseFree("reset", 3) // 0 FIN, 1 RST, 2 (round 9) neither: the upstream proxy falls silent, the connect time-out (60 s) ends the attempt
	if endk == 2 && status != 0 {
		x.Outcome("inadmissible") // (a complete reply needs no end of connection)
		return
	}
	e := setup(x, kind, nil, nil)
	if e == nil {
		return
	}
	srv, _ := e.w.Server(e.hopAddr)
	if headReq {
		// like sendRequest, with HEAD inside the tunnel
		e.raw.Send([]byte("CONNECT " + originHost + ":443 HTTP/1.1\r\nHost: " + originHost + ":443\r\n\r\n"))
		e.raw.Recv()
		pool := x509.NewCertPool()
		pool.AddCert(e.w.Proxy.MITMCACert())
		tc := world.TLSClient(e.raw, &tls.Config{RootCAs: pool, ServerName: originHost})
		if done, err := tc.Handshake(); !done || err != nil {
			x.Failf("mitm/handshake", "done=%v err=%v", done, err)
			return
		}
		e.cl = tc
		e.cl.Send([]byte("HEAD /x HTTP/1.1\r\nHost: " + originHost + "\r\n\r\n"))
		e.methods = []string{"HEAD"}
	} else if !e.sendRequest(x) {
		return
	}
	hop := srv.Accept()
	if hop == nil {
		x.Failf("harness/no-dial", "upstream proxy not dialled")
		e.finish(x)
		return
	}
	if len(wire) > 0 {
		hop.Send([]byte(wire))
	}
	switch endk {
	case 1:
		hop.Abort()
	case 0:
		hop.Close()
	}
	world.Settle(90 * time.Second)
	what := fmt.Sprintf("%s, upstream proxy answers CONNECT with %s then %s", kind, name, []string{"FIN", "RST", "silence"}[endk])
	if headReq {
		what = "HEAD " + what
	}
	x.Logf("%s", what)
	sig := ""
	if e.mitm && status != 0 {
		sig = "/rejected-upstream-connect-inside-mitm"
	}
	if status != 0 {
		// the upstream proxy's own status is relayed; well-formedness and status are required
		x.Check()
		rs := httpwire.ParseResponses(e.cl.Recv(), e.methods, e.clientEOF())
		switch {
		case rs.State == "syntax":
			x.Failf("rejected-connect-malformed"+sig, "%s: client stream does not parse: %s\n  stream: %q", what, rs.Err, world.Clip(e.cl.Recv()))
		case len(rs.Msgs) != 1 || len(rs.Rest) != 0:
			x.Failf("rejected-connect-incomplete"+sig, "%s: client holds %d messages + %d bytes (state %q)\n  stream: %q", what, len(rs.Msgs), len(rs.Rest), rs.State, world.Clip(e.cl.Recv()))
		case rs.Msgs[0].Status != status:
			x.Failf("rejected-connect-status"+sig, "%s: status %d, want %d", what, rs.Msgs[0].Status, status)
		case rs.Msgs[0].Proto != "HTTP/1.1" && rs.Msgs[0].Proto != "HTTP/1.0":
			x.Failf("rejected-connect-status-line"+sig, "%s: status line %q", what, rs.Msgs[0].StartLine)
		}
	} else {
		e.expectCleanError(x, what, 0, "")
		if endk == 2 {
			if rs := httpwire.ParseResponses(e.cl.Recv(), e.methods, false); len(rs.Msgs) == 1 {
				x.Logf("status after silence: %d", rs.Msgs[0].Status)
			}
			if !hop.PeerReleased() {
				x.Failf("upstream-connection-kept", "%s: the client has its error response but the proxy still holds the connection to the upstream proxy", what)
			}
		}
	}
	probe(x, e.w)
	x.Outcome(fmt.Sprintf("%s reply=%d end=%d", kind, ri, endk))
	e.finish(x, hop)
}

// ---- E: hostile client input ---------------------------------------------------------------------

const baseReq = "GET http://ok2.test/p HTTP/1.1\r\nHost: ok2.test\r\nX-A: b\r\n\r\n"
const baseConnect = "CONNECT ok2.test:443 HTTP/1.1\r\nHost: ok2.test:443\r\n\r\n"

var mutClasses = []string{"delete", "NUL", "CR", "LF", "0xFF", "space", "colon", "truncate+FIN", "truncate+RST"}

func hostileInput(x *explore.X) {
	listener := x.Choose("listener", 3) // 0 plain, 1 TLS listener, 2 inside a MITM'd tunnel
	input := x.ChooseFree("input", 5)   // 0 mutated request, 1 oversized head, 2 binary garbage, 3 partial TLS hello, 4 mutated CONNECT
	var payload []byte
	end := "FIN"
	desc := ""
	switch input {
	case 0, 4:
		base := baseReq
		if input == 4 {
			base = baseConnect // (its target names a host: what is done with that name - dialled, counted, logged - sees the octet too)
		}
		pos := x.ChooseFree("position", len(base))
		cls := mutClasses[x.ChooseFree("class", len(mutClasses))]
		b := []byte(base)
		switch cls {
		case "delete":
			b = append(b[:pos:pos], b[pos+1:]...)
		case "NUL":
			b[pos] = 0
		case "CR":
			b[pos] = '\r'
		case "LF":
			b[pos] = '\n'
		case "0xFF":
			b[pos] = 0xff
		case "space":
			b[pos] = ' '
		case "colon":
			b[pos] = ':'
		case "truncate+FIN":
			b = b[:pos]
		case "truncate+RST":
			b, end = b[:pos], "RST"
		}
		payload, desc = b, fmt.Sprintf("%s request with %s at offset %d", strings.SplitN(base, " ", 2)[0], cls, pos)
	case 1:
		n := []int{4096, 65536, 1 << 20, 2 << 20}[x.ChooseFree("size", 4)]
		payload = []byte("GET http://ok2.test/p HTTP/1.1\r\nHost: ok2.test\r\nX-Big: " + strings.Repeat("a", n) + "\r\n\r\n")
		desc = fmt.Sprintf("request with a %d byte header field", n)
	case 2:
		g := x.ChooseFree("garbage", 4)
		payload = [][]byte{bytes.Repeat([]byte{0}, 64), bytes.Repeat([]byte{0xff, 0xfe}, 3000), []byte("PRI * HTTP/2.0\r\n\r\nSM\r\n\r\n\x00\x00\x06\x04\x00\x00\x00\x00\x00\x00\x05\x00\x00\x00\x00"), []byte("\r\n\r\n\r\n\r\nGET\r\n")}[g]
		desc = fmt.Sprintf("binary garbage %d", g)
	case 3:
		n := x.ChooseFree("hello-bytes", 4)
		hello := []byte{0x16, 0x03, 0x01, 0x02, 0x00, 0x01, 0x00, 0x01, 0xfc, 0x03, 0x03}
		payload = hello[:[]int{1, 3, 5, 11}[n]]
		desc = fmt.Sprintf("first %d bytes of a TLS hello", len(payload))
		if x.ChooseFree("then", 2) == 1 {
			end = "stall"
		}
	}
	opts := func(o *world.Options) {
		switch listener {
		case 1:
			o.TLSListener = true
		case 2:
			o.MITM = true
		}
	}
	e := setup(x, "GET", nil, opts)
	if e == nil {
		return
	}
	ok2, _ := e.w.Hop("ok2.test:80", nil)
	var target world.Stream = e.raw
	switch listener {
	case 1:
		if input == 3 || x.Choose("inside-tls", 2) == 0 {
			break // raw bytes straight at the TLS listener
		}
		tc := world.TLSClient(e.raw, &tls.Config{InsecureSkipVerify: true})
		if done, err := tc.Handshake(); !done || err != nil {
			x.Failf("harness/tls-listener-handshake", "done=%v err=%v", done, err)
			return
		}
		target, e.cl = tc, tc
	case 2:
		e.raw.Send([]byte("CONNECT ok2.test:443 HTTP/1.1\r\nHost: ok2.test:443\r\n\r\n"))
		if got := string(e.raw.Recv()); got != "HTTP/1.1 200 OK\r\n\r\n" {
			x.Failf("mitm/connect-reply", "%q", got)
			return
		}
	}
	what := fmt.Sprintf("listener %d: %s, then %s", listener, desc, end)
	x.Logf("%s: %q", what, world.Clip(payload))
	if len(payload) > 0 {
		target.Send(payload)
	}
	// if something was forwarded, the origin answers
	msgs, conns, _ := ok2.Next()
	for i := range msgs {
		ok2.Conns[conns[i]].Send([]byte("HTTP/1.1 200 OK\r\nContent-Length: 2\r\n\r\nok"))
	}
	switch end {
	case "FIN":
		e.raw.CloseWrite()
	case "RST":
		e.raw.Abort()
	}
	world.Settle(5 * time.Second)
	x.Check()
	if end != "RST" && listener != 1 && !(listener == 2) {
		stream := e.raw.Recv()
		var methods []string
		for range 8 {
			methods = append(methods, "GET")
		}
		rs := httpwire.ParseResponses(stream, methods, e.raw.EOF())
		if rs.State == "syntax" {
			x.Failf("hostile-input/malformed-reply", "%s: what the proxy wrote back does not parse: %s\n  stream: %q", what, rs.Err, world.Clip(stream))
		}
	}
	probe(x, e.w, listener == 1)
	x.Outcome(fmt.Sprintf("l%d in%d forwarded=%d", listener, input, len(msgs)))
	e.finish(x, ok2)
}

func TestC12(t *testing.T) {
	s := explore.NewSuite(t, "C12", "fault_enumeration",
		"(reply-cut) request kind(GET, POST, HEAD, GET via upstream proxy, GET inside MITM) x reply shape(Content-Length, chunked with trailer, connection-delimited) x EVERY cut offset k in [0,len(reply)] x {FIN, RST}; (terse-replies) 5 request kinds x 11 status lines without reason phrase, with and without the space after the code, with a 5000-octet reason x {Content-Length: 0, connection-delimited}: one complete response, the process lives; (dial) 8 request kinds x {refused, black-holed until the timeouts expire on the virtual clock}; (tls) MITM GET direct/via upstream x 6 TLS faults of the origin; (connect-reply) client CONNECT / MITM GET / MITM HEAD through an upstream proxy x 8 reply shapes + every cut offset of a 200 reply x {FIN, RST}; (hostile) every single-position mutation of a valid request x 9 classes, oversized heads, binary garbage, h2 preface with SETTINGS, partial TLS hellos on plain/TLS/MITM listeners; after every fault a probe request on a fresh connection must be served; the client's stream is classified by the independent parser: one complete well-formed error response with X-Forwarder-Error, or (after the head was relayed) a truncated message on a closed connection, never a complete-looking truncated one; worker crash = violation; non-trivial = classification made; (round 9) TLS faults: fatal alerts (handshake_failure, internal_error) in answer to the ClientHello and a TLS server without a common protocol version; (socks5-upstream) {GET, CONNECT, GET inside MITM} through a SOCKS5 upstream x 9 failures of the negotiation (no acceptable method, reply codes 1/4/5, closed or reset at every stage, an HTTP reply, a success reply cut short), every dial attempt meets the same fault; CONNECT replies: the upstream proxy falls silent (neither FIN nor RST) after every partial reply, the connection to it must be released")
	s.Assume = []string{"simnet models FIN/RST and dial refusal/black-holing; net.Dialer.Timeout is emulated by simnet with the configured DialTimeout", "the statement is read as: the upstream proxy's own status line for a rejected CONNECT is relayed; for it only well-formedness and the status are required"}
	run := func(f func(x *explore.X)) func(x *explore.X) {
		return func(x *explore.X) { world.Run(t, x, func() { f(x) }) }
	}
	s.Add(explore.Scenario{Name: "reply-cut", Remote: true, MaxDev: map[string]int{"quick": 1, "thorough": 1}, Run: run(replyCut)})
	s.Add(explore.Scenario{Name: "terse-replies", Remote: true, Run: run(terseReplies)})
	s.Add(explore.Scenario{Name: "dial", Remote: true, Run: run(dialFault)})
	s.Add(explore.Scenario{Name: "tls", Remote: true, Run: run(tlsFault)})
	s.Add(explore.Scenario{Name: "socks5-upstream", Remote: true, Run: run(socksFault)})
	s.Add(explore.Scenario{Name: "connect-reply", Remote: true, Run: run(connectReply)})
	s.Add(explore.Scenario{Name: "hostile", Remote: true, MaxDev: map[string]int{"quick": 0, "thorough": 2}, Run: run(hostileInput)})
	s.Main()
}
