// C20: listener bandwidth limits bound throughput per direction without altering data.
// Engine S with the virtual clock: for every pair of limits, transfer kind and number of connections
// sharing the listener, the harness samples (virtual time, cumulative bytes) at the receiving side
// and checks the token-bucket bound between EVERY pair of samples, the minimum duration, that the
// unlimited direction takes zero virtual time, and that the bytes are identical.
package c20

import (
	"bytes"
	"fmt"
	"github.com/saucelabs/forwarder"
	"math/big"
	"strings"
	"testing"
	"time"

	"github.com/saucelabs/forwarder/internal/zzverif/explore"
	"github.com/saucelabs/forwarder/internal/zzverif/h1x"
	"github.com/saucelabs/forwarder/internal/zzverif/httpwire"
	"github.com/saucelabs/forwarder/internal/zzverif/world"
)

const MiB = 1 << 20

// (two limits are smaller than one relay buffer of 32 KiB, one of them smaller than a 4 KiB bufio buffer)
var limits = []int64{0, 1 * MiB, 64 * MiB, 300 * MiB, 16 * 1024, 3000}

// transfer size per connection: well above the burst; with a limit below 1 MiB/s it is burst + 256 KiB so that
// the virtual duration stays below the proxy's own one-hour idle limit
const bigSize = 12 * MiB

func burstOf(limit int64) int64 {
	b := limit / 64
	if b < 4*MiB {
		b = 4 * MiB
	}
	return b
}

type sample struct {
	t time.Duration
	n int64
}

// trace samples total() until it reaches want or the horizon passes.
// afterSecondSample, when set, runs once right after the second sample was taken (the transfer is under way).
var afterSecondSample func()

func trace(total func() int64, want int64, step, horizon time.Duration) []sample {
	t0 := time.Now()
	var tr []sample
	for {
		world.Settle(0)
		n := total()
		tr = append(tr, sample{time.Since(t0), n})
		if len(tr) == 2 && afterSecondSample != nil {
			afterSecondSample()
			afterSecondSample = nil
		}
		if n >= want || time.Since(t0) > horizon {
			return tr
		}
		time.Sleep(step)
	}
}

// checkBound verifies bytes(j)-bytes(i) <= burst + R*(tj-ti) + slack for every i<j.
func checkBound(x *explore.X, what string, tr []sample, limit int64, conns int) {
	x.Check()
	last := tr[len(tr)-1]
	if limit == 0 {
		if last.t != 0 {
			x.Failf("throttled-without-limit", "%s: no limit applies to this direction but the transfer took %v of virtual time", what, last.t)
		}
		return
	}
	burst := burstOf(limit)
	slack := int64(conns) * 64 * 1024 // the limiter is charged after each write: one buffer per connection may be in flight
	for i := 0; i < len(tr); i++ {
		for j := i; j < len(tr); j++ {
			var base int64
			var dt time.Duration
			if j > i {
				base, dt = tr[i].n, tr[j].t-tr[i].t
			} else {
				base, dt = 0, tr[j].t // from the start
			}
			allowed := burst + int64(float64(limit)*dt.Seconds()) + slack
			if got := tr[j].n - base; got > allowed {
				x.Failf("limit-exceeded", "%s: %d bytes passed within %v (samples %d..%d), the limiter allows burst %d + %d B/s x %v + slack %d = %d", what, got, dt, i, j, burst, limit, dt, slack, allowed)
				return
			}
		}
	}
	minDur := time.Duration(float64(last.n-burst-slack) / float64(limit) * float64(time.Second))
	if last.n > burst+slack && last.t < minDur-time.Millisecond {
		x.Failf("faster-than-limit", "%s: %d bytes took %v, at %d B/s with burst %d they need at least %v", what, last.n, last.t, limit, burst, minDur)
	}
}

func scenario(x *explore.X) {
	r := limits[x.ChooseFree("read-limit", len(limits))]
	wl := limits[x.ChooseFree("write-limit", len(limits))]
	kind := []string{"download", "upload", "tunnel"}[x.ChooseFree("transfer", 3)]
	nconn := 1 + x.ChooseFree("connections-1", 3)
	// graceful shutdown requested while the transfer is under way (listeners are closed, exchanges and
	// tunnels in flight are allowed to finish): the limits keep applying to them
	shutdownMid := x.ChooseFree("graceful-shutdown-mid-transfer", 2) == 1
	// client-side read/write time limits (2 s / 3 s) on a throttled transfer: the transfer may be cut off by them,
	// but what does get through still obeys the limit (so completeness is not demanded in this mode)
	withTimeouts := x.ChooseFree("client-side-timeouts", 2) == 1
	if withTimeouts && (kind == "tunnel" || shutdownMid) {
		x.Outcome("inadmissible")
		return
	}
	// a tunnel whose client has finished sending (TCP half-close) before the target sends its bulk: the
	// direction towards the client stays open and stays limited
	halfClosed := false
	if kind == "tunnel" && !shutdownMid {
		halfClosed = x.ChooseFree("client-half-closes-before-the-download", 2) == 1
	}
	// the sender may write its bulk in one piece or in many small ones (1000 octets: smaller than every buffer of the
	// relay, so the proxy's own reads and writes are small too); the limit is on octets, not on calls
	piece := []int{0, 1000}[x.ChooseFree("sender-write-size", 2)]
	send := func(p *world.Peer, b []byte) {
		if piece == 0 {
			p.SendNoWait(b)
			return
		}
		for off := 0; off < len(b); off += piece {
			p.SendNoWait(b[off:min(off+piece, len(b))])
		}
	}
	// the proxy's sockets may offer ReadFrom / WriteTo (as *net.TCPConn does) or not (as a TLS connection does): a limit
	// counts the octets whichever way they are copied
	fast := x.ChooseFree("sockets-offer-readfrom-writeto", 2) == 1
	opts := world.Options{ReadLimit: r, WriteLimit: wl, ShutdownTimeout: 48 * time.Hour, FastPathSockets: fast}
	if withTimeouts {
		opts.Tweak = func(cfg *forwarder.HTTPProxyConfig, _ *forwarder.HTTPTransportConfig) {
			cfg.ReadTimeout, cfg.WriteTimeout = 2*time.Second, 3*time.Second
		}
	}
	w, err := world.Start(opts)
	if err != nil {
		x.Failf("harness/start", "%v", err)
		return
	}
	org, _ := w.Hop("origin.test:80", nil)
	tun, _ := w.Hop("tunnel.test:443", nil)
	var clients []*world.Peer
	for i := 0; i < nconn; i++ {
		c, _ := w.Client()
		clients = append(clients, c)
	}
	afterSecondSample = nil
	if shutdownMid {
		afterSecondSample = func() { w.Shutdown() }
	}
	size := bigSize
	horizon := 10 * time.Minute
	for _, l := range []int64{r, wl} {
		if l != 0 && l < MiB {
			size = 4*MiB + 256*1024
			if h := 10*time.Minute + 2*time.Duration(float64(int64(nconn)*int64(size))/float64(l)*float64(time.Second)); h > horizon {
				horizon = h
			}
		}
	}
	if withTimeouts {
		horizon = time.Minute
	}
	down := h1x.Pattern(size, 3)
	up := h1x.Pattern(size, 8)
	what := fmt.Sprintf("read-limit=%d write-limit=%d %s x%d", r, wl, kind, nconn)
	if shutdownMid {
		what += " (graceful shutdown requested after the second sample)"
	}
	if piece > 0 {
		what += fmt.Sprintf(" (sent in pieces of %d octets)", piece)
	}
	if fast {
		what += " (sockets with ReadFrom/WriteTo)"
	}
	if withTimeouts {
		what += " (read-timeout 2s, write-timeout 3s)"
	}
	x.Logf("%s", what)
	stepFor := func(limit int64) time.Duration {
		if limit == 0 {
			return time.Second
		}
		d := time.Duration(float64(int64(size)*int64(nconn)) / float64(limit) * float64(time.Second) / 64)
		if d < time.Millisecond {
			d = time.Millisecond
		}
		return d
	}
	switch kind {
	case "download":
		for _, c := range clients {
			c.SendNoWait([]byte("GET http://origin.test/d HTTP/1.1\r\nHost: origin.test\r\n\r\n"))
		}
		world.Settle(0)
		org.Poll()
		if len(org.Conns) != nconn {
			x.Failf("harness/forward", "origin got %d connections, want %d", len(org.Conns), nconn)
			return
		}
		head := []byte(fmt.Sprintf("HTTP/1.1 200 OK\r\nContent-Length: %d\r\n\r\n", size))
		for _, oc := range org.Raw {
			send(oc, append(append([]byte{}, head...), down...))
		}
		total := func() int64 {
			var n int64
			for _, c := range clients {
				n += int64(len(c.Recv()))
			}
			return n
		}
		tr := trace(total, int64(nconn)*int64(len(head)+size), stepFor(r), horizon)
		checkBound(x, what+" [bytes received by clients]", tr, r, nconn)
		for i, c := range clients {
			if withTimeouts {
				break
			}
			rs := httpwire.ParseResponses(c.Recv(), []string{"GET"}, false)
			if len(rs.Msgs) != 1 || !bytes.Equal(rs.Msgs[0].Body, down) {
				x.Failf("data-altered", "%s: client %d did not receive the origin's %d bytes intact (state %q, msgs %d)", what, i, size, rs.State, len(rs.Msgs))
			}
		}
	case "upload":
		head := []byte(fmt.Sprintf("POST http://origin.test/u HTTP/1.1\r\nHost: origin.test\r\nContent-Length: %d\r\n\r\n", size))
		for _, c := range clients {
			send(c, append(append([]byte{}, head...), up...))
		}
		// bytes the proxy has accepted from clients = bytes consumed from the client sockets
		total := func() int64 {
			var n int64
			for _, c := range clients {
				n += c.C.Status().PeerRead
			}
			return n
		}
		tr := trace(total, int64(nconn)*int64(len(head)+size), stepFor(wl), horizon)
		checkBound(x, what+" [bytes accepted from clients]", tr, wl, nconn)
		if withTimeouts {
			// (uploads the time limit has cut off never complete; those that did are answered)
			msgs, conns, _ := org.Next()
			for i := range msgs {
				org.Conns[conns[i]].Send([]byte("HTTP/1.1 200 OK\r\nContent-Length: 0\r\n\r\n"))
			}
			break
		}
		msgs, conns, problem := org.Next()
		if len(msgs) != nconn {
			x.Failf("data-altered", "%s: origin received %d complete requests, want %d (%s)", what, len(msgs), nconn, problem)
		}
		for i, m := range msgs {
			if !bytes.Equal(m.Body, up) {
				x.Failf("data-altered", "%s: upload %d arrived altered (%d bytes)", what, i, len(m.Body))
			}
			org.Conns[conns[i]].Send([]byte("HTTP/1.1 200 OK\r\nContent-Length: 0\r\n\r\n"))
		}
	case "tunnel":
		for _, c := range clients {
			c.SendNoWait([]byte("CONNECT tunnel.test:443 HTTP/1.1\r\nHost: tunnel.test:443\r\n\r\n"))
		}
		world.Settle(0)
		tun.Poll()
		if len(tun.Raw) != nconn {
			x.Failf("harness/tunnel", "target got %d connections, want %d", len(tun.Raw), nconn)
			return
		}
		okLen := int64(len("HTTP/1.1 200 OK\r\n\r\n"))
		for _, c := range clients {
			if int64(len(c.Recv())) != okLen {
				x.Failf("harness/tunnel", "CONNECT reply %q", world.Clip(c.Recv()))
				return
			}
		}
		if halfClosed {
			what += " (clients half-closed before the download)"
			for _, c := range clients {
				c.CloseWrite()
			}
			world.Settle(0)
			for i, tc := range tun.Raw {
				if !tc.SawEOF() {
					x.Failf("half-close-not-propagated", "%s: tunnel %d: the client finished sending but the target does not observe end-of-stream", what, i)
				}
			}
		}
		// towards the clients first, then towards the target, each traced on its own
		for _, tc := range tun.Raw {
			send(tc, down)
		}
		totalDown := func() int64 {
			var n int64
			for _, c := range clients {
				n += int64(len(c.Recv())) - okLen
			}
			return n
		}
		trd := trace(totalDown, int64(nconn)*int64(size), stepFor(r), horizon)
		checkBound(x, what+" [tunnel bytes received by clients]", trd, r, nconn)
		if halfClosed {
			// (the proxy ends a tunnel one minute after its first direction has finished - documented behaviour of the
			// relay - so a download that needs longer than that is cut short: what did arrive must be a prefix)
			for i := range clients {
				got := clients[i].Recv()[okLen:]
				if !bytes.HasPrefix(down, got) || (len(got) < len(down) && trd[len(trd)-1].t < time.Minute) {
					x.Failf("data-altered", "%s: tunnel %d: bytes towards the client altered or cut short (%d of %d after %v)", what, i, len(got), len(down), trd[len(trd)-1].t)
				}
			}
			break
		}
		before := func() int64 {
			var n int64
			for _, c := range clients {
				n += c.C.Status().PeerRead
			}
			return n
		}()
		for _, c := range clients {
			send(c, up)
		}
		totalUp := func() int64 {
			var n int64
			for _, c := range clients {
				n += c.C.Status().PeerRead
			}
			return n - before
		}
		tru := trace(totalUp, int64(nconn)*int64(size), stepFor(wl), horizon)
		// the read limiter was drained by the download phase only if the limits are shared per direction: they are not
		checkBound(x, what+" [tunnel bytes accepted from clients]", tru, wl, nconn)
		for i := range clients {
			if !bytes.Equal(clients[i].Recv()[okLen:], down) {
				x.Failf("data-altered", "%s: tunnel %d: bytes towards the client altered", what, i)
			}
			if !bytes.Equal(tun.Raw[i].Recv(), up) {
				x.Failf("data-altered", "%s: tunnel %d: bytes towards the target altered (%d of %d)", what, i, len(tun.Raw[i].Recv()), len(up))
			}
		}
	}
	x.Outcome(fmt.Sprintf("%s r>0=%v w>0=%v", kind, r > 0, wl > 0))
	for _, c := range clients {
		c.Close()
	}
	if err := w.Stop(); err != nil {
		m := w.Proxy.VerifMartian()
		x.Failf("shutdown", "%v (open-connection count %d, registered %d; client sockets: %s)", err, m.VerifOpenConns(), m.VerifTracked(), func() string {
			var l []string
			for _, c := range clients {
				st := c.C.Status()
				l = append(l, fmt.Sprintf("closed=%v peerClosed=%v reset=%v peerReading=%v proxy-has-read=%d", st.Closed, st.PeerClosed, st.Reset, st.PeerReading, st.PeerRead))
			}
			ll := w.Log.Lines()
			if len(ll) > 25 {
				ll = ll[len(ll)-25:]
			}
			return strings.Join(l, "; ") + "\n  log tail:\n    " + strings.Join(ll, "\n    ")
		}())
	}
	org.Close()
	tun.Close()
	if l := world.Leaks(); l != "" {
		x.Failf("goroutine-leak", "%s", l)
	}
}

// limitSpellings: the value of --read-limit / --write-limit is written as a decimal number with an optional binary
// suffix (none = KiB, b/B = octets, k/Ki/KiB ... ). Every spelling of the alphabet is parsed by the option's own
// parser (SizeSuffix.Set, what flags, environment and config file go through) and compared with exact rational
// arithmetic: the limiter is built from this number, a mis-read fraction is a different limit.
func limitSpellings(x *explore.X) {
	ip := []string{"0", "1", "12", "007", "3000", ""}[x.ChooseFree("integer-part", 6)]
	fp := []string{"", ".", ".5", ".05", ".005", ".25", ".125", ".50", ".0", ".000977", ".999"}[x.ChooseFree("fraction", 11)]
	suf := []string{"", "b", "B", "k", "K", "Ki", "KiB", "kib", "M", "Mi", "MiB", "m", "G", "Gi"}[x.ChooseFree("suffix", 14)]
	spelling := ip + fp + suf
	if ip == "" && (fp == "" || fp == ".") {
		x.Outcome("inadmissible") // no digits at all
		return
	}
	mult := map[byte]int64{'b': 1, 'k': 1 << 10, 'm': 1 << 20, 'g': 1 << 30}
	m := int64(1 << 10) // a bare number counts KiB
	if suf != "" {
		m = mult[strings.ToLower(suf)[0]]
	}
	num := ip + fp
	if strings.HasSuffix(num, ".") {
		num += "0"
	}
	if strings.HasPrefix(num, ".") {
		num = "0" + num
	}
	r, ok := new(big.Rat).SetString(num)
	if !ok {
		x.Failf("harness/reference", "cannot read %q", num)
		return
	}
	r.Mul(r, new(big.Rat).SetInt64(m))
	want := new(big.Int).Quo(r.Num(), r.Denom()).Int64()
	var got forwarder.SizeSuffix
	err := got.Set(spelling)
	x.Check()
	if err != nil {
		x.Failf("limit-spelling-rejected", "limit %q: %v (the reference reads %d octets per second)", spelling, err, want)
		return
	}
	// (the parser multiplies in floating point: one octet of rounding is not a different limit)
	if d := int64(got) - want; d < -1 || d > 1 {
		x.Failf("limit-misread", "limit %q is taken as %d octets per second, it means %d", spelling, int64(got), want)
	}
	x.Outcome(fmt.Sprintf("%s/%v", suf, want > 0))
}

// extraListeners (round 9): a proxy with a main listener and one extra listener (HTTPProxyConfig.ExtraListeners), each
// with its own pair of limits. A transfer through one listener is bound by that listener's limit for that direction
// and by nothing else: a listener whose limit is 0 does not throttle, whatever the other listener is configured with.
func extraListeners(x *explore.X) {
	lim := []int64{0, 1 * MiB, 16 * 1024}
	mr, mw := lim[x.ChooseFree("main-read-limit", 3)], lim[x.ChooseFree("main-write-limit", 3)]
	er, ew := lim[x.ChooseFree("extra-read-limit", 3)], lim[x.ChooseFree("extra-write-limit", 3)]
	kind := []string{"download", "upload"}[x.ChooseFree("transfer", 2)]
	via := x.ChooseFree("through-listener", 2) // 0 main, 1 extra
	const extraAddr = "proxy.test:3129"
	opts := world.Options{ReadLimit: mr, WriteLimit: mw, ShutdownTimeout: 48 * time.Hour}
	opts.Tweak = func(cfg *forwarder.HTTPProxyConfig, _ *forwarder.HTTPTransportConfig) {
		lc := forwarder.NamedListenerConfig{Name: "extra"}
		lc.Address = extraAddr
		lc.ReadLimit, lc.WriteLimit = forwarder.SizeSuffix(er), forwarder.SizeSuffix(ew)
		cfg.ExtraListeners = append(cfg.ExtraListeners, lc)
	}
	w, err := world.Start(opts)
	if err != nil {
		x.Failf("harness/start", "%v", err)
		return
	}
	org, _ := w.Hop("origin.test:80", nil)
	addr, r, wl := w.Addr, mr, mw
	if via == 1 {
		addr, r, wl = extraAddr, er, ew
	}
	cc, err := w.Net.DialFrom("client-x.test", addr)
	if err != nil {
		x.Failf("harness/dial", "listener %s: %v", addr, err)
		return
	}
	world.Settle(0)
	c := &world.Peer{C: cc}
	afterSecondSample = nil
	size := 4*MiB + 256*1024
	horizon := 10*time.Minute + 2*time.Duration(float64(size)/float64(16*1024)*float64(time.Second))
	what := fmt.Sprintf("main listener read-limit=%d write-limit=%d, extra listener read-limit=%d write-limit=%d, %s through the %s listener", mr, mw, er, ew, kind, []string{"main", "extra"}[via])
	x.Logf("%s", what)
	stepFor := func(limit int64) time.Duration {
		if limit == 0 {
			return time.Second
		}
		return max(time.Duration(float64(size)/float64(limit)*float64(time.Second)/64), time.Millisecond)
	}
	switch kind {
	case "download":
		c.SendNoWait([]byte("GET http://origin.test/d HTTP/1.1\r\nHost: origin.test\r\n\r\n"))
		world.Settle(0)
		org.Poll()
		if len(org.Conns) != 1 {
			x.Failf("harness/forward", "%s: origin got %d connections, want 1", what, len(org.Conns))
			return
		}
		down := h1x.Pattern(size, 3)
		head := []byte(fmt.Sprintf("HTTP/1.1 200 OK\r\nContent-Length: %d\r\n\r\n", size))
		org.Raw[0].SendNoWait(append(append([]byte{}, head...), down...))
		tr := trace(func() int64 { return int64(len(c.Recv())) }, int64(len(head)+size), stepFor(r), horizon)
		checkBound(x, what+" [bytes received by the client]", tr, r, 1)
		rs := httpwire.ParseResponses(c.Recv(), []string{"GET"}, false)
		if len(rs.Msgs) != 1 || !bytes.Equal(rs.Msgs[0].Body, down) {
			x.Failf("data-altered", "%s: the client did not receive the origin's %d bytes intact (state %q, msgs %d)", what, size, rs.State, len(rs.Msgs))
		}
	case "upload":
		up := h1x.Pattern(size, 8)
		head := []byte(fmt.Sprintf("POST http://origin.test/u HTTP/1.1\r\nHost: origin.test\r\nContent-Length: %d\r\n\r\n", size))
		c.SendNoWait(append(append([]byte{}, head...), up...))
		tr := trace(func() int64 { return c.C.Status().PeerRead }, int64(len(head)+size), stepFor(wl), horizon)
		checkBound(x, what+" [bytes accepted from the client]", tr, wl, 1)
		msgs, conns, problem := org.Next()
		if len(msgs) != 1 || !bytes.Equal(msgs[0].Body, up) {
			x.Failf("data-altered", "%s: the origin received %d complete requests (%s)", what, len(msgs), problem)
		} else {
			org.Conns[conns[0]].Send([]byte("HTTP/1.1 200 OK\r\nContent-Length: 0\r\n\r\n"))
		}
	}
	x.Outcome(fmt.Sprintf("%s r=%d w=%d via=%d", kind, r, wl, via))
	c.Close()
	if err := w.Stop(); err != nil {
		x.Failf("shutdown", "%s: %v", what, err)
	}
	org.Close()
	if l := world.Leaks(); l != "" {
		x.Failf("goroutine-leak", "%s", l)
	}
}

func TestC20(t *testing.T) {
	s := explore.NewSuite(t, "C20", "model_checking",
		"(read-limit, write-limit) in {0, 1 MiB/s, 64 MiB/s, 300 MiB/s, 16 KiB/s, 3000 B/s}^2 (the last two are smaller than one relay buffer / one bufio buffer) x transfer {download, upload, CONNECT tunnel both ways} of 12 MiB per connection (burst + 256 KiB with a limit below 1 MiB/s) x {1,2,3} connections sharing the listener x {no shutdown, graceful shutdown requested while the transfer is under way} x {no client-side time limits, read-timeout 2 s + write-timeout 3 s (bound only)} x (tunnels) {client keeps sending, client half-closes before the download} x sender writes {one piece, pieces of 1000 octets} x sockets {plain, offering ReadFrom/WriteTo like *net.TCPConn} [full product]; on the virtual clock the receiving side's (time, cumulative bytes) is sampled 64+ times per transfer (states = samples) and the token-bucket bound bytes <= burst + rate x dt + one 64 KiB write per connection is checked between EVERY pair of samples, plus minimum duration, zero virtual time for an unlimited direction, and byte-for-byte identity of the data; plus (limit-spellings) integer part(6) x fraction(11, incl. leading zeros) x suffix(14) of the option value through SizeSuffix.Set compared with exact rational arithmetic; (extra-listeners, round 9) main listener limits {0, 1 MiB/s, 16 KiB/s}^2 x extra listener (HTTPProxyConfig.ExtraListeners) limits {0, 1 MiB/s, 16 KiB/s}^2 x {download, upload} x through {main, extra} [full product]: the transfer obeys the limits of the listener it came through and nothing else")
	s.Assume = []string{"virtual clock of testing/synctest drives golang.org/x/time/rate", "documented slack: the limiter is charged after each write, so one write (<= 64 KiB) per connection may exceed the bucket", "simnet receive buffers are unbounded, so the only throttle is the limiter under test"}
	s.Add(explore.Scenario{Name: "limit-spellings", Run: limitSpellings})
	s.Add(explore.Scenario{Name: "extra-listeners", Remote: true, Run: func(x *explore.X) { world.Run(t, x, func() { extraListeners(x) }) }})
	s.Add(explore.Scenario{Name: "limits", Remote: true, Run: func(x *explore.X) { world.Run(t, x, func() { scenario(x) }) }})
	s.Main()
}
