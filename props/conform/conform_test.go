// Conformance of the simulated network with the real one (not a property check; see DESIGN.md section 3.1).
//
// Every script of up to N events over one CONNECT tunnel - {client, target} x {send 5 bytes, send 40000 bytes,
// FIN, RST} - is executed twice against the same real proxy code: once on the in-memory network inside a
// synctest bubble (the environment every Engine S verdict rests on) and once over real loopback TCP sockets.
// What the two endpoints observe after the last event - bytes delivered, end-of-stream, reset - must be the
// same. The real run has no quiescence signal: it polls until it sees the observation the simulated run
// predicts and reports a divergence only when that does not happen within a generous time limit.
package conform

import (
	"context"
	"crypto/sha256"
	"errors"
	"fmt"
	"io"
	"net"
	"os"
	"strings"
	"sync"
	"syscall"
	"testing"
	"time"

	"github.com/saucelabs/forwarder"
	"github.com/saucelabs/forwarder/internal/zzverif/h1x"
	"github.com/saucelabs/forwarder/internal/zzverif/world"
)

var events = []string{"c:5", "t:5", "c:40000", "t:40000", "c:fin", "t:fin", "c:rst", "t:rst"}

type obs struct {
	N     int    // bytes received
	Sum   string // hash of them
	EOF   bool
	Reset bool
}

func (o obs) String() string { return fmt.Sprintf("%d bytes eof=%v reset=%v", o.N, o.EOF, o.Reset) }

func sum(b []byte) string { h := sha256.Sum256(b); return fmt.Sprintf("%x", h[:4]) }

// scripts enumerates all event sequences of length 1..n in which an endpoint does nothing after its own FIN/RST.
func scripts(n int) [][]string {
	var out [][]string
	var rec func(cur []string, cDone, tDone bool)
	rec = func(cur []string, cDone, tDone bool) {
		if len(cur) > 0 {
			out = append(out, append([]string{}, cur...))
		}
		if len(cur) == n {
			return
		}
		for _, e := range events {
			who := e[0]
			if (who == 'c' && cDone) || (who == 't' && tDone) {
				continue
			}
			end := strings.HasSuffix(e, "fin") || strings.HasSuffix(e, "rst")
			rec(append(cur, e), cDone || (who == 'c' && end), tDone || (who == 't' && end))
		}
	}
	rec(nil, false, false)
	return out
}

func payload(e string, k int) []byte {
	n := 5
	if strings.HasSuffix(e, "40000") {
		n = 40000
	}
	return h1x.Pattern(n, byte(3+7*k))
}

// ---- simulated run ---------------------------------------------------------------------------------------------

func runSim(t *testing.T, sc []string) (c, tg obs, err error) {
	var fail string
	world.Run(t, failer{&fail}, func() {
		w, e := world.Start(world.Options{ProxyLocalhost: forwarder.AllowProxyLocalhost})
		if e != nil {
			fail = e.Error()
			return
		}
		srv, _ := w.Server("target.test:443")
		cl, _ := w.Client()
		cl.Send([]byte("CONNECT target.test:443 HTTP/1.1\r\nHost: target.test:443\r\n\r\n"))
		hop := srv.Accept()
		if hop == nil || string(cl.Recv()) != "HTTP/1.1 200 OK\r\n\r\n" {
			fail = fmt.Sprintf("tunnel not established: %q", cl.Recv())
			return
		}
		base := len(cl.Recv())
		for k, e := range sc {
			p := cl
			if e[0] == 't' {
				p = hop
			}
			switch {
			case strings.HasSuffix(e, "fin"):
				p.CloseWrite()
			case strings.HasSuffix(e, "rst"):
				p.Abort()
			default:
				p.Send(payload(e, k))
			}
		}
		world.Settle(0)
		get := func(p *world.Peer, base int, aborted bool) obs {
			if aborted {
				return obs{}
			}
			b := p.Recv()[base:]
			st := p.C.Status()
			return obs{N: len(b), Sum: sum(b), EOF: p.EOF(), Reset: st.Reset}
		}
		c = get(cl, base, has(sc, "c:rst"))
		tg = get(hop, 0, has(sc, "t:rst"))
		cl.Close()
		hop.Close()
		w.Stop()
	})
	if fail != "" {
		return c, tg, errors.New(fail)
	}
	return c, tg, nil
}

func has(sc []string, e string) bool {
	for _, x := range sc {
		if x == e {
			return true
		}
	}
	return false
}

type failer struct{ s *string }

func (f failer) Failf(sig, format string, a ...any) {
	if *f.s == "" {
		*f.s = sig + ": " + fmt.Sprintf(format, a...)
	}
}
func (f failer) Failed() bool { return *f.s != "" }

// ---- real run ----------------------------------------------------------------------------------------------------

type realEnd struct {
	c   *net.TCPConn
	mu  sync.Mutex
	buf []byte
	eof bool
	rst bool
}

func (r *realEnd) pump() {
	b := make([]byte, 64<<10)
	for {
		n, err := r.c.Read(b)
		r.mu.Lock()
		r.buf = append(r.buf, b[:n]...)
		if err != nil {
			if errors.Is(err, io.EOF) {
				r.eof = true
			} else if errors.Is(err, syscall.ECONNRESET) {
				r.rst = true
			}
			r.mu.Unlock()
			return
		}
		r.mu.Unlock()
	}
}

func (r *realEnd) obs(base int) obs {
	r.mu.Lock()
	defer r.mu.Unlock()
	b := r.buf
	if len(b) < base {
		return obs{}
	}
	b = b[base:]
	return obs{N: len(b), Sum: sum(b), EOF: r.eof, Reset: r.rst}
}

func runReal(proxyAddr string, ln *net.TCPListener, sc []string, wantC, wantT obs, limit time.Duration) (c, tg obs, err error) {
	conn, err := net.Dial("tcp", proxyAddr)
	if err != nil {
		return c, tg, err
	}
	cl := &realEnd{c: conn.(*net.TCPConn)}
	taddr := ln.Addr().String()
	fmt.Fprintf(cl.c, "CONNECT %s HTTP/1.1\r\nHost: %s\r\n\r\n", taddr, taddr)
	ln.SetDeadline(time.Now().Add(5 * time.Second))
	tc, err := ln.AcceptTCP()
	if err != nil {
		cl.c.Close()
		return c, tg, fmt.Errorf("target not dialled: %w", err)
	}
	tgEnd := &realEnd{c: tc}
	go cl.pump()
	go tgEnd.pump()
	const head = "HTTP/1.1 200 OK\r\n\r\n"
	deadline := time.Now().Add(5 * time.Second)
	for cl.obs(0).N < len(head) && time.Now().Before(deadline) {
		time.Sleep(time.Millisecond)
	}
	if cl.obs(0).N < len(head) {
		return c, tg, fmt.Errorf("no 200 from the proxy")
	}
	for k, e := range sc {
		p := cl
		if e[0] == 't' {
			p = tgEnd
		}
		switch {
		case strings.HasSuffix(e, "fin"):
			p.c.CloseWrite()
		case strings.HasSuffix(e, "rst"):
			p.c.SetLinger(0)
			p.c.Close()
		default:
			p.c.SetWriteDeadline(time.Now().Add(5 * time.Second))
			p.c.Write(payload(e, k)) // a write towards a peer that has reset may fail: that is part of what is observed
		}
		// the simulated run lets the system settle after every event: do the same (events are ordered, not racing)
		time.Sleep(30 * time.Millisecond)
	}
	get := func() (obs, obs) {
		oc, ot := cl.obs(len(head)), tgEnd.obs(0)
		if has(sc, "c:rst") {
			oc = obs{}
		}
		if has(sc, "t:rst") {
			ot = obs{}
		}
		return oc, ot
	}
	deadline = time.Now().Add(limit)
	for {
		c, tg = get()
		if (c == wantC && tg == wantT) || time.Now().After(deadline) {
			break
		}
		time.Sleep(5 * time.Millisecond)
	}
	cl.c.Close()
	tgEnd.c.Close()
	return c, tg, nil
}

func TestConform(t *testing.T) {
	depth := 3
	if os.Getenv("VERIF_TIER") == "thorough" {
		depth = 4
	}
	all := scripts(depth)
	type exp struct{ c, t obs }
	want := make([]exp, len(all))
	for i, sc := range all {
		c, tg, err := runSim(t, sc)
		if err != nil {
			t.Fatalf("simulated run of %v: %v", sc, err)
		}
		want[i] = exp{c, tg}
	}
	// the real proxy on loopback (listen/dial seams off)
	forwarder.VerifListen, forwarder.VerifDial = nil, nil
	cfg := forwarder.DefaultHTTPProxyConfig()
	cfg.Address = "127.0.0.1:0"
	cfg.ProxyLocalhost = forwarder.AllowProxyLocalhost
	rt, err := forwarder.NewHTTPTransport(forwarder.DefaultHTTPTransportConfig())
	if err != nil {
		t.Fatal(err)
	}
	hp, err := forwarder.NewHTTPProxy(cfg, nil, nil, rt, (&world.MemLog{}).Named("proxy"), nil)
	if err != nil {
		t.Fatal(err)
	}
	ctx, cancel := context.WithCancel(context.Background())
	done := make(chan error, 1)
	go func() { done <- hp.Run(ctx) }()
	var addr string
	for i := 0; i < 500; i++ {
		if a, ok := hp.Addr(); ok && len(a) > 0 {
			addr = a[0]
			break
		}
		time.Sleep(10 * time.Millisecond)
	}
	if addr == "" {
		t.Fatal("real proxy did not start listening")
	}
	diverged := 0
	var mu sync.Mutex
	var wg sync.WaitGroup
	sem := make(chan struct{}, 16)
	for i, sc := range all {
		wg.Add(1)
		sem <- struct{}{}
		go func(i int, sc []string) {
			defer wg.Done()
			defer func() { <-sem }()
			l, err := net.ListenTCP("tcp", &net.TCPAddr{IP: net.IPv4(127, 0, 0, 1)})
			if err != nil {
				t.Errorf("listen: %v", err)
				return
			}
			defer l.Close()
			c, tg, err := runReal(addr, l, sc, want[i].c, want[i].t, 4*time.Second)
			mu.Lock()
			defer mu.Unlock()
			if err != nil {
				t.Errorf("real run of %v: %v", sc, err)
				return
			}
			if c != want[i].c || tg != want[i].t {
				diverged++
				fmt.Printf("DIVERGENCE script=%v\n  simulated: client %v | target %v\n  real:      client %v | target %v\n", sc, want[i].c, want[i].t, c, tg)
			}
		}(i, sc)
	}
	wg.Wait()
	cancel()
	<-done
	fmt.Printf("CONFORMANCE scripts=%d depth<=%d diverged=%d\n", len(all), depth, diverged)
}
