package c17

import (
	"fmt"
	"regexp"
	"testing"
	"time"

	"github.com/saucelabs/forwarder/internal/zzverif/explore"
	"github.com/saucelabs/forwarder/internal/zzverif/tsched"
	"github.com/saucelabs/forwarder/internal/zzverif/vsync"
	"github.com/saucelabs/forwarder/ruleset"
)

// concurrentMatchers (Engine T): one matcher (and its inverse) is used by two threads at once, as the
// proxy does for every connection; ruleset/regexp.go is rebuilt with a scheduling point before every
// statement, so every interleaving of the two Match calls within the preemption bound is explored. Each
// caller must get the verdict of its own host, and so must callers that come afterwards, one at a time.
func concurrentMatchers(t *testing.T, x *explore.X) {
	lists := [][]string{{`^a\.test$`}, {`\.test$`, `-^b\.test$`}, {`(?i)a`, `-x`}}
	strs := lists[x.ChooseFree("list", len(lists))]
	hostsT := []string{"a.test", "b.test", "xa.test", "other"}
	h := [2]string{hostsT[x.ChooseFree("host-0", len(hostsT))], hostsT[x.ChooseFree("host-1", len(hostsT))]}
	useInv := [2]bool{x.ChooseFree("thread-0-uses-inverse", 2) == 1, x.ChooseFree("thread-1-uses-inverse", 2) == 1}
	want := func(host string) bool {
		w := false
		for _, s := range strs {
			if s[0] != '-' && regexp.MustCompile(s).MatchString(host) {
				w = true
			}
		}
		for _, s := range strs {
			if s[0] == '-' && regexp.MustCompile(s[1:]).MatchString(host) {
				w = false
			}
		}
		return w
	}
	var m, inv *ruleset.RegexpMatcher
	var got [2]bool
	tsched.Run(t, x, time.Second, false, func() {
		var items []ruleset.RegexpListItem
		for _, s := range strs {
			it, err := ruleset.ParseRegexpListItem(s)
			if err != nil {
				x.Failf("parse-rejects-valid", "%q: %v", s, err)
				return
			}
			items = append(items, it)
		}
		var err error
		if m, err = ruleset.NewRegexpMatcherFromList(items); err != nil {
			x.Failf("valid-list-rejected", "%q: %v", strs, err)
			return
		}
		inv = m.Inverse()
		for i := 0; i < 2; i++ {
			vsync.GoNamed(fmt.Sprintf("Match(%s)#%d", h[i], i), func() {
				if useInv[i] {
					got[i] = !inv.Match(h[i])
				} else {
					got[i] = m.Match(h[i])
				}
			})
		}
	}, func(s *vsync.Scheduler) {
		x.Check()
		if m == nil {
			return
		}
		for i := 0; i < 2; i++ {
			if got[i] != want(h[i]) {
				x.Failf("concurrent-verdict", "list %q: thread %d asked about %q (through the inverse: %v) while thread %d asked about %q and was told %v, want %v\n  schedule: %v", strs, i, h[i], useInv[i], 1-i, h[1-i], got[i], want(h[i]), s.Trace)
				return
			}
		}
		for _, host := range hostsT {
			if g := m.Match(host); g != want(host) {
				x.Failf("verdict-after-concurrent-use", "list %q: after concurrent Match(%q) and Match(%q), Match(%q) = %v, want %v\n  schedule: %v", strs, h[0], h[1], host, g, want(host), s.Trace)
				return
			}
			if g := inv.Match(host); g != !want(host) {
				x.Failf("verdict-after-concurrent-use", "list %q: after concurrent use, Inverse().Match(%q) = %v, want %v", strs, host, g, !want(host))
				return
			}
		}
		x.Outcome(fmt.Sprintf("%v/%v", got[0], got[1]))
	})
}
