// C17: domain rule lists match exactly the union of includes minus the excludes.
// Engine E: exhaustive enumeration of rule lists x hosts against a per-rule reference.
package c17

import (
	"fmt"
	"github.com/saucelabs/forwarder/bind"
	"github.com/saucelabs/forwarder/utils/cobrautil"
	"github.com/spf13/cobra"
	"os"
	"path/filepath"
	"regexp"
	"strings"
	"testing"

	"github.com/saucelabs/forwarder/internal/zzverif/explore"
	"github.com/saucelabs/forwarder/ruleset"
)

var rules = []string{
	`a\.test`, `(?i)a\.test`, `^a`, `test$`, `a|b`, `(a|b)\.test`, `[ab]+$`, `a.*x`,
	`(?s)^.$`, `x{2}`, `(?i)^B`, `(?i:c)d`, `^$`, `(?U)a+`, `(?-i)T`, `\.`, `(?m)^b$`, `^(?i)x|y$`,
	// pure literals anchored at both ends / one end (an implementation may be tempted to treat literals specially)
	`^a\.test$`, `^b$`, `^a\.test`, `xx`,
	// quoting: an unterminated \Q quote runs to the end of the rule (valid on its own), a terminated one; a rule
	// that begins with a literal dash (as an exclude rule it is spelt with two dashes)
	`\Qa.te`, `\Q.\Ete`, `-x`,
}

var hosts = []string{
	"a.test", "A.TEST", "b.test", "B.test", "xa.testx", "ab", "xx", "XX", "", "cd", "CD", "Cd", "T", "t",
	"y", "Y", "x", "X", "b", "a\nb", "\n", "aax", "AAX", "xa.test", "a.test.evil", "bb", "axxb", "a-x.test", "-x",
}

// newMatcher builds the matcher; a panic (the list is made of rules that were each accepted) is a finding, not a crash of the check.
func newMatcher(x *explore.X, items []ruleset.RegexpListItem, strs []string) (m *ruleset.RegexpMatcher, err error) {
	defer func() {
		if r := recover(); r != nil {
			x.Failf("matcher-construction-panics", "list %q: every rule was accepted on its own, NewRegexpMatcherFromList panics: %v", strs, r)
		}
	}()
	return ruleset.NewRegexpMatcherFromList(items)
}

func TestC17(t *testing.T) {
	s := explore.NewSuite(t, "C17", "exploration",
		"every ordered list of <=L rules (L=2 quick, 3 thorough; plus L=4 over a 6-rule sub-alphabet in thorough) drawn from 25 regular expressions (incl. \\Q quoting, terminated and not, and a rule beginning with a literal dash) x {include, exclude}, each evaluated on 29 host strings through ruleset.ParseRegexpListItem + NewRegexpMatcherFromList (+Inverse) and compared with a reference that evaluates every rule on its own with package regexp; plus (list-lengths) every list of 1-40 include rules and 0-40 exclude rules, each rule matching exactly one host, checked on 42 hosts; plus (concurrent-matchers, Engine T) one matcher and its inverse used by two threads at once for 4x4 hosts over 3 lists, ruleset/regexp.go rebuilt with a scheduling point before every statement, every interleaving with at most 2 (quick) / 3 (thorough) preemptions, verdicts of the two callers and of every later sequential caller compared with the per-rule reference; plus (aged-matcher) every include rule x optional exclude rule on ONE matcher: the host alphabet, then N distinct other hosts (N in {300, 1100}, thorough also 4200 and 70000), then the alphabet forwards and backwards, every answer and its inverse compared with the memoryless reference; plus (rules-from-every-source) lists of 1-3 rules out of 5 (three of them containing a comma) given as one CSV flag value, as repeated flags and as a YAML list in a configuration file bound through cobrautil: the rules that arrive are the rules that were written; non-trivial = the list has at least one include rule so a matcher is built and compared; (several-lists, round 9) --deny-domains, --direct-domains and --mitm-domains of ONE command line / configuration file, each a list of 0-2 items out of {X, -X, Y, -Y}, in both orders, through bind + cobrautil: every item arrives in its own list with its own polarity")
	s.Assume = []string{"package regexp (used for the per-rule reference) is trusted"}
	compiled := make([]*regexp.Regexp, len(rules))
	for i, r := range rules {
		compiled[i] = regexp.MustCompile(r)
	}
	run := func(maxLen int, alphabet []int) func(x *explore.X) {
		return func(x *explore.X) {
			n := 1 + x.ChooseFree("len-1", maxLen)
			var items []ruleset.RegexpListItem
			var idx []int
			var excl []bool
			var strs []string
			hasInclude := false
			for i := 0; i < n; i++ {
				ri := alphabet[x.ChooseFree(fmt.Sprintf("rule%d", i), len(alphabet))]
				ex := x.ChooseFree(fmt.Sprintf("exclude%d", i), 2) == 1
				str := rules[ri]
				if !ex && strings.HasPrefix(str, "-") {
					x.Outcome("inadmissible") // a rule that begins with a dash cannot be written as an include rule
					return
				}
				if ex {
					str = "-" + str
				}
				it, err := ruleset.ParseRegexpListItem(str)
				if err != nil {
					x.Failf("parse-rejects-valid", "ParseRegexpListItem(%q): %v", str, err)
					return
				}
				if it.String() != str {
					x.Failf("roundtrip", "ParseRegexpListItem(%q).String() = %q", str, it.String())
				}
				items = append(items, it)
				idx = append(idx, ri)
				excl = append(excl, ex)
				strs = append(strs, str)
				if !ex {
					hasInclude = true
				}
			}
			x.Logf("list %q", strs)
			m, err := newMatcher(x, items, strs)
			if x.Failed() {
				return
			}
			if !hasInclude {
				if err == nil {
					x.Failf("no-include-accepted", "list %q without include rule accepted", strs)
				}
				x.Outcome("no-include")
				return
			}
			if err != nil {
				x.Failf("valid-list-rejected", "list %q: %v", strs, err)
				return
			}
			inv := m.Inverse()
			sig := ""
			for _, h := range hosts {
				want := false
				for i := range idx {
					if !excl[i] && compiled[idx[i]].MatchString(h) {
						want = true
					}
				}
				for i := range idx {
					if excl[i] && compiled[idx[i]].MatchString(h) {
						want = false
					}
				}
				x.Check()
				got := m.Match(h)
				if got != want {
					x.Failf("list-differs-from-per-rule-union", "list %q host %q: Match=%v, per-rule reference=%v", strs, h, got, want)
					return
				}
				if inv.Match(h) != !want {
					x.Failf("inverse", "list %q host %q: Inverse().Match=%v want %v", strs, h, inv.Match(h), !want)
					return
				}
				if inv.Inverse().Match(h) != want {
					x.Failf("inverse-inverse", "list %q host %q", strs, h)
					return
				}
				if want {
					sig += "1"
				} else {
					sig += "0"
				}
			}
			x.Outcome(sig)
			_ = strings.Join
		}
	}
	full := make([]int, len(rules))
	for i := range full {
		full[i] = i
	}
	s.Add(explore.Scenario{Name: "lists<=2", Tiers: []string{"quick"}, Run: run(2, full)})
	s.Add(explore.Scenario{Name: "lists<=3", Tiers: []string{"thorough"}, Run: run(3, full)})
	s.Add(explore.Scenario{Name: "lists<=4/flags", Tiers: []string{"thorough"}, Run: run(4, []int{0, 1, 4, 10, 14, 17})})
	// lists of every length: n include rules and m exclude rules, each matching exactly one host
	s.Add(explore.Scenario{Name: "list-lengths", Run: func(x *explore.X) {
		n := 1 + x.ChooseFree("include-rules-1", 40)
		m := x.ChooseFree("exclude-rules", 41)
		var items []ruleset.RegexpListItem
		for i := 0; i < n; i++ {
			it, _ := ruleset.ParseRegexpListItem(fmt.Sprintf(`^i%d\.test$`, i))
			items = append(items, it)
		}
		// the j-th exclude rule excludes host i<j> (an included host when j < n)
		for j := 0; j < m; j++ {
			it, _ := ruleset.ParseRegexpListItem(fmt.Sprintf(`-^i%d\.test$`, j))
			items = append(items, it)
		}
		mt, err := ruleset.NewRegexpMatcherFromList(items)
		if err != nil {
			x.Failf("valid-list-rejected", "%d include + %d exclude rules: %v", n, m, err)
			return
		}
		inv := mt.Inverse()
		x.Check()
		for i := 0; i < 42; i++ {
			h := fmt.Sprintf("i%d.test", i)
			want := i < n && !(i < m)
			if got := mt.Match(h); got != want {
				x.Failf("list-differs-from-per-rule-union/long-list", "%d include rules (^iK\\.test$ for K<%d) and %d exclude rules (K<%d): Match(%q) = %v, want %v", n, n, m, m, h, got, want)
				return
			}
			if inv.Match(h) != !want {
				x.Failf("inverse/long-list", "%d include + %d exclude rules: Inverse().Match(%q) = %v, want %v", n, m, h, inv.Match(h), !want)
				return
			}
		}
		x.Outcome(fmt.Sprintf("%d", min(n, 3)*10+min(m, 3)))
	}})
	// aged matcher: the verdict for a host must not depend on what the SAME matcher was asked before. One matcher
	// (and its inverse) answers the whole host alphabet, then N further distinct hosts (N beyond the capacity a
	// verdict cache could plausibly have), then the alphabet again forwards and backwards; every single answer is
	// compared with the per-rule reference, which has no memory.
	s.Add(explore.Scenario{Name: "aged-matcher", Run: func(x *explore.X) {
		inc := x.ChooseFree("include", len(rules))
		exc := x.ChooseFree("exclude", len(rules)+1) - 1
		if strings.HasPrefix(rules[inc], "-") {
			x.Outcome("inadmissible")
			return
		}
		fillers := []int{300, 1100, 4200, 70000}
		if os.Getenv("VERIF_TIER") != "thorough" {
			fillers = fillers[:2]
		}
		n := fillers[x.ChooseFree("lookups-in-between", len(fillers))]
		strs := []string{rules[inc]}
		if exc >= 0 {
			strs = append(strs, "-"+rules[exc])
		}
		var items []ruleset.RegexpListItem
		for _, str := range strs {
			it, err := ruleset.ParseRegexpListItem(str)
			if err != nil {
				x.Failf("parse-rejects-valid", "ParseRegexpListItem(%q): %v", str, err)
				return
			}
			items = append(items, it)
		}
		m, err := newMatcher(x, items, strs)
		if x.Failed() {
			return
		}
		if err != nil {
			x.Failf("valid-list-rejected", "list %q: %v", strs, err)
			return
		}
		inv := m.Inverse()
		want := func(h string) bool {
			return compiled[inc].MatchString(h) && !(exc >= 0 && compiled[exc].MatchString(h))
		}
		asked := 0
		ask := func(h, phase string) bool {
			asked++
			x.Check()
			if got, w := m.Match(h), want(h); got != w {
				x.Failf("verdict-depends-on-history", "list %q: lookup %d on one matcher (%s), host %q: Match=%v, per-rule reference=%v", strs, asked, phase, h, got, w)
				return false
			}
			if got, w := inv.Match(h), !want(h); got != w {
				x.Failf("verdict-depends-on-history/inverse", "list %q: lookup %d on one matcher (%s), host %q: Inverse().Match=%v, want %v", strs, asked, phase, h, got, w)
				return false
			}
			return true
		}
		for _, h := range hosts {
			if !ask(h, "first pass over the alphabet") {
				return
			}
		}
		for i := 0; i < n; i++ {
			if !ask(fmt.Sprintf("filler-%d.example.test", i), "distinct hosts in between") {
				return
			}
		}
		for _, h := range hosts {
			if !ask(h, fmt.Sprintf("alphabet again after %d other hosts", n)) {
				return
			}
		}
		for i := len(hosts) - 1; i >= 0; i-- {
			if !ask(hosts[i], "alphabet backwards") {
				return
			}
		}
		x.Outcome(fmt.Sprintf("%v/%v", want(hosts[0]), exc >= 0))
	}})
	// rules-from-every-source: the same list of rules - including rules that contain a comma, as every {m,n}
	// repetition does - given on the command line (one CSV-quoted flag value), as repeated flags and as a YAML list in a
	// configuration file (bound through cobrautil exactly as the commands do it) yields the same rules, each taken
	// on its own.
	commaRules := []string{`^ad[0-9]{1,3}\.test$`, `-^cdn[a-c]{2,}\.test$`, `^plain\.test$`, `x{2}`, `-^a,b$`}
	s.Add(explore.Scenario{Name: "rules-from-every-source", Run: func(x *explore.X) {
		n := 1 + x.ChooseFree("rules-1", 3)
		var list []string
		for i := 0; i < n; i++ {
			list = append(list, commaRules[x.ChooseFree(fmt.Sprintf("rule%d", i), len(commaRules))])
		}
		source := []string{"one-flag-csv", "repeated-flags", "yaml-config-file"}[x.ChooseFree("source", 3)]
		flagName := []string{"deny-domains", "direct-domains"}[x.ChooseFree("flag", 2)]
		var got []ruleset.RegexpListItem
		cmd := &cobra.Command{Use: "t", RunE: func(*cobra.Command, []string) error { return nil }}
		if flagName == "deny-domains" {
			bind.DenyDomains(cmd.Flags(), &got)
		} else {
			bind.DirectDomains(cmd.Flags(), &got)
		}
		cmd.Flags().String("config-file", "", "")
		var args []string
		switch source {
		case "one-flag-csv":
			var q []string
			for _, r := range list {
				q = append(q, `"`+strings.ReplaceAll(r, `"`, `""`)+`"`)
			}
			args = []string{"--" + flagName, strings.Join(q, ",")}
		case "repeated-flags":
			for _, r := range list {
				args = append(args, "--"+flagName, `"`+r+`"`)
			}
		case "yaml-config-file":
			dir, err := os.MkdirTemp("", "c17cfg")
			if err != nil {
				x.Failf("harness/config-file", "%v", err)
				return
			}
			defer os.RemoveAll(dir)
			f := filepath.Join(dir, "config.yaml")
			var sb strings.Builder
			sb.WriteString(flagName + ":\n")
			for _, r := range list {
				sb.WriteString("  - '" + strings.ReplaceAll(r, "'", "''") + "'\n")
			}
			if err := os.WriteFile(f, []byte(sb.String()), 0o600); err != nil {
				x.Failf("harness/config-file", "%v", err)
				return
			}
			args = []string{"--config-file", f}
		}
		cmd.SetArgs(args)
		cmd.PreRunE = func(c *cobra.Command, _ []string) error { return cobrautil.BindAll(c, "VERIFTEST", "config-file") }
		cmd.SilenceErrors, cmd.SilenceUsage = true, true
		x.Check()
		if err := cmd.Execute(); err != nil {
			x.Failf("rules-from-source/rejected", "rules %q given as %s: %v", list, source, err)
			return
		}
		var gs []string
		for _, it := range got {
			gs = append(gs, it.String())
		}
		if strings.Join(gs, "\x00") != strings.Join(list, "\x00") {
			x.Failf("rules-from-source/differ", "rules %q given as %s (%s) arrive as %q", list, source, flagName, gs)
		}
		x.Outcome(fmt.Sprintf("%s/%d", source, n))
	}})
	// several-lists (round 9): the three domain lists of one command line / configuration file are independent of each
	// other: the same expression may be an include in one list and an exclude in another (or in the same one); every
	// item arrives in its own list with its own polarity, whatever was parsed before it.
	exprs := []string{`^a\.test$`, `b\.test$`}
	items := []string{exprs[0], "-" + exprs[0], exprs[1], "-" + exprs[1]}
	s.Add(explore.Scenario{Name: "several-lists", Run: func(x *explore.X) {
		pick := func(name string) []string {
			n := x.ChooseFree(name+"-rules", 3) // 0..2
			var l []string
			for i := 0; i < n; i++ {
				l = append(l, items[x.ChooseFree(fmt.Sprintf("%s-rule%d", name, i), len(items))])
			}
			return l
		}
		lists := map[string][]string{"deny-domains": pick("deny"), "direct-domains": pick("direct"), "mitm-domains": pick("mitm")}
		source := []string{"flags", "yaml-config-file"}[x.ChooseFree("source", 2)]
		order := [][]string{{"deny-domains", "direct-domains", "mitm-domains"}, {"mitm-domains", "direct-domains", "deny-domains"}}[x.ChooseFree("order-on-the-command-line", 2)]
		got := map[string]*[]ruleset.RegexpListItem{"deny-domains": {}, "direct-domains": {}, "mitm-domains": {}}
		cmd := &cobra.Command{Use: "t", RunE: func(*cobra.Command, []string) error { return nil }}
		bind.DenyDomains(cmd.Flags(), got["deny-domains"])
		bind.DirectDomains(cmd.Flags(), got["direct-domains"])
		bind.MITMDomains(cmd.Flags(), got["mitm-domains"])
		cmd.Flags().String("config-file", "", "")
		var args []string
		if source == "flags" {
			for _, name := range order {
				for _, r := range lists[name] {
					args = append(args, "--"+name, `"`+r+`"`)
				}
			}
		} else {
			dir, err := os.MkdirTemp("", "c17cfg")
			if err != nil {
				x.Failf("harness/config-file", "%v", err)
				return
			}
			defer os.RemoveAll(dir)
			f := filepath.Join(dir, "config.yaml")
			var sb strings.Builder
			for _, name := range order {
				if len(lists[name]) == 0 {
					continue
				}
				sb.WriteString(name + ":\n")
				for _, r := range lists[name] {
					sb.WriteString("  - '" + r + "'\n")
				}
			}
			if err := os.WriteFile(f, []byte(sb.String()), 0o600); err != nil {
				x.Failf("harness/config-file", "%v", err)
				return
			}
			args = []string{"--config-file", f}
		}
		cmd.SetArgs(args)
		cmd.PreRunE = func(c *cobra.Command, _ []string) error { return cobrautil.BindAll(c, "VERIFTEST", "config-file") }
		cmd.SilenceErrors, cmd.SilenceUsage = true, true
		x.Check()
		if err := cmd.Execute(); err != nil {
			x.Failf("several-lists/rejected", "lists %v given as %s: %v", lists, source, err)
			return
		}
		for _, name := range order {
			var gs []string
			for _, it := range *got[name] {
				gs = append(gs, it.String())
			}
			if strings.Join(gs, "\x00") != strings.Join(lists[name], "\x00") {
				x.Failf("several-lists/differ", "--%s %q (next to %v, given as %s in the order %v) arrives as %q", name, lists[name], lists, source, order, gs)
			}
		}
		x.Outcome(fmt.Sprintf("%s/%d%d%d", source, len(lists["deny-domains"]), len(lists["direct-domains"]), len(lists["mitm-domains"])))
	}})
	s.Add(explore.Scenario{Name: "concurrent-matchers", Remote: true, MaxDev: map[string]int{"quick": 2, "thorough": 3},
		Run: func(x *explore.X) { concurrentMatchers(t, x) }})
	s.Main()
}
