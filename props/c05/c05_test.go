// C05: every request is routed through exactly the upstream the configuration selects.
// Engine S: configuration (upstream none/static/PAC result x direct-domains x proxy-localhost mode
// x connect-to rules) x target x request kind; a reference computes the hop and the address that must
// be dialled; the in-memory network shows which endpoint was contacted and what it received first.
package c05

import (
	"crypto/tls"
	"crypto/x509"
	"fmt"
	"github.com/saucelabs/forwarder/internal/zzverif/simnet"
	"net"
	"os"
	"regexp"
	"strings"
	"testing"
	"time"

	"github.com/saucelabs/forwarder"
	"github.com/saucelabs/forwarder/internal/zzverif/explore"
	"github.com/saucelabs/forwarder/internal/zzverif/httpwire"
	"github.com/saucelabs/forwarder/internal/zzverif/world"
)

type hopKind int

const (
	direct hopKind = iota
	httpProxy
	httpsProxy
	socks5Proxy
	failRoute // the request must fail without choosing another route
	refused   // localhost denial (403)
)

func (k hopKind) String() string {
	return [...]string{"direct", "http-proxy", "https-proxy", "socks5-proxy", "fail", "refused"}[k]
}

type upstreamDef struct {
	name   string
	static string
	pac    string // PAC result expression (JS) or full script when it starts with "function"
	kind   hopKind
	addr   string
	// hostDependent: proxy only for origin.test
	hostDependent bool
}

func pacReturning(s string) string {
	return "function FindProxyForURL(url, host) { return " + s + "; }"
}

var upstreams = []upstreamDef{
	{name: "none", kind: direct},
	{name: "static-http", static: "http://up.test:8080", kind: httpProxy, addr: "up.test:8080"},
	{name: "static-https", static: "https://ups.test:8443", kind: httpsProxy, addr: "ups.test:8443"},
	{name: "static-socks5", static: "socks5://socks.test:1080", kind: socks5Proxy, addr: "socks.test:1080"},
	{name: "pac-DIRECT", pac: pacReturning(`"DIRECT"`), kind: direct},
	{name: "pac-empty", pac: pacReturning(`""`), kind: direct},
	{name: "pac-PROXY", pac: pacReturning(`"PROXY up.test:8080"`), kind: httpProxy, addr: "up.test:8080"},
	{name: "pac-HTTP", pac: pacReturning(`"HTTP up.test:8080"`), kind: httpProxy, addr: "up.test:8080"},
	{name: "pac-HTTPS", pac: pacReturning(`"HTTPS ups.test:8443"`), kind: httpsProxy, addr: "ups.test:8443"},
	{name: "pac-SOCKS5", pac: pacReturning(`"SOCKS5 socks.test:1080"`), kind: socks5Proxy, addr: "socks.test:1080"},
	{name: "pac-SOCKS", pac: pacReturning(`"SOCKS socks.test:1080"`), kind: failRoute},
	{name: "pac-SOCKS4", pac: pacReturning(`"SOCKS4 socks.test:1080"`), kind: failRoute},
	{name: "pac-unknown-keyword", pac: pacReturning(`"FOO up.test:8080"`), kind: direct},
	{name: "pac-no-port", pac: pacReturning(`"PROXY up.test"`), kind: failRoute},
	{name: "pac-two-entries", pac: pacReturning(`"PROXY up.test:8080; PROXY b.test:2"`), kind: httpProxy, addr: "up.test:8080"},
	{name: "pac-spaces-then-direct", pac: pacReturning(`"  PROXY up.test:8080 ;DIRECT"`), kind: httpProxy, addr: "up.test:8080"},
	{name: "pac-direct-then-proxy", pac: pacReturning(`"DIRECT; PROXY up.test:8080"`), kind: direct},
	{name: "pac-throws", pac: `function FindProxyForURL(url, host) { throw new Error("boom"); }`, kind: failRoute},
	{name: "pac-non-string", pac: pacReturning(`5`), kind: failRoute},
	{name: "pac-host-dependent", pac: `function FindProxyForURL(url, host) { if (host == "origin.test") return "PROXY up.test:8080"; return "DIRECT"; }`, kind: httpProxy, addr: "up.test:8080", hostDependent: true},
	{name: "pac-ipv6-proxy", pac: pacReturning(`"PROXY [2001:db8::2]:8080"`), kind: httpProxy, addr: "[2001:db8::2]:8080"},
}

type directDomainsDef struct {
	name  string
	rules []string
	match func(host string) bool
}

var directDomains = []directDomainsDef{
	{"none", nil, func(string) bool { return false }},
	{"include-origin", []string{`^origin\.test$`}, func(h string) bool { return h == "origin.test" }},
	{"include-all-exclude-origin", []string{`\.test$`, `-^origin\.test$`}, func(h string) bool {
		return regexp.MustCompile(`\.test$`).MatchString(h) && h != "origin.test"
	}},
	{"include-other", []string{`^other\.test$`}, func(h string) bool { return h == "other.test" }},
	// a rule with an inline flag in front of a rule without: the flag belongs to its own rule
	{"case-insensitive-other-then-origin", []string{`(?i)^other\.test$`, `^origin\.test$`}, func(h string) bool {
		return strings.EqualFold(h, "other.test") || h == "origin.test"
	}},
}

type pair struct{ sh, sp, dh, dp string }

var connectTo = []struct {
	name  string
	rules []pair
}{
	{"none", nil},
	{"host+port", []pair{{"origin.test", "80", "redir.test", "9000"}}},
	{"any-host+port80", []pair{{"", "80", "redir.test", ""}}},
	{"proxy-host-any-port", []pair{{"up.test", "", "redir.test", "9000"}}},
	{"empty-dst-host", []pair{{"origin.test", "80", "", "9001"}}},
	{"first-match-wins", []pair{{"", "80", "redir.test", "9000"}, {"origin.test", "80", "other.test", "1"}}},
	{"second-rule-matches", []pair{{"nomatch.test", "80", "other.test", "1"}, {"origin.test", "", "redir.test", ""}}},
	{"https-port", []pair{{"", "443", "redir.test", "9000"}, {"", "8443", "redir.test", "9001"}}},
	// (round 9) a rule written with upper-case letters applies to a hop written the same way (rules are configuration
	// text: whatever the option parser does to them, it must do to nothing or to both sides of the comparison)
	{"upper-case-source", []pair{{"ORIGIN.TEST", "80", "redir.test", "9000"}, {"ORIGIN.TEST", "443", "redir.test", "9001"}}},
	// chained rules: the mapping is applied once, never to its own result
	{"swap", []pair{{"origin.test", "80", "redir.test", "9000"}, {"redir.test", "9000", "origin.test", "80"}, {"up.test", "8080", "b.test", "2"}, {"b.test", "2", "up.test", "8080"}}},
}

func applyConnectTo(rules []pair, addr string) string {
	h, p, err := net.SplitHostPort(addr)
	if err != nil {
		return addr
	}
	for _, r := range rules {
		if (r.sh == "" || r.sh == h) && (r.sp == "" || r.sp == p) {
			nh, np := r.dh, r.dp
			if nh == "" {
				nh = h
			}
			if np == "" {
				np = p
			}
			return net.JoinHostPort(nh, np)
		}
	}
	return addr
}

type targetDef struct {
	name, host, port string
	localhost        bool
}

var targets = []targetDef{
	{"origin", "origin.test", "", false},
	{"origin:8080", "origin.test", "8080", false},
	{"localhost", "localhost", "", true},
	{"ipv6-literal", "2001:db8::1", "", false},
	{"other", "other.test", "", false},
	{"loopback-ip", "127.0.0.1", "", true},
	// other spellings of a name: the rule lists are regular expressions on the host as the client wrote it
	{"origin-upper-case", "ORIGIN.TEST", "", false},
	{"origin-trailing-dot", "origin.test.", "", false},
}

// normDial is the spelling under which the simulated network records a dialled address (names are
// case-insensitive and a trailing dot is the same name).
func normDial(addr string) string {
	h, p, err := net.SplitHostPort(addr)
	if err != nil {
		return strings.ToLower(addr)
	}
	return net.JoinHostPort(strings.TrimSuffix(strings.ToLower(h), "."), p)
}

func bracket(h string) string {
	if strings.Contains(h, ":") {
		return "[" + h + "]"
	}
	return h
}

type route struct {
	kind   hopKind
	dial   string // address that must be dialled (after connect-to)
	target string // host:port the request is for
}

func expectRoute(up upstreamDef, dd directDomainsDef, mode forwarder.ProxyLocalhostMode, ct []pair, tg targetDef, kind int) route {
	port := tg.port
	if port == "" {
		port = "80"
		if kind != 0 {
			port = "443"
		}
	}
	target := net.JoinHostPort(tg.host, port)
	if tg.localhost && mode == forwarder.DenyProxyLocalhost {
		return route{kind: refused, target: target}
	}
	r := route{kind: direct, target: target}
	configured := up.static != "" || up.pac != ""
	if configured {
		switch {
		case tg.localhost && mode == forwarder.DirectProxyLocalhost:
		case dd.match(tg.host):
		case up.hostDependent && tg.host != "origin.test":
		default:
			r.kind = up.kind
		}
	}
	switch r.kind {
	case direct:
		r.dial = applyConnectTo(ct, target)
	case httpProxy, httpsProxy, socks5Proxy:
		r.dial = applyConnectTo(ct, up.addr)
	}
	return r
}

var allHosts = []string{"origin.test", "localhost", "2001:db8::1", "2001:db8::2", "127.0.0.1", "up.test", "ups.test", "socks.test", "b.test", "redir.test", "other.test", "envproxy.test"}

// The process environment names a proxy (as the environment of a real deployment often does): routing is decided by
// the proxy's own configuration (--proxy, --pac, --direct-domains ...), never by HTTP_PROXY / HTTPS_PROXY / ALL_PROXY.
func init() {
	for _, k := range []string{"HTTP_PROXY", "HTTPS_PROXY", "ALL_PROXY", "http_proxy", "https_proxy", "all_proxy"} {
		os.Setenv(k, "http://envproxy.test:8080")
	}
	os.Unsetenv("NO_PROXY")
	os.Unsetenv("no_proxy")
}

var allPorts = []string{"80", "8080", "443", "8443", "1080", "2", "9000", "9001", "1"}

func scenario(x *explore.X, product int) {
	free := x.Choose
	if product != 0 {
		free = x.ChooseFree
	}
	cfgFree, ctFree := x.Choose, x.Choose
	if product == 1 {
		cfgFree = x.ChooseFree
	}
	if product == 3 {
		ctFree = x.ChooseFree
	}
	ups := upstreams
	if product == 4 {
		// (quick tier: the full product of the routing dimensions over three upstream selections)
		ups = []upstreamDef{upstreams[1], upstreams[6], upstreams[19]}
		cfgFree = x.ChooseFree
	}
	up := ups[free("upstream", len(ups))]
	dd := directDomains[cfgFree("direct-domains", len(directDomains))]
	mode := []forwarder.ProxyLocalhostMode{forwarder.DenyProxyLocalhost, forwarder.AllowProxyLocalhost, forwarder.DirectProxyLocalhost}[cfgFree("proxy-localhost", 3)]
	c := connectTo[ctFree("connect-to", len(connectTo))]
	ct, ctName := c.rules, c.name
	tg := targets[free("target", len(targets))]
	kind := free("kind", 3) // 0 plain HTTP, 1 CONNECT, 2 inside MITM

	opts := world.Options{Upstream: up.static, PAC: up.pac, DirectDomains: dd.rules, ProxyLocalhost: mode}
	for _, r := range ct {
		opts.ConnectTo = append(opts.ConnectTo, fmt.Sprintf("%s:%s:%s:%s", bracket(r.sh), r.sp, bracket(r.dh), r.dp))
	}
	pki := world.NewPKI("harness CA")
	opts.TransportCAPEM = pki.CAPEM
	if kind == 2 {
		opts.MITM = true
	}
	w, err := world.Start(opts)
	if err != nil {
		x.Failf("harness/start", "%v (connect-to %v)", err, opts.ConnectTo)
		return
	}
	want := expectRoute(up, dd, mode, ct, tg, kind)
	// the first connection attempt to the right party may fail (refused) and be retried: the retry goes to the same party
	firstFails := x.Choose("first-dial-attempt-refused", 2) == 1 && want.dial != ""
	if firstFails {
		w.Net.Plan[normDial(want.dial)] = simnet.RefuseOnce
	}
	x.Logf("upstream=%s direct-domains=%s localhost-mode=%s connect-to=%s target=%s kind=%d => %s dial %s", up.name, dd.name, mode, ctName, tg.name, kind, want.kind, want.dial)

	servers := map[string]*world.Server{}
	for _, h := range allHosts {
		for _, p := range allPorts {
			a := net.JoinHostPort(h, p)
			s, err := w.Server(a)
			if err != nil {
				x.Failf("harness/listen", "%s: %v", a, err)
				return
			}
			servers[a] = s
		}
	}
	raw, _ := w.Client()
	var cl world.Stream = raw
	authority := bracket(tg.host)
	if tg.port != "" {
		authority += ":" + tg.port
	}
	connectAuthority := want.target
	switch kind {
	case 0:
		cl.Send([]byte("GET http://" + authority + "/x HTTP/1.1\r\nHost: " + authority + "\r\n\r\n"))
	case 1:
		cl.Send([]byte("CONNECT " + connectAuthority + " HTTP/1.1\r\nHost: " + connectAuthority + "\r\n\r\n"))
	case 2:
		raw.Send([]byte("CONNECT " + connectAuthority + " HTTP/1.1\r\nHost: " + connectAuthority + "\r\n\r\n"))
		got := string(raw.Recv())
		if want.kind == refused {
			break
		}
		if got != "HTTP/1.1 200 OK\r\n\r\n" {
			x.Failf("mitm/connect-reply", "CONNECT answered with %q", got)
			return
		}
		pool := x509.NewCertPool()
		pool.AddCert(w.Proxy.MITMCACert())
		tc := world.TLSClient(raw, &tls.Config{RootCAs: pool, ServerName: tg.host})
		if done, err := tc.Handshake(); !done || err != nil {
			x.Failf("mitm/handshake", "done=%v err=%v", done, err)
			return
		}
		cl = tc
		cl.Send([]byte("GET /x HTTP/1.1\r\nHost: " + authority + "\r\n\r\n"))
	}
	world.Settle(100 * time.Millisecond)
	if firstFails {
		world.Settle(5 * time.Second) // the retry waits on the virtual clock
	}

	// Which endpoints were contacted?
	var contacted []string
	var hopPeer *world.Peer
	for a, s := range servers {
		if n := s.L.Accepted(); n > 0 {
			contacted = append(contacted, fmt.Sprintf("%s(x%d)", a, n))
			if a == normDial(want.dial) && hopPeer == nil {
				hopPeer = s.Accept()
			}
		}
	}
	x.Check()
	sigClass := up.name
	fail := func(sig, format string, a ...any) {
		x.Failf(sig, "%s\n  config: upstream=%s direct-domains=%s localhost-mode=%s connect-to=%s target=%s kind=%d; expected %s via %s\n  contacted: %v; dial log: %v",
			fmt.Sprintf(format, a...), up.name, dd.name, mode, ctName, tg.name, kind, want.kind, want.dial, contacted, w.Net.Dials())
	}
	switch want.kind {
	case failRoute, refused:
		if len(w.Net.Dials()) != 0 {
			sig := "failed-route-but-dialled/" + sigClass
			fail(sig, "the request must fail (%s) without contacting anybody", want.kind)
		}
		if kind != 2 || want.kind == failRoute {
			methods := []string{"GET"}
			if kind == 1 {
				methods = []string{"CONNECT"}
			}
			rs := httpwire.ParseResponses(cl.Recv(), methods, false)
			if len(rs.Msgs) != 1 || rs.Msgs[0].Status < 400 {
				fail("failed-route-no-error-response/"+sigClass, "client got %q, want an error response", world.Clip(cl.Recv()))
			} else if want.kind == refused && rs.Msgs[0].Status != 403 {
				fail("refused-status", "status %d, want 403", rs.Msgs[0].Status)
			}
		}
	default:
		ds := w.Net.Dials()
		if firstFails {
			// every attempt goes to the right party; the first is refused, exactly one connects
			okAttempts := len(ds) >= 2 && ds[0].Outcome == "refused" && ds[len(ds)-1].Outcome == "connected"
			for _, d := range ds {
				if d.Addr != normDial(want.dial) {
					okAttempts = false
				}
			}
			if !okAttempts || len(contacted) != 1 {
				fail("wrong-party-contacted/after-a-refused-attempt", "the first attempt to %s is refused: every attempt must go there and one must connect", want.dial)
				break
			}
			ds = ds[len(ds)-1:]
		}
		if len(ds) != 1 || ds[0].Addr != normDial(want.dial) || ds[0].Outcome != "connected" || len(contacted) != 1 {
			fail("wrong-party-contacted", "want exactly one connection, to %s", want.dial)
			break
		}
		checkHop(x, w, want, kind, hopPeer, cl, pki, authority, fail)
	}
	x.Outcome(fmt.Sprintf("%s kind%d %s", want.kind, kind, map[bool]string{true: "redirected", false: "plain"}[len(ct) > 0 && want.dial != "" && applyConnectTo(nil, want.dial) != applyConnectTo(ct, want.dial)]))
	cl.Close()
	if hopPeer != nil {
		hopPeer.Close()
	}
	if err := w.Stop(); err != nil {
		x.Failf("shutdown", "%v", err)
	}
	for _, s := range servers {
		for {
			p := s.Accept()
			if p == nil {
				break
			}
			p.Close()
		}
	}
	if l := world.Leaks(); l != "" {
		x.Failf("goroutine-leak", "%s", l)
	}
}

// checkHop verifies what the contacted endpoint received first and drives the minimal protocol of its kind.
func checkHop(x *explore.X, w *world.World, want route, kind int, hop *world.Peer, cl world.Stream, pki *world.PKI,
	authority string, fail func(sig, format string, a ...any)) {
	if hop == nil {
		fail("harness/hop", "no connection object for %s", want.dial)
		return
	}
	var hs world.Stream = hop
	if want.kind == httpsProxy {
		b := hop.C.Status()
		_ = b
		tp := world.TLSServer(hop, &tls.Config{Certificates: []tls.Certificate{pki.Leaf([]string{"ups.test"}, -time.Hour, time.Hour)}})
		if done, err := tp.Handshake(); !done || err != nil {
			fail("https-proxy/handshake", "TLS handshake of the proxy with the HTTPS upstream proxy: done=%v err=%v", done, err)
			return
		}
		hs = tp
	}
	switch want.kind {
	case socks5Proxy:
		s := &world.Socks5{}
		payload := s.Step(hop)
		if s.Err != "" || !s.Established() {
			fail("socks5/handshake", "SOCKS5 handshake at the hop: %s (received % x)", s.Err, hop.Recv())
			return
		}
		if s.Target != want.target {
			fail("socks5/target", "SOCKS5 request for %q, want %q", s.Target, want.target)
		}
		if kind == 0 {
			payload = s.Step(hop)
			if !strings.HasPrefix(string(payload), "GET /x HTTP/1.1\r\n") {
				fail("socks5/payload", "payload through SOCKS5 starts with %q", world.Clip(payload))
			}
		}
	case httpProxy, httpsProxy:
		rq := httpwire.ParseRequests(hs.Recv())
		if len(rq.Msgs) < 1 {
			fail("proxy-hop/no-request", "upstream proxy received %q", world.Clip(hs.Recv()))
			return
		}
		m := rq.Msgs[0]
		if kind == 0 {
			if m.Method != "GET" || m.Target != "http://"+authority+"/x" {
				fail("proxy-hop/request-line", "upstream proxy received %q, want GET http://%s/x", m.StartLine, authority)
			}
		} else {
			if m.Method != "CONNECT" || m.Target != want.target {
				fail("proxy-hop/connect-line", "upstream proxy received %q, want CONNECT %s", m.StartLine, want.target)
			}
			if h := m.Get("Host"); len(h) != 1 || h[0] != want.target {
				fail("proxy-hop/connect-host", "CONNECT Host %q, want %q", h, want.target)
			}
		}
	case direct:
		switch kind {
		case 0:
			rq := httpwire.ParseRequests(hs.Recv())
			if len(rq.Msgs) != 1 || rq.Msgs[0].Target != "/x" || len(rq.Msgs[0].Get("Host")) != 1 || rq.Msgs[0].Get("Host")[0] != authority {
				fail("direct/request", "origin received %q, want GET /x with Host %s", world.Clip(hs.Recv()), authority)
			}
		case 1:
			if n := len(hs.Recv()); n != 0 {
				fail("direct/connect-bytes", "target of a CONNECT received %d bytes before the client sent any", n)
			}
			rs := httpwire.ParseResponses(cl.Recv(), []string{"CONNECT"}, false)
			if len(rs.Msgs) != 1 || rs.Msgs[0].Status != 200 {
				fail("direct/connect-reply", "client got %q", world.Clip(cl.Recv()))
				return
			}
			cl.Send([]byte("PING"))
			if string(hs.Recv()) != "PING" {
				fail("direct/tunnel", "target received %q, want PING", hs.Recv())
			}
		case 2:
			if b := hs.Recv(); len(b) == 0 || b[0] != 0x16 {
				fail("direct/tls", "origin of a MITM'd request received %q, want a TLS ClientHello", world.Clip(b))
			}
		}
	}
}

// ---- routing is a function of the configuration and the request alone: sequences on one proxy ----------------------

const historyPAC = `function FindProxyForURL(url, host) {
  if (url.indexOf(":8443") > 0) return "PROXY up.test:8080";
  if (url.indexOf(":8080") > 0) return "PROXY b.test:2";
  if (url.indexOf(":443") > 0) return "DIRECT";
  if (url.indexOf("/direct") > 0) return "DIRECT";
  if (host == "other.test") return "DIRECT";
  if (host == "legacy.test") return "SOCKS4 socks.test:1080";
  return "PROXY up.test:8080";
}`

var historyRequests = []struct {
	name, head, dial string
	reply            string // what the contacted party answers ("" = the proxy answers the client itself)
}{
	{"GET origin.test/x", "GET http://origin.test/x HTTP/1.1\r\nHost: origin.test\r\n\r\n", "up.test:8080", "HTTP/1.1 200 OK\r\nContent-Length: 0\r\nConnection: close\r\n\r\n"},
	{"GET origin.test/direct", "GET http://origin.test/direct HTTP/1.1\r\nHost: origin.test\r\n\r\n", "origin.test:80", "HTTP/1.1 200 OK\r\nContent-Length: 0\r\nConnection: close\r\n\r\n"},
	{"GET origin.test:8080/x", "GET http://origin.test:8080/x HTTP/1.1\r\nHost: origin.test:8080\r\n\r\n", "b.test:2", "HTTP/1.1 200 OK\r\nContent-Length: 0\r\nConnection: close\r\n\r\n"},
	{"CONNECT origin.test:443", "CONNECT origin.test:443 HTTP/1.1\r\nHost: origin.test:443\r\n\r\n", "origin.test:443", ""},
	{"CONNECT origin.test:8443", "CONNECT origin.test:8443 HTTP/1.1\r\nHost: origin.test:8443\r\n\r\n", "up.test:8080", "HTTP/1.1 200 OK\r\n\r\n"},
	{"GET other.test/x", "GET http://other.test/x HTTP/1.1\r\nHost: other.test\r\n\r\n", "other.test:80", "HTTP/1.1 200 OK\r\nContent-Length: 0\r\nConnection: close\r\n\r\n"},
	// origin-form on the plain listener: the proxy completes the URL itself (http://origin.test/x)
	{"GET /x Host: origin.test", "GET /x HTTP/1.1\r\nHost: origin.test\r\n\r\n", "up.test:8080", "HTTP/1.1 200 OK\r\nContent-Length: 0\r\nConnection: close\r\n\r\n"},
	// an intercepted session (mitm-domains = mitm.test only): CONNECT, TLS handshake with the proxy, one request inside
	// (the request inside is https://mitm.test/in - no port in the URL - so the script's last line applies: through up.test:8080)
	{"MITM session mitm.test:443", "CONNECT mitm.test:443 HTTP/1.1\r\nHost: mitm.test:443\r\n\r\n", "up.test:8080", "mitm"},
	// a recognised but unsupported proxy type: the request fails, nobody is contacted - the first time and every time
	{"GET legacy.test/x (PAC: SOCKS4, unsupported)", "GET http://legacy.test/x HTTP/1.1\r\nHost: legacy.test\r\n\r\n", "", ""},
}

// historyScenario: one proxy whose PAC script answers by URL (port, path) and host; every sequence of n
// requests; each request must be routed by its own URL whatever was requested before.
func historyScenario(x *explore.X, n int) {
	var seq []int
	for i := 0; i < n; i++ {
		seq = append(seq, x.ChooseFree(fmt.Sprintf("request-%d", i), len(historyRequests)))
	}
	w, err := world.Start(world.Options{PAC: historyPAC, MITM: true, MITMDomains: []string{`^mitm\.test$`}})
	if err != nil {
		x.Failf("harness/start", "%v", err)
		return
	}
	servers := map[string]*world.Server{}
	for _, a := range []string{"up.test:8080", "origin.test:80", "origin.test:8080", "origin.test:443", "origin.test:8443", "b.test:2", "other.test:80", "mitm.test:443", "socks.test:1080", "legacy.test:80"} {
		sv, err := w.Server(a)
		if err != nil {
			x.Failf("harness/listen", "%s: %v", a, err)
			return
		}
		servers[a] = sv
	}
	var names, out []string
	for _, k := range seq {
		rq := historyRequests[k]
		names = append(names, rq.name)
		before := len(w.Net.Dials())
		cl, err := w.Client()
		if err != nil {
			x.Failf("harness/client", "%v", err)
			return
		}
		cl.Send([]byte(rq.head))
		world.Settle(100 * time.Millisecond)
		if rq.reply == "mitm" {
			if got := string(cl.Recv()); got != "HTTP/1.1 200 OK\r\n\r\n" {
				x.Failf("mitm/connect-reply", "request %q after %v: CONNECT answered %q", rq.name, names[:len(names)-1], got)
				return
			}
			tc := world.TLSClient(cl, &tls.Config{InsecureSkipVerify: true, ServerName: "mitm.test"})
			if done, err := tc.Handshake(); !done || err != nil {
				x.Failf("mitm/handshake", "request %q after %v: done=%v err=%v", rq.name, names[:len(names)-1], done, err)
				return
			}
			tc.Send([]byte("GET /in HTTP/1.1\r\nHost: mitm.test\r\n\r\n"))
			world.Settle(100 * time.Millisecond)
			ds := w.Net.Dials()[before:]
			x.Check()
			if len(ds) != 1 || ds[0].Addr != rq.dial || ds[0].Outcome != "connected" {
				x.Failf("wrong-party-contacted/after-earlier-requests", "request %q after %v: want exactly one connection, to %s; dials: %v", rq.name, names[:len(names)-1], rq.dial, ds)
				return
			}
			hop := servers[rq.dial].Accept()
			if hop != nil {
				hop.Close() // the origin hangs up: the session ends with an error response, which is all this scenario needs
			}
			world.Settle(time.Second)
			out = append(out, rq.dial)
			tc.Close()
			world.Settle(100 * time.Millisecond)
			continue
		}
		ds := w.Net.Dials()[before:]
		x.Check()
		if rq.dial == "" {
			world.Settle(5 * time.Second)
			ds = w.Net.Dials()[before:]
			rs := httpwire.ParseResponses(cl.Recv(), []string{"GET"}, false)
			if len(ds) != 0 {
				x.Failf("wrong-party-contacted/after-earlier-requests", "request %q after %v: the request must fail without contacting anybody; dials: %v; client got %q", rq.name, names[:len(names)-1], ds, world.Clip(cl.Recv()))
				return
			}
			if len(rs.Msgs) != 1 || rs.Msgs[0].Status < 500 {
				x.Failf("unsupported-route-not-failed/after-earlier-requests", "request %q after %v: client got %q, want a 5xx", rq.name, names[:len(names)-1], world.Clip(cl.Recv()))
				return
			}
			out = append(out, "failed")
			cl.Close()
			world.Settle(100 * time.Millisecond)
			continue
		}
		if len(ds) != 1 || ds[0].Addr != rq.dial || ds[0].Outcome != "connected" {
			x.Failf("wrong-party-contacted/after-earlier-requests", "request %q after %v: want exactly one connection, to %s; dials: %v", rq.name, names[:len(names)-1], rq.dial, ds)
			return
		}
		hop := servers[rq.dial].Accept()
		if hop == nil {
			x.Failf("harness/hop", "no connection accepted at %s", rq.dial)
			return
		}
		if rq.reply != "" {
			hop.Send([]byte(rq.reply))
		}
		world.Settle(100 * time.Millisecond)
		rs := httpwire.ParseResponses(cl.Recv(), []string{strings.SplitN(rq.head, " ", 2)[0]}, false)
		if len(rs.Msgs) != 1 || rs.Msgs[0].Status != 200 {
			x.Failf("request-not-served/after-earlier-requests", "request %q after %v: client got %q", rq.name, names[:len(names)-1], world.Clip(cl.Recv()))
			return
		}
		out = append(out, rq.dial)
		cl.Close()
		hop.Close()
		world.Settle(100 * time.Millisecond)
	}
	x.Outcome(strings.Join(out, ","))
	if err := w.Stop(); err != nil {
		x.Failf("shutdown", "%v", err)
	}
	for _, sv := range servers {
		for p := sv.Accept(); p != nil; p = sv.Accept() {
			p.Close()
		}
	}
	if l := world.Leaks(); l != "" {
		x.Failf("goroutine-leak", "%s", l)
	}
}

func TestC05(t *testing.T) {
	s := explore.NewSuite(t, "C05", "exploration",
		"configuration = upstream(21: none, static http/https/socks5, PAC scripts returning each result string of the alphabet incl. errors) x direct-domains(5) x proxy-localhost(3) x connect-to rule list(9, incl. chained/swapped rules) x first connection attempt {succeeds, is refused and retried} x target(8: names, explicit port, localhost, IPv6 literal, loopback IP, upper-case and trailing-dot spellings) x kind(plain HTTP, CONNECT, inside MITM); deviation-bounded exploration (D=3 quick, 4 thorough) plus the full product upstream x direct-domains x localhost mode x target x kind (thorough: all 21 upstream selections, quick: 3 of them) and connect-to x upstream x target x kind (both tiers); 108 endpoints listen on the in-memory network (one of them is the proxy named by HTTP_PROXY / HTTPS_PROXY / ALL_PROXY in the process environment, which must never be used), the reference expectRoute names the one that must be dialled and checkHop verifies what it received first (request line form, CONNECT authority, SOCKS5 target, TLS hello); every other endpoint must stay untouched; plus (history) ONE proxy with a PAC script that answers by URL (port, path) and host, and EVERY sequence of 2 (quick) / 4 (thorough) requests out of 9 (absolute-form and origin-form GET, CONNECT, an intercepted session with a request inside, same host with different ports/paths, another host, a host for which the script answers an unsupported proxy type): each request must be routed by its own URL whatever was requested before; non-trivial = route compared; (round 9) a --connect-to rule written with upper-case letters applies to a hop written the same way")
	s.Assume = []string{"simnet owns every dial of the proxy", "PAC scripts are evaluated by the real pac package (goja)", "the address dialled is observed after the real DialRedirectFunc (connect-to) ran inside forwarder.Dialer"}
	s.Add(explore.Scenario{Name: "bounded", Remote: true, MaxDev: map[string]int{"quick": 3, "thorough": 4},
		Run: func(x *explore.X) { world.Run(t, x, func() { scenario(x, 0) }) }})
	s.Add(explore.Scenario{Name: "product-routing-quick", Remote: true, Tiers: []string{"quick"}, MaxDev: map[string]int{"quick": 0},
		Run: func(x *explore.X) { world.Run(t, x, func() { scenario(x, 4) }) }})
	s.Add(explore.Scenario{Name: "product-routing", Remote: true, Tiers: []string{"thorough"}, MaxDev: map[string]int{"thorough": 0},
		Run: func(x *explore.X) { world.Run(t, x, func() { scenario(x, 1) }) }})
	s.Add(explore.Scenario{Name: "product-connect-to", Remote: true, MaxDev: map[string]int{"quick": 0, "thorough": 0},
		Run: func(x *explore.X) { world.Run(t, x, func() { scenario(x, 3) }) }})
	s.Add(explore.Scenario{Name: "history-quick", Remote: true, Tiers: []string{"quick"},
		Run: func(x *explore.X) { world.Run(t, x, func() { historyScenario(x, 2) }) }})
	s.Add(explore.Scenario{Name: "history-thorough", Remote: true, Tiers: []string{"thorough"},
		Run: func(x *explore.X) { world.Run(t, x, func() { historyScenario(x, 4) }) }})
	s.Main()
}
