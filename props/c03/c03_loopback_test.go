// C03, family "loopback-sockets" (round 9): the same proxy code on REAL TCP sockets of the loopback interface.
//
// The simulated network cannot show what depends on the kernel's socket semantics (socket options set on a
// *net.TCPConn, what close(2) does to data that is still queued). This family runs the real HTTPProxy on 127.0.0.1
// (listen / dial seams off), a real TCP target, and enumerates every script of a small space: which side finishes
// first, the sizes in both directions, and which receiver is slow (does not read - with a small receive buffer, so
// that the backlog is queued on the proxy's side - until the other side has finished). Real time is used as a
// liveness guard only: the verdicts are facts that do not depend on time (an endpoint saw a reset; an endpoint saw
// end-of-stream after fewer octets than were sent; the octets differ). An execution that has not finished within the
// guard is reported as inconclusive, never as a violation.
package c03

import (
	"bytes"
	"context"
	"errors"
	"fmt"
	"io"
	"net"
	"sync"
	"syscall"
	"time"

	"github.com/saucelabs/forwarder"
	"github.com/saucelabs/forwarder/internal/zzverif/explore"
	"github.com/saucelabs/forwarder/internal/zzverif/h1x"
	"github.com/saucelabs/forwarder/internal/zzverif/world"
)

type realEnd struct {
	c    *net.TCPConn
	mu   sync.Mutex
	buf  []byte
	eof  bool
	rst  bool
	err  error
	done chan struct{}
}

func (r *realEnd) pump() {
	defer close(r.done)
	b := make([]byte, 64<<10)
	for {
		n, err := r.c.Read(b)
		r.mu.Lock()
		r.buf = append(r.buf, b[:n]...)
		if err != nil {
			switch {
			case errors.Is(err, io.EOF):
				r.eof = true
			case errors.Is(err, syscall.ECONNRESET):
				r.rst = true
			default:
				r.err = err
			}
			r.mu.Unlock()
			return
		}
		r.mu.Unlock()
	}
}

func loopbackScenario(x *explore.X) {
	first := x.ChooseFree("finishes-first", 2)                       // 0 the target half-closes first, 1 the client
	up := []int{5, 40000, 512 << 10}[x.ChooseFree("upload", 3)]      // client -> target
	down := []int{0, 5, 512 << 10}[x.ChooseFree("download", 3)]      // target -> client
	slow := x.ChooseFree("slow-receiver", 3)                         // 0 none, 1 the target reads only after the client has finished, 2 the client reads only after the target has finished
	what := fmt.Sprintf("real sockets: %s finishes first, upload %d, download %d, slow receiver: %s", []string{"target", "client"}[first], up, down, []string{"none", "target", "client"}[slow])
	x.Logf("%s", what)

	forwarder.VerifListen, forwarder.VerifDial = nil, nil
	cfg := forwarder.DefaultHTTPProxyConfig()
	cfg.Address = "127.0.0.1:0"
	cfg.ProxyLocalhost = forwarder.AllowProxyLocalhost
	rt, err := forwarder.NewHTTPTransport(forwarder.DefaultHTTPTransportConfig())
	if err != nil {
		x.Failf("harness/transport", "%v", err)
		return
	}
	hp, err := forwarder.NewHTTPProxy(cfg, nil, nil, rt, (&world.MemLog{}).Named("proxy"), nil)
	if err != nil {
		x.Failf("harness/proxy", "%v", err)
		return
	}
	ctx, cancel := context.WithCancel(context.Background())
	runDone := make(chan error, 1)
	go func() { runDone <- hp.Run(ctx) }()
	defer func() {
		cancel()
		select {
		case <-runDone:
		case <-time.After(30 * time.Second):
		}
	}()
	addr := ""
	for i := 0; i < 3000 && addr == ""; i++ {
		if a, ok := hp.Addr(); ok && len(a) > 0 {
			addr = a[0]
		} else {
			time.Sleep(10 * time.Millisecond)
		}
	}
	ln, err := net.ListenTCP("tcp", &net.TCPAddr{IP: net.IPv4(127, 0, 0, 1)})
	if addr == "" || err != nil {
		x.Outcome("inconclusive/start") // (the machine, not the code: nothing is claimed)
		return
	}
	defer ln.Close()
	conn, err := net.Dial("tcp", addr)
	if err != nil {
		x.Outcome("inconclusive/dial")
		return
	}
	cl := &realEnd{c: conn.(*net.TCPConn), done: make(chan struct{})}
	defer cl.c.Close()
	if slow == 2 {
		cl.c.SetReadBuffer(16 << 10)
	}
	taddr := ln.Addr().String()
	fmt.Fprintf(cl.c, "CONNECT %s HTTP/1.1\r\nHost: %s\r\n\r\n", taddr, taddr)
	ln.SetDeadline(time.Now().Add(60 * time.Second))
	tc, err := ln.AcceptTCP()
	if err != nil {
		x.Outcome("inconclusive/accept")
		return
	}
	tg := &realEnd{c: tc, done: make(chan struct{})}
	defer tg.c.Close()
	if slow == 1 {
		tg.c.SetReadBuffer(16 << 10)
	}
	const head = "HTTP/1.1 200 OK\r\n\r\n"
	hb := make([]byte, len(head))
	cl.c.SetReadDeadline(time.Now().Add(60 * time.Second))
	if _, err := io.ReadFull(cl.c, hb); err != nil {
		x.Outcome("inconclusive/connect-reply") // (no verdict from a time limit)
		return
	} else if string(hb) != head {
		x.Failf("connect-reply", "%s: the client got %q instead of the 200", what, hb)
		return
	}
	cl.c.SetReadDeadline(time.Time{})
	upB, downB := h1x.Pattern(up, 7), h1x.Pattern(down, 9)
	// each side writes its octets and half-closes, in the chosen order; a slow receiver starts to read only when the
	// other side has finished (or, so that the harness can never hang on full buffers, after 3 s)
	finished := map[string]chan struct{}{"client": make(chan struct{}), "target": make(chan struct{})}
	send := func(name string, e *realEnd, b []byte, after chan struct{}) {
		go func() {
			if after != nil {
				select {
				case <-after:
				case <-time.After(3 * time.Second):
				}
			}
			e.c.SetWriteDeadline(time.Now().Add(60 * time.Second))
			e.c.Write(b)
			e.c.CloseWrite()
			close(finished[name])
		}()
	}
	if first == 0 {
		send("target", tg, downB, nil)
		send("client", cl, upB, finished["target"])
	} else {
		send("client", cl, upB, nil)
		send("target", tg, downB, finished["client"])
	}
	startPump := func(e *realEnd, wait chan struct{}) {
		go func() {
			if wait != nil {
				select {
				case <-wait:
				case <-time.After(3 * time.Second):
				}
				time.Sleep(200 * time.Millisecond) // (let the proxy see the end of the other direction first)
			}
			e.pump()
		}()
	}
	switch slow {
	case 1:
		startPump(tg, finished["client"])
		startPump(cl, nil)
	case 2:
		startPump(cl, finished["target"])
		startPump(tg, nil)
	default:
		startPump(cl, nil)
		startPump(tg, nil)
	}
	guard := time.After(90 * time.Second)
	for _, e := range []*realEnd{cl, tg} {
		select {
		case <-e.done:
		case <-guard:
			x.Outcome("inconclusive/time")
			return
		}
	}
	x.Check()
	check := func(name string, e *realEnd, want []byte) {
		e.mu.Lock()
		defer e.mu.Unlock()
		switch {
		case e.rst:
			x.Failf("reset-instead-of-end-of-stream", "%s: the %s read %d of %d octets and then a connection reset, want all of them and end-of-stream", what, name, len(e.buf), len(want))
		case e.err != nil:
			x.Outcome("inconclusive/read-error")
		case !bytes.Equal(e.buf, want):
			x.Failf("octets-lost-or-altered", "%s: the %s saw end-of-stream after %d octets, %d were sent (equal prefix: %v)", what, name, len(e.buf), len(want), bytes.HasPrefix(want, e.buf))
		}
	}
	check("target", tg, upB)
	check("client", cl, downB)
	x.Outcome(fmt.Sprintf("first%d up%d down%d slow%d", first, up, down, slow))
}
