// C03: CONNECT/Upgrade tunnels are byte-transparent incl. early data and half-close.
// Engine S, explicit quiescent states: after the tunnel is established (for six routings, with early
// data coalesced with the request head and/or with the far side's own reply) all interleavings of the
// two endpoints' scripts (segments, then FIN) are enumerated; at every quiescent state each side
// must hold exactly what the other has sent, EOF only after the sender's FIN, and both sockets are
// released only after both directions finished.
package c03

import (
	"bytes"
	"crypto/tls"
	"fmt"
	"io"
	"net/http"
	"strings"
	"testing"
	"time"

	"github.com/saucelabs/forwarder"
	"github.com/saucelabs/forwarder/internal/zzverif/explore"
	"github.com/saucelabs/forwarder/internal/zzverif/h1x"
	"github.com/saucelabs/forwarder/internal/zzverif/httpwire"
	"github.com/saucelabs/forwarder/internal/zzverif/world"
)

type endpoint interface {
	Send([]byte) error
	Recv() []byte
	CloseWrite()
	SawEOF() bool
	PeerReleased() bool
	Close()
}

var sizes = []int{5, 0, 1, 4096, 32768, 32769, 1<<20 + 1}

var routings = []string{"direct", "upstream-http", "upstream-https", "upstream-socks5", "connect-func", "upgrade"}

const target = "target.test:443"

type script struct {
	segs     [][]byte
	coalesce bool // first segment travels with the request head / the far side's reply head
}

func chooseScript(x *explore.X, who string, maxSegs int, salt byte) script {
	var s script
	n := 1 + x.Choose(who+"-segments-1", maxSegs)
	for i := 0; i < n; i++ {
		sz := sizes[x.Choose(fmt.Sprintf("%s-size%d", who, i), len(sizes))]
		s.segs = append(s.segs, h1x.Pattern(sz, salt+byte(i)*7))
	}
	s.coalesce = x.Choose(who+"-early-data", 2) == 1
	return s
}

func scenario(x *explore.X, maxSegs int, withBackPressure bool) {
	routing := x.ChooseFree("routing", len(routings))
	// back-pressure: one endpoint stops reading (4 KiB socket buffer) until a "resume" event
	bp := 0
	if withBackPressure {
		bp = 1 + x.ChooseFree("stalled-reader", 2) // 1 target, 2 client
	}
	cs := chooseScript(x, "client", maxSegs, 1)
	ts := chooseScript(x, "target", maxSegs, 11)

	opts := world.Options{}
	pki := world.NewPKI("harness CA")
	opts.TransportCAPEM = pki.CAPEM
	hopAddr := target
	switch routings[routing] {
	case "upstream-http":
		opts.Upstream = "http://up.test:8080"
		hopAddr = "up.test:8080"
	case "upstream-https":
		opts.Upstream = "https://ups.test:8443"
		hopAddr = "ups.test:8443"
	case "upstream-socks5":
		opts.Upstream = "socks5://socks.test:1080"
		hopAddr = "socks.test:1080"
	case "upgrade":
		hopAddr = "target.test:80"
	}
	var w *world.World
	if routings[routing] == "connect-func" {
		hopAddr = "custom.test:7"
		opts.ConnectFunc = func(req *http.Request) (*http.Response, io.ReadWriteCloser, error) {
			c, err := w.Net.Dial(req.Context(), "tcp", "custom.test:7")
			if err != nil {
				return nil, nil, err
			}
			res := &http.Response{StatusCode: 200, Status: "200 OK", Proto: "HTTP/1.1", ProtoMajor: 1, ProtoMinor: 1,
				Header: http.Header{}, Body: http.NoBody, ContentLength: -1, Request: req}
			return res, c, nil
		}
	}
	// per-request server timeouts of the library configuration (HTTPServerConfig.ReadTimeout / WriteTimeout):
	// they bound reading one request and writing one response, a tunnel is neither
	// raw sockets with or without the ReadFrom / WriteTo of *net.TCPConn: the relay copies with or without its own buffer
	opts.FastPathSockets = x.Choose("sockets-offer-readfrom-writeto", 2) == 1
	// --log-http body installs a response modifier that reads message bodies: a 101 / CONNECT reply has none to read
	if x.Choose("log-http-body", 2) == 1 {
		opts.LogHTTP = "body"
	}
	srvTO := []string{"none", "write-timeout", "read-timeout"}[x.Choose("server-timeouts", 3)]
	opts.Tweak = func(cfg *forwarder.HTTPProxyConfig, _ *forwarder.HTTPTransportConfig) {
		switch srvTO {
		case "write-timeout":
			cfg.WriteTimeout = 30 * time.Second
		case "read-timeout":
			cfg.ReadTimeout = 30 * time.Second
		}
	}
	var err error
	w, err = world.Start(opts)
	if err != nil {
		x.Failf("harness/start", "%v", err)
		return
	}
	srv, _ := w.Server(hopAddr)
	clRaw, _ := w.Client()

	// ---- establish the tunnel ---------------------------------------------------------------------
	var sentC, sentT []byte // payload bytes each side has sent so far
	upClose := false
	head := "CONNECT " + target + " HTTP/1.1\r\nHost: " + target + "\r\n\r\n"
	framing := ""
	if routings[routing] != "upgrade" {
		// a CONNECT request has no body: a framing field on it (sent by some clients) means nothing, whatever follows
		// the head belongs to the tunnel
		framing = []string{"", "Content-Length: 5\r\n", "Content-Length: 0\r\n", "Transfer-Encoding: chunked\r\n"}[x.Choose("connect-request-framing-field", 4)]
		head = "CONNECT " + target + " HTTP/1.1\r\nHost: " + target + "\r\n" + framing + "\r\n"
	}
	if routings[routing] == "upgrade" {
		conn := "Upgrade"
		if x.Choose("upgrade-request-also-says-close", 2) == 1 {
			conn = "Upgrade, close" // legal: the connection is not reused after the upgraded session anyway
			upClose = true
		}
		head = "GET http://target.test/ws HTTP/1.1\r\nHost: target.test\r\nConnection: " + conn + "\r\nUpgrade: websocket\r\n\r\n"
	}
	first := []byte(head)
	cNext, tNext := 0, 0
	_ = upClose
	if cs.coalesce {
		first = append(first, cs.segs[0]...)
		sentC = append(sentC, cs.segs[0]...)
		cNext = 1
	}
	clRaw.Send(first)
	hopRaw := srv.Accept()
	if hopRaw == nil {
		x.Failf("tunnel/no-dial", "%s not dialled; client got %q; dials %v", hopAddr, world.Clip(clRaw.Recv()), w.Net.Dials())
		return
	}
	var tg endpoint = hopRaw
	early := func() []byte {
		if ts.coalesce {
			tNext = 1
			sentT = append(sentT, ts.segs[0]...)
			return ts.segs[0]
		}
		return nil
	}
	switch routings[routing] {
	case "direct", "connect-func":
		if ts.coalesce { // the target speaks first, immediately after the connection is up
			hopRaw.Send(early())
		}
	case "upstream-http", "upstream-https":
		var hs world.Stream = hopRaw
		if routings[routing] == "upstream-https" {
			tp := world.TLSServer(hopRaw, &tls.Config{Certificates: []tls.Certificate{pki.Leaf([]string{"ups.test"}, -time.Hour, time.Hour)}})
			if done, err := tp.Handshake(); !done || err != nil {
				x.Failf("tunnel/upstream-tls", "done=%v err=%v", done, err)
				return
			}
			hs, tg = tp, tp
		}
		rq := httpwire.ParseRequests(hs.Recv())
		if len(rq.Msgs) != 1 || rq.Msgs[0].Method != "CONNECT" || rq.Msgs[0].Target != target {
			x.Failf("tunnel/upstream-connect", "upstream proxy received %q", world.Clip(hs.Recv()))
			return
		}
		if len(rq.Rest) > 0 && !cs.coalesce {
			x.Failf("tunnel/upstream-extra", "bytes after the CONNECT head: %q", world.Clip(rq.Rest))
		}
		// the upstream proxy's reply, possibly in one segment with the target's first bytes
		// (a 2xx reply to CONNECT has no body: a Content-Length or Transfer-Encoding field on it is to be ignored,
		// RFC 9110 section 9.3.6 - some proxies send one)
		upFraming := []string{"", "Content-Length: 5\r\n", "Content-Length: 0\r\n", "Transfer-Encoding: chunked\r\n"}[x.Choose("upstream-reply-framing-field", 4)]
		hs.Send(append([]byte("HTTP/1.1 200 Connection established\r\nX-Up: 1\r\n"+upFraming+"\r\n"), early()...))
		framing += "|up:" + upFraming
		defer func(n int) { _ = n }(0)
		// payload accounting at the hop starts after the CONNECT head
		tg = &offset{endpoint: tg, skip: len(rq.Msgs[0].Raw)}
	case "upstream-socks5":
		s := &world.Socks5{}
		s.Step(hopRaw)
		if s.Err != "" || !s.Established() || s.Target != target {
			x.Failf("tunnel/socks5", "handshake err=%q established=%v target=%q", s.Err, s.Established(), s.Target)
			return
		}
		if ts.coalesce {
			hopRaw.Send(early())
		}
		tg = &offset{endpoint: hopRaw, skip: len(hopRaw.Recv()) - len(s.Step(hopRaw))}
	case "upgrade":
		rq := httpwire.ParseRequests(hopRaw.Recv())
		if len(rq.Msgs) != 1 || !strings.EqualFold(strings.Join(rq.Msgs[0].Get("Upgrade"), ","), "websocket") {
			x.Failf("tunnel/upgrade-request", "origin received %q", world.Clip(hopRaw.Recv()))
			return
		}
		hopRaw.Send(append([]byte("HTTP/1.1 101 Switching Protocols\r\nConnection: Upgrade\r\nUpgrade: websocket\r\n\r\n"), early()...))
		tg = &offset{endpoint: hopRaw, skip: len(rq.Msgs[0].Raw)}
	}
	// the client's view: reply head, then payload
	method := "CONNECT"
	if routings[routing] == "upgrade" {
		method = "GET"
	}
	rs := httpwire.ParseResponses(clRaw.Recv(), []string{method}, false)
	wantStatus := 200
	if method == "GET" {
		wantStatus = 101
	}
	if len(rs.Msgs) != 1 || rs.Msgs[0].Status != wantStatus {
		x.Failf("tunnel/reply", "client got %q, want a %d reply", world.Clip(clRaw.Recv()), wantStatus)
		return
	}
	var cl endpoint = &offset{endpoint: clRaw, skip: len(rs.Msgs[0].Raw)}

	var holder *world.Peer
	switch bp {
	case 1:
		if routings[routing] == "upstream-https" {
			bp = 0 // the TLS endpoint reads through a pump goroutine; back-pressure is applied on plain routings
		} else {
			holder = hopRaw
		}
	case 2:
		holder = clRaw
	}
	if holder != nil {
		holder.Recv()
		holder.Hold = true
		holder.C.SetLimit(4096)
	}
	// The tunnel may have been open for a while before anything else happens (older than the one-minute
	// grace period the proxy grants the second direction after the first one has finished): its age must
	// not matter, virtual time does not advance again once the script events start.
	aged := x.Choose("tunnel-idle-before-script", 2) == 1
	if aged {
		world.Settle(2 * time.Minute)
	}
	// ---- explore all interleavings of the remaining script events ------------------------------
	cFin, tFin := false, false
	hist := fmt.Sprintf("%s|aged=%v|close=%v|to=%s|log=%s|fast=%v|fr=%q|c%v|t%v|", routings[routing], aged, upClose, srvTO, opts.LogHTTP, opts.FastPathSockets, framing, lens(cs), lens(ts))
	check := func(ev string) bool {
		x.Check()
		gotT, gotC := tg.Recv(), cl.Recv()
		if holder != nil && holder.Hold {
			// the stalled reader has not taken what is in flight: towards it only "nothing invented" can be checked
			// now (full comparison after it resumes); the opposite direction must be unaffected
			if bp == 1 {
				if !bytes.HasPrefix(sentC, gotT) {
					x.Failf("transparency/client-to-target", "after %s: target holds bytes the client never sent (%s)", ev, diff(gotT, sentC))
					return false
				}
				gotT = sentC
			} else {
				if !bytes.HasPrefix(sentT, gotC) {
					x.Failf("transparency/target-to-client", "after %s: client holds bytes the target never sent (%s)", ev, diff(gotC, sentT))
					return false
				}
				gotC = sentT
			}
		}
		if !bytes.Equal(gotT, sentC) {
			x.Failf("transparency/client-to-target", "after %s: target holds %d bytes, client has sent %d (%s)", ev, len(gotT), len(sentC), diff(gotT, sentC))
			return false
		}
		if !bytes.Equal(gotC, sentT) {
			x.Failf("transparency/target-to-client", "after %s: client holds %d bytes, target has sent %d (%s)", ev, len(gotC), len(sentT), diff(gotC, sentT))
			return false
		}
		if holder != nil && holder.Hold {
			return true // EOF visibility and socket release are checked once the stalled reader has resumed
		}
		if tg.SawEOF() != cFin {
			x.Failf("half-close/target-eof", "after %s: target observes EOF=%v but client FIN=%v", ev, tg.SawEOF(), cFin)
			return false
		}
		if cl.SawEOF() != tFin {
			x.Failf("half-close/client-eof", "after %s: client observes EOF=%v but target FIN=%v", ev, cl.SawEOF(), tFin)
			return false
		}
		both := cFin && tFin
		if cl.PeerReleased() != both || tg.PeerReleased() != both {
			x.Failf("socket-release", "after %s: proxy released client-side socket=%v target-side socket=%v, both directions finished=%v", ev, cl.PeerReleased(), tg.PeerReleased(), both)
			return false
		}
		return true
	}
	if !check("establishment") {
		finish(x, w, clRaw, hopRaw)
		return
	}
	for !(cFin && tFin) || (holder != nil && holder.Hold) {
		var enabled []string
		if !cFin {
			enabled = append(enabled, "client")
		}
		if !tFin {
			enabled = append(enabled, "target")
		}
		if holder != nil && holder.Hold {
			enabled = append(enabled, "resume")
		}
		x.State(hist, 0)
		side := enabled[x.ChooseFree("next", len(enabled))]
		var ev string
		if side == "resume" {
			holder.Hold = false
			holder.C.SetLimit(0)
			world.Settle(0)
			ev = "stalled reader resumes"
		} else if side == "client" {
			if cNext < len(cs.segs) {
				cl.Send(cs.segs[cNext])
				sentC = append(sentC, cs.segs[cNext]...)
				ev = fmt.Sprintf("client sends %d bytes", len(cs.segs[cNext]))
				cNext++
			} else {
				cl.CloseWrite()
				cFin = true
				ev = "client FIN"
			}
		} else {
			if tNext < len(ts.segs) {
				tg.Send(ts.segs[tNext])
				sentT = append(sentT, ts.segs[tNext]...)
				ev = fmt.Sprintf("target sends %d bytes", len(ts.segs[tNext]))
				tNext++
			} else {
				tg.CloseWrite()
				tFin = true
				ev = "target FIN"
			}
		}
		hist += ev[:1] + fmt.Sprint(len(ev)) + ","
		x.Logf("%s", ev)
		if !check(ev) {
			break
		}
	}
	if ds := w.Net.Dials(); len(ds) != 1 {
		x.Failf("extra-dials", "dial log %v, want exactly one dial to %s", ds, hopAddr)
	}
	x.Outcome(fmt.Sprintf("%s c=%d t=%d", routings[routing], len(sentC), len(sentT)))
	finish(x, w, clRaw, hopRaw)
}

func lens(s script) string {
	var l []string
	for _, b := range s.segs {
		l = append(l, fmt.Sprint(len(b)))
	}
	return strings.Join(l, "+") + map[bool]string{true: "e", false: ""}[s.coalesce]
}

func diff(got, want []byte) string {
	d := 0
	for d < len(got) && d < len(want) && got[d] == want[d] {
		d++
	}
	return fmt.Sprintf("first difference at offset %d", d)
}

// offset hides the first skip bytes a raw endpoint received (the HTTP head that preceded the tunnel).
type offset struct {
	endpoint
	skip int
}

func (o *offset) Recv() []byte {
	b := o.endpoint.Recv()
	if len(b) < o.skip {
		return nil
	}
	return b[o.skip:]
}

func finish(x *explore.X, w *world.World, peers ...*world.Peer) {
	for _, p := range peers {
		p.Close()
	}
	if err := w.Stop(); err != nil {
		x.Failf("shutdown", "%v", err)
	}
	if l := world.Leaks(); l != "" {
		x.Failf("goroutine-leak", "%s", l)
	}
}

// ---- two tunnels at once on ONE proxy ---------------------------------------------------------------------------

// twoTunnels: tunnels A and B are open at the same time on one proxy (direct, or through one upstream HTTP
// proxy); EVERY sequence of depth events out of {a segment of 5 or 40000 bytes in any of the four
// directions, target A stops reading / resumes}; after every event each of the four byte streams must be
// exactly what its sender wrote - nothing lost, duplicated, reordered, or delivered to the other tunnel.
func twoTunnels(x *explore.X, depth int) {
	viaUp := x.ChooseFree("routing", 2) == 1
	opts := world.Options{}
	if viaUp {
		opts.Upstream = "http://up.test:8080"
	}
	w, err := world.Start(opts)
	if err != nil {
		x.Failf("harness/start", "%v", err)
		return
	}
	servers := map[string]*world.Server{}
	for _, a := range []string{"a.test:443", "b.test:443", "up.test:8080"} {
		servers[a], _ = w.Server(a)
	}
	type dir struct {
		name     string
		from, to *world.Peer
		base     int // bytes the receiver held before the tunnel was up
		sent     []byte
	}
	var dirs []*dir
	var peers []*world.Peer
	for _, t := range []string{"a", "b"} {
		cl, _ := w.Client()
		authority := t + ".test:443"
		cl.Send([]byte("CONNECT " + authority + " HTTP/1.1\r\nHost: " + authority + "\r\n\r\n"))
		addr := authority
		if viaUp {
			addr = "up.test:8080"
		}
		tg := servers[addr].Accept()
		if tg == nil {
			x.Failf("tunnel/no-dial", "%s not dialled; client got %q", addr, world.Clip(cl.Recv()))
			return
		}
		if viaUp {
			rq := httpwire.ParseRequests(tg.Recv())
			if len(rq.Msgs) != 1 || rq.Msgs[0].Method != "CONNECT" || rq.Msgs[0].Target != authority {
				x.Failf("tunnel/upstream-connect", "upstream proxy received %q", world.Clip(tg.Recv()))
				return
			}
			tg.Send([]byte("HTTP/1.1 200 OK\r\n\r\n"))
		}
		rs := httpwire.ParseResponses(cl.Recv(), []string{"CONNECT"}, false)
		if len(rs.Msgs) != 1 || rs.Msgs[0].Status != 200 {
			x.Failf("tunnel/not-established", "tunnel %s: client got %q", t, world.Clip(cl.Recv()))
			return
		}
		peers = append(peers, cl, tg)
		dirs = append(dirs, &dir{name: t + ":client->target", from: cl, to: tg, base: len(tg.Recv())},
			&dir{name: t + ":target->client", from: tg, to: cl, base: len(cl.Recv())})
	}
	holder := dirs[0].to // target of tunnel A
	check := func(hist string, final bool) bool {
		x.Check()
		for _, d := range dirs {
			got := d.to.Recv()[d.base:]
			if d.to.Hold && !final {
				if !bytes.HasPrefix(d.sent, got) {
					x.Failf("transparency/two-tunnels", "after %s: %s (receiver not reading): holds %d bytes that are not a prefix of the %d sent", hist, d.name, len(got), len(d.sent))
					return false
				}
				continue
			}
			if !bytes.Equal(got, d.sent) {
				k := 0
				for k < len(got) && k < len(d.sent) && got[k] == d.sent[k] {
					k++
				}
				x.Failf("transparency/two-tunnels", "after %s: %s: receiver holds %d bytes, sender has sent %d (first difference at offset %d)", hist, d.name, len(got), len(d.sent), k)
				return false
			}
		}
		return true
	}
	hist := ""
	salt := byte(0)
	for step := 0; step < depth; step++ {
		type event struct {
			name string
			do   func()
		}
		var evs []event
		for _, d := range dirs {
			d := d
			for _, n := range []int{5, 40000} {
				n := n
				evs = append(evs, event{fmt.Sprintf("%s(%d)", d.name, n), func() {
					salt += 3
					b := h1x.Pattern(n, salt)
					d.sent = append(d.sent, b...)
					d.from.Send(b)
				}})
			}
		}
		if holder.Hold {
			evs = append(evs, event{"a:target-resumes", func() { holder.Hold = false; holder.C.SetLimit(0); holder.Recv(); world.Settle(0) }})
		} else {
			evs = append(evs, event{"a:target-stops-reading", func() { holder.Recv(); holder.Hold = true; holder.C.SetLimit(4096) }})
		}
		ev := evs[x.ChooseFree(fmt.Sprintf("event%d", step), len(evs))]
		hist += ev.name + " "
		x.Logf("%s", ev.name)
		ev.do()
		if !check(hist, false) {
			return
		}
	}
	if holder.Hold {
		holder.Hold = false
		holder.C.SetLimit(0)
		holder.Recv()
		world.Settle(0)
	}
	if !check(hist+"end", true) {
		return
	}
	x.Outcome(fmt.Sprintf("up=%v %d/%d/%d/%d", viaUp, len(dirs[0].sent) > 0, len(dirs[1].sent) > 0, len(dirs[2].sent) > 0, len(dirs[3].sent) > 0))
	for _, p := range peers {
		p.Close()
	}
	if err := w.Stop(); err != nil {
		x.Failf("shutdown", "%v", err)
	}
	if l := world.Leaks(); l != "" {
		x.Failf("goroutine-leak", "%s", l)
	}
}

func TestC03(t *testing.T) {
	s := explore.NewSuite(t, "C03", "model_checking",
		"routing(6: direct, upstream http, upstream https, upstream socks5, custom connect function, HTTP/1.1 Upgrade) [full product] x client script and target script (1-2 quick / 1-3 thorough segments of sizes {5,0,1,4096,32768,32769,1MiB+1}, first segment optionally coalesced with the request head resp. with the far side's own reply) x tunnel left idle for two virtual minutes before the script {no, yes} [deviation-bounded, D=2 quick / 3 thorough] x ALL interleavings of the two scripts' events (segment, ..., FIN) [full]; a back-pressure family in which one endpoint stops reading (4 KiB socket buffer) and resumes at every possible point of the interleaving, the opposite direction being checked exactly meanwhile; a state is a quiescent event history; at every state both directions are compared byte for byte, EOF visibility is compared with the sender's FIN, and socket release with 'both directions finished'; (two-tunnels) two tunnels open at once on one proxy (direct / through one upstream HTTP proxy), EVERY sequence of 3 (quick) / 4 (thorough) events out of {5- or 40000-byte segment in any of the four directions, one target stops reading / resumes}, all four byte streams compared exactly after every event; non-trivial = at least one state was checked; (loopback-sockets, round 9) the same proxy on REAL TCP sockets of the loopback interface: which side finishes first(2) x upload {5, 40000, 512 KiB} x download {0, 5, 512 KiB} x slow receiver {none, target, client: 16 KiB receive buffer, reads only after the other side has finished} [full product, 54 scripts]: every endpoint reads exactly the octets sent and then end-of-stream, never a reset; real time is a liveness guard only (an execution that exceeds it is inconclusive, not a violation)")
	s.Assume = []string{"simnet models TCP half-close (FIN) and release", "virtual time is not advanced inside a tunnel, so the 60 s forced-close grace period of bicopy never expires (not part of the statement)", "crypto/tls close_notify is the half-close of the HTTPS-proxy routing"}
	for _, tier := range []string{"quick", "thorough"} {
		segs := map[string]int{"quick": 2, "thorough": 3}[tier]
		s.Add(explore.Scenario{Name: "tunnel-" + tier, Remote: true, Tiers: []string{tier}, MaxDev: map[string]int{"quick": 2, "thorough": 3},
			Run: func(x *explore.X) { world.Run(t, x, func() { scenario(x, segs, false) }) }})
		s.Add(explore.Scenario{Name: "back-pressure-" + tier, Remote: true, Tiers: []string{tier}, MaxDev: map[string]int{"quick": 1, "thorough": 2},
			Run: func(x *explore.X) { world.Run(t, x, func() { scenario(x, 2, true) }) }})
	}
	s.Add(explore.Scenario{Name: "loopback-sockets", Remote: true, StallS: 200, FreeRunning: true, Run: loopbackScenario})
	s.Add(explore.Scenario{Name: "two-tunnels-quick", Remote: true, Tiers: []string{"quick"},
		Run: func(x *explore.X) { world.Run(t, x, func() { twoTunnels(x, 3) }) }})
	s.Add(explore.Scenario{Name: "two-tunnels-thorough", Remote: true, Tiers: []string{"thorough"},
		Run: func(x *explore.X) { world.Run(t, x, func() { twoTunnels(x, 4) }) }})
	s.Main()
}
