// C11: graceful shutdown finishes in-flight work, admits nothing new, leaks nothing.
// Engine S, explicit event histories: 1-3 client connections are put into phases, shutdown is
// requested (through Run's context, or directly on the martian proxy to observe its return value),
// then every order of the post-shutdown events (origin completes, client sends, new client connects,
// client aborts, tunnel ends, clock -> idle timeout, clock -> shutdown timeout) up to a depth is
// explored; invariants are evaluated at every quiescent state.
package c11

import (
	"bytes"
	"context"
	"crypto/tls"
	"crypto/x509"
	"fmt"
	"strings"
	"testing"
	"time"

	"github.com/saucelabs/forwarder"
	"github.com/saucelabs/forwarder/internal/zzverif/explore"
	"github.com/saucelabs/forwarder/internal/zzverif/h1x"
	"github.com/saucelabs/forwarder/internal/zzverif/httpwire"
	"github.com/saucelabs/forwarder/internal/zzverif/world"
)

const (
	idleTO     = 20 * time.Second
	shutdownTO = 5 * time.Second
)

var phases = []string{"idle-no-byte", "partial-head", "request-at-origin", "reply-body-pending", "idle-keep-alive", "in-tunnel", "mitm-idle", "mitm-request-at-origin"}

type conn struct {
	id       int
	phase    string
	raw      *world.Peer
	s        world.Stream
	methods  []string
	oconn    world.Stream // origin connection carrying the in-flight exchange
	tconn    *world.Peer  // tunnel target
	inflight bool         // a request of this connection has reached its origin and is unanswered
	body     []byte       // body the in-flight reply must deliver
	sentHalf int
	aborted  bool
	// requests whose first byte left the client after shutdown began
	lateRequests int
	forwardedLate bool
}

type st struct {
	x      *explore.X
	w      *world.World
	pki    *world.PKI
	ok     *world.Hop
	okTLS  *world.Hop
	tun    *world.Hop
	conns  []*conn
	seenOK int
	// the listener speaks the PROXY protocol and every connection announces the SAME source address and port
	// (a balancer may do that for connections to different destinations): they are still different connections
	sameSource bool
}

const reqHead = "GET http://ok.test/x HTTP/1.1\r\nHost: ok.test\r\n\r\n"
const innerHead = "GET /x HTTP/1.1\r\nHost: ok.test\r\n\r\n"

func (s *st) open(phase string) *conn {
	raw, err := s.w.Client()
	if err != nil {
		s.x.Failf("harness/client", "%v", err)
		return nil
	}
	c := &conn{id: len(s.conns), phase: phase, raw: raw, s: raw}
	s.conns = append(s.conns, c)
	if s.sameSource {
		raw.Send([]byte(fmt.Sprintf("PROXY TCP4 192.0.2.7 198.51.100.%d 40000 3128\r\n", 1+c.id)))
	}
	full := h1x.Pattern(3000, byte(c.id))
	switch phase {
	case "idle-no-byte":
	case "partial-head":
		raw.Send([]byte(reqHead[:12]))
	case "request-at-origin", "reply-body-pending", "idle-keep-alive":
		raw.Send([]byte(reqHead))
		c.methods = append(c.methods, "GET")
		msgs, conns, _ := s.ok.Next()
		if len(msgs) != 1 {
			s.x.Failf("harness/setup", "phase %s: request not forwarded", phase)
			return nil
		}
		c.oconn = s.ok.Conns[conns[0]]
		c.body = full
		switch phase {
		case "request-at-origin":
			c.inflight = true
		case "reply-body-pending":
			c.inflight = true
			c.oconn.Send(append([]byte(fmt.Sprintf("HTTP/1.1 200 OK\r\nContent-Length: %d\r\n\r\n", len(full))), full[:1000]...))
			c.sentHalf = 1000
		case "idle-keep-alive":
			c.oconn.Send(append([]byte(fmt.Sprintf("HTTP/1.1 200 OK\r\nContent-Length: %d\r\n\r\n", len(full))), full...))
		}
	case "in-tunnel":
		raw.Send([]byte("CONNECT tunnel.test:443 HTTP/1.1\r\nHost: tunnel.test:443\r\n\r\n"))
		s.tun.Poll()
		if len(s.tun.Raw) == 0 || string(raw.Recv()) != "HTTP/1.1 200 OK\r\n\r\n" {
			s.x.Failf("harness/setup", "tunnel not established: %q", raw.Recv())
			return nil
		}
		c.tconn = s.tun.Raw[len(s.tun.Raw)-1]
		c.inflight = true
		raw.Send([]byte("hello"))
	case "mitm-idle", "mitm-request-at-origin":
		raw.Send([]byte("CONNECT ok.test:443 HTTP/1.1\r\nHost: ok.test:443\r\n\r\n"))
		if string(raw.Recv()) != "HTTP/1.1 200 OK\r\n\r\n" {
			s.x.Failf("harness/setup", "mitm connect: %q", raw.Recv())
			return nil
		}
		pool := x509.NewCertPool()
		pool.AddCert(s.w.Proxy.MITMCACert())
		tc := world.TLSClient(raw, &tls.Config{RootCAs: pool, ServerName: "ok.test"})
		if done, err := tc.Handshake(); !done || err != nil {
			s.x.Failf("harness/setup", "mitm handshake done=%v err=%v", done, err)
			return nil
		}
		c.s = tc
		if phase == "mitm-request-at-origin" {
			tc.Send([]byte(innerHead))
			c.methods = append(c.methods, "GET")
			msgs, conns, _ := s.okTLS.Next()
			if len(msgs) != 1 {
				s.x.Failf("harness/setup", "mitm inner request not forwarded")
				return nil
			}
			c.oconn = s.okTLS.Conns[conns[0]]
			c.body = full
			c.inflight = true
		}
	}
	return c
}

func (c *conn) closedByProxy() bool {
	st := c.raw.C.Status()
	return st.PeerClosed || st.Reset
}

func scenario(x *explore.X, maxConns, depth int, direct, sameSource bool) {
	s := &st{x: x, pki: world.NewPKI("harness CA"), sameSource: sameSource}
	n := 1 + x.Choose("connections-1", maxConns)
	var ph []string
	needMITM := false
	for i := 0; i < n; i++ {
		p := phases[x.ChooseFree(fmt.Sprintf("phase%d", i), len(phases))]
		ph = append(ph, p)
		if strings.HasPrefix(p, "mitm") {
			needMITM = true
		}
	}
	opts := world.Options{TransportCAPEM: s.pki.CAPEM, ShutdownTimeout: shutdownTO, ProxyProtocol: sameSource}
	// (round 9) the listener has bandwidth limits (far above anything these exchanges need): its connections are wrapped
	// by the rate-limiting listener, whose life cycle (closed when shutdown begins) must not touch exchanges in flight
	if x.Choose("listener-has-bandwidth-limits", 2) == 1 {
		opts.ReadLimit, opts.WriteLimit = 1<<30, 1<<30
	}
	if needMITM {
		opts.MITMDomains = []string{`^ok\.test$`}
	}
	opts.Tweak = func(cfg *forwarder.HTTPProxyConfig, _ *forwarder.HTTPTransportConfig) { cfg.IdleTimeout = idleTO }
	w, err := world.Start(opts)
	if err != nil {
		x.Failf("harness/start", "%v", err)
		return
	}
	s.w = w
	s.ok, _ = w.Hop("ok.test:80", nil)
	s.okTLS, _ = w.Hop("ok.test:443", &tls.Config{Certificates: []tls.Certificate{s.pki.Leaf([]string{"ok.test"}, -time.Hour, time.Hour)}})
	s.tun, _ = w.Hop("tunnel.test:443", nil)
	for _, p := range ph {
		if s.open(p) == nil {
			return
		}
	}
	mp := w.Proxy.VerifMartian()
	if got := int(mp.VerifOpenConns()); got != n {
		x.Failf("open-connection-count", "before shutdown: the proxy counts %d open connections, %d are open", got, n)
	}
	// ---- shutdown ------------------------------------------------------------------------------------
	tShut := time.Now()
	var directRes chan error
	if direct {
		// Shutdown called directly (as Run does it), so that its return value is observable
		directRes = make(chan error, 1)
		ctx, cancel := context.WithTimeout(context.Background(), shutdownTO)
		defer cancel()
		w.Proxy.Close() // close the listeners first, as Run does
		go func() { directRes <- mp.Shutdown(ctx) }()
		world.Settle(0)
	} else {
		w.Shutdown()
		world.Settle(0)
	}
	hist := strings.Join(ph, "+") + map[bool]string{true: "|direct", false: "|run"}[direct]
	originLog := func() int { return len(httpwire.ParseRequests(joinRecv(s.ok)).Msgs) + len(httpwire.ParseRequests(joinRecv(s.okTLS)).Msgs) }
	forwardedBefore := originLog()
	returned := false
	var retErr error

	check := func(ev string) bool {
		x.Check()
		elapsed := time.Since(tShut)
		// nothing first sent after shutdown may reach an origin
		if got := originLog(); got != forwardedBefore {
			x.Failf("late-request-forwarded", "after %q: the origins have received %d requests, %d before shutdown began - a request first sent after shutdown was forwarded (history %s)", ev, got, forwardedBefore, hist)
			return false
		}
		if !returned {
			if direct {
				select {
				case retErr = <-directRes:
					returned = true
				default:
				}
			} else if done, err := w.RunReturned(); done {
				returned, retErr = true, err
			}
			if returned {
				allClosed := true
				for _, c := range s.conns {
					if !c.closedByProxy() && !c.aborted {
						allClosed = false
					}
				}
				if direct {
					// Shutdown reports success only once every served connection has finished and been closed
					if retErr == nil && !allClosed {
						x.Failf("shutdown-success-with-open-connections", "after %q: Shutdown returned nil %v after it began although served connections are still open (history %s)", ev, elapsed, hist)
						return false
					}
					if retErr == nil && mp.VerifOpenConns() != 0 {
						x.Failf("shutdown-success-with-open-connections", "after %q: Shutdown returned nil with open-connection count %d", ev, mp.VerifOpenConns())
						return false
					}
					if retErr != nil && elapsed < shutdownTO {
						x.Failf("shutdown-error-before-deadline", "after %q: Shutdown returned %v after only %v (deadline %v)", ev, retErr, elapsed, shutdownTO)
						return false
					}
				} else {
					// Run returned: Shutdown succeeded or Close ran; either way every accepted socket is closed
					if !allClosed {
						x.Failf("run-returned-with-open-sockets", "after %q: Run returned %v after shutdown began but accepted sockets are still open (history %s)", ev, elapsed, hist)
						return false
					}
					if mp.VerifOpenConns() != 0 {
						x.Failf("open-connection-count", "after %q: Run returned, open-connection count is %d", ev, mp.VerifOpenConns())
						return false
					}
				}
			}
		}
		// while shutdown is pending and its deadline has not passed, in-flight work must not be cut
		if elapsed < shutdownTO {
			for _, c := range s.conns {
				if c.inflight && !c.aborted && c.closedByProxy() {
					x.Failf("in-flight-cut", "after %q (%v after shutdown began, deadline %v): connection %d (%s) with an exchange in flight was closed (history %s)", ev, elapsed, shutdownTO, c.id, c.phase, hist)
					return false
				}
			}
		}
		return true
	}
	if !check("shutdown") {
		finish(s)
		return
	}
	// ---- post-shutdown events, all orders ------------------------------------------------------------------
	for step := 0; step < depth; step++ {
		type event struct {
			name string
			do   func()
		}
		var evs []event
		for _, c := range s.conns {
			c := c
			if c.aborted || c.closedByProxy() {
				continue
			}
			if c.inflight && c.oconn != nil {
				evs = append(evs, event{fmt.Sprintf("origin-completes-%d", c.id), func() {
					if c.sentHalf > 0 {
						c.oconn.Send(c.body[c.sentHalf:])
					} else {
						c.oconn.Send(append([]byte(fmt.Sprintf("HTTP/1.1 200 OK\r\nContent-Length: %d\r\n\r\n", len(c.body))), c.body...))
					}
					c.inflight = false
					// the exchange was in flight when shutdown began: it must complete in full, announce close, and be closed
					rs := httpwire.ParseResponses(c.s.Recv(), c.methods, false)
					if len(rs.Msgs) != len(c.methods) || !bytes.Equal(rs.Msgs[len(rs.Msgs)-1].Body, c.body) {
						x.Failf("in-flight-not-completed", "connection %d (%s): the in-flight exchange did not complete after shutdown began: %d messages, state %q (history %s)", c.id, c.phase, len(rs.Msgs), rs.State, hist)
						return
					}
					m := rs.Msgs[len(rs.Msgs)-1]
					if c.sentHalf == 0 && !strings.EqualFold(strings.Join(m.Get("Connection"), ","), "close") {
						// (when the response head had been relayed before shutdown began it cannot announce the close any more)
						x.Failf("in-flight-no-connection-close", "connection %d (%s): response completed during shutdown lacks Connection: close (%q)", c.id, c.phase, m.Get("Connection"))
					}
					if !c.closedByProxy() {
						x.Failf("in-flight-connection-not-closed", "connection %d (%s): connection still open after its last exchange completed during shutdown", c.id, c.phase)
					}
				}})
			}
			if c.inflight && c.tconn != nil {
				evs = append(evs, event{fmt.Sprintf("tunnel-ends-%d", c.id), func() {
					c.tconn.Send([]byte("bye"))
					if !bytes.HasSuffix(c.raw.Recv(), []byte("bye")) {
						x.Failf("tunnel-cut", "connection %d: tunnel data sent during shutdown did not arrive", c.id)
					}
					c.raw.CloseWrite()
					c.tconn.CloseWrite()
					c.inflight = false
					if !c.closedByProxy() {
						x.Failf("tunnel-not-closed", "connection %d: tunnel sockets not released after both directions finished", c.id)
					}
				}})
			}
			if !c.inflight {
				evs = append(evs, event{fmt.Sprintf("client-sends-%d", c.id), func() {
					switch c.phase {
					case "partial-head":
						c.s.Send([]byte(reqHead[12:]))
					case "mitm-idle":
						c.s.Send([]byte(innerHead))
					default:
						c.s.Send([]byte(reqHead))
					}
				}})
			}
			evs = append(evs, event{fmt.Sprintf("client-aborts-%d", c.id), func() {
				c.raw.Abort()
				c.aborted = true
			}})
		}
		evs = append(evs, event{"new-client-connects", func() {
			p, err := s.w.Client()
			if err != nil {
				return // refused: nothing is listening any more
			}
			p.Send([]byte(reqHead))
			if b := p.Recv(); len(b) > 0 {
				x.Failf("new-connection-served", "a connection opened after shutdown began received %q", world.Clip(b))
			}
			nc := &conn{id: len(s.conns), phase: "late", raw: p, s: p}
			s.conns = append(s.conns, nc)
		}})
		evs = append(evs, event{"clock-to-idle-timeout", func() { world.Settle(idleTO + time.Second - time.Since(tShut)%idleTO) }})
		evs = append(evs, event{"clock-past-shutdown-timeout", func() {
			if d := shutdownTO + time.Second - time.Since(tShut); d > 0 {
				world.Settle(d)
			}
		}})
		evs = append(evs, event{"clock+600ms", func() { world.Settle(600 * time.Millisecond) }})
		x.State(hist, 0)
		ev := evs[x.ChooseFree(fmt.Sprintf("event%d", step), len(evs))]
		hist += ">" + ev.name
		x.Logf("event: %s", ev.name)
		ev.do()
		world.Settle(0)
		if x.Failed() || !check(ev.name) {
			finish(s)
			return
		}
	}
	// ---- final: let the shutdown deadline pass; everything must be gone ----------------------------------------
	if d := shutdownTO + time.Second - time.Since(tShut); d > 0 {
		world.Settle(d)
	}
	world.Settle(time.Second)
	if check("end") {
		if !returned {
			x.Failf("shutdown-did-not-return", "%v after shutdown began (deadline %v) shutdown has not returned (history %s)", time.Since(tShut), shutdownTO, hist)
		} else if direct && retErr != nil {
			// Run would now call Close
			mp.Close()
			world.Settle(time.Second)
		}
		if !direct || retErr != nil {
			// Close has run (inside Run, or just now): nothing may linger, not even for the tunnel grace period
		} else {
			world.Settle(61 * time.Second) // a half-finished tunnel is force-closed after the 60 s grace period
		}
		for _, c := range s.conns {
			if !c.closedByProxy() && !c.aborted {
				x.Failf("socket-open-after-close", "connection %d (%s) is still open after shutdown + Close (history %s)", c.id, c.phase, hist)
			}
		}
		if mp.VerifOpenConns() != 0 || mp.VerifTracked() != 0 {
			x.Failf("open-connection-count", "at the end the proxy counts %d open / %d tracked connections (history %s)", mp.VerifOpenConns(), mp.VerifTracked(), hist)
		}
	}
	x.Outcome(fmt.Sprintf("%s err=%v", strings.Join(ph, "+"), retErr != nil))
	finish(s)
}

func joinRecv(h *world.Hop) []byte {
	h.Poll()
	if len(h.Conns) == 1 {
		return h.Conns[0].Recv()
	}
	// requests never span connections: count per connection
	var out []byte
	for _, c := range h.Conns {
		out = append(out, c.Recv()...)
	}
	return out
}

func finish(s *st) {
	for _, c := range s.conns {
		c.s.Close()
		c.raw.Close()
	}
	s.w.Proxy.VerifMartian().Close()
	if err := s.w.Stop(); err != nil {
		s.x.Failf("shutdown", "%v", err)
	}
	s.ok.Shutdown()
	s.okTLS.Shutdown()
	s.tun.Shutdown()
	world.Settle(10 * time.Second) // dial retries of the transport back off on the clock
	if n := s.w.Proxy.VerifMartian().VerifOpenConns(); n != 0 && !s.x.Failed() {
		s.x.Failf("open-connection-count", "after every origin has gone away the proxy still counts %d open connections", n)
	}
	if s.x.Tracing() {
		for _, c := range s.w.Net.Conns() {
			s.x.Logf("conn %s closed=%v status=%+v", c.Name, c.IsClosed(), c.Status())
		}
	}
	if l := world.Leaks(); l != "" {
		s.x.Failf("goroutine-leak", "goroutines left after shutdown and Close:\n%s", l)
	}
}

// ---- listeners that speak TLS: connections in and around the handshake -----------------------------------------------

// (an idle connection that has completed its handshake keeps Shutdown waiting until its deadline, as on a plain
// listener - that is the main scenario's business)
var tlsPhases = []string{"no-byte", "partial-hello", "closed-before-hello", "closed-mid-hello", "reset-mid-hello", "handshake-done-then-closed"}

// tlsListenerScenario: on a TLS listener (handshake timeout 5 s) 1-3 clients are at or around the handshake -
// silent, half-way through their hello, gone (FIN or RST) before or in the middle of it, or through it and
// gone. Then Shutdown(30 s) is called on the proxy. Handshakes that will never finish time out at 5 s and
// everything else ends at once, so Shutdown must report success, the open-connection count must be zero and
// every accepted socket closed - however the connection left the handshake.
func tlsListenerScenario(x *explore.X, maxConns int) {
	n := 1 + x.ChooseFree("connections-1", maxConns)
	var ph []string
	for i := 0; i < n; i++ {
		ph = append(ph, tlsPhases[x.ChooseFree(fmt.Sprintf("phase%d", i), len(tlsPhases))])
	}
	opts := world.Options{TLSListener: true}
	opts.Tweak = func(cfg *forwarder.HTTPProxyConfig, _ *forwarder.HTTPTransportConfig) {
		cfg.TLSServerConfig.HandshakeTimeout = 5 * time.Second
	}
	w, err := world.Start(opts)
	if err != nil {
		x.Failf("harness/start", "%v", err)
		return
	}
	hello := []byte{0x16, 0x03, 0x01, 0x02, 0x00, 0x01, 0x00, 0x01, 0xfc, 0x03, 0x03, 1, 2, 3}
	var raws []*world.Peer
	var closers []interface{ Close() }
	for i := 0; i < n; i++ {
		p, err := w.Client()
		if err != nil {
			x.Failf("harness/client", "%v", err)
			return
		}
		raws = append(raws, p)
		switch ph[i] {
		case "partial-hello":
			p.Send(hello)
		case "closed-before-hello":
			p.Close()
		case "closed-mid-hello":
			p.Send(hello)
			p.Close()
		case "reset-mid-hello":
			p.Send(hello)
			p.Abort()
		case "handshake-done-then-closed":
			tc := world.TLSClient(p, &tls.Config{InsecureSkipVerify: true})
			if done, err := tc.Handshake(); !done || err != nil {
				x.Failf("harness/handshake", "done=%v err=%v", done, err)
				return
			}
			tc.Close()
		}
	}
	mp := w.Proxy.VerifMartian()
	ctx, cancel := context.WithTimeout(context.Background(), 30*time.Second)
	defer cancel()
	t0 := time.Now()
	res := make(chan error, 1)
	go func() { res <- mp.Shutdown(ctx) }()
	world.Settle(31 * time.Second)
	x.Check()
	what := fmt.Sprintf("TLS listener, clients %v, Shutdown with a 30 s deadline", ph)
	select {
	case err := <-res:
		if err != nil {
			x.Failf("shutdown-does-not-finish/tls-listener", "%s: returned %v after %v; open-connection count %d, registered %d", what, err, time.Since(t0), mp.VerifOpenConns(), mp.VerifTracked())
		}
	default:
		x.Failf("shutdown-does-not-finish/tls-listener", "%s: has not returned after 31 s", what)
	}
	if c := mp.VerifOpenConns(); c != 0 && !x.Failed() {
		x.Failf("open-connection-count/tls-listener", "%s: open-connection count is %d after Shutdown", what, c)
	}
	for i, p := range raws {
		st := p.C.Status()
		if !(st.PeerClosed || st.Reset || st.Closed) && !x.Failed() {
			x.Failf("socket-left-open/tls-listener", "%s: the socket of client %d (%s) is still open", what, i, ph[i])
		}
	}
	x.Outcome(fmt.Sprint(len(ph)))
	for _, c := range closers {
		c.Close()
	}
	for _, p := range raws {
		p.Close()
	}
	if err := w.Stop(); err != nil {
		x.Failf("shutdown", "%v", err)
	}
	if l := world.Leaks(); l != "" {
		x.Failf("goroutine-leak", "%s", l)
	}
}

func TestC11(t *testing.T) {
	s := explore.NewSuite(t, "C11", "model_checking",
		"1-2 (quick) / 1-3 (thorough) client connections, each in one of 8 phases (idle before any byte, partial head, request at origin, reply head relayed and body pending, idle keep-alive, inside CONNECT tunnel, inside MITM idle, inside MITM with request at origin) [full product]; then shutdown, through Run's context and directly on the martian proxy (return value observable); then EVERY order of post-shutdown events (origin completes i, tunnel ends i, client i sends, client i aborts, new client connects, clock +600 ms, clock to idle timeout, clock past shutdown timeout) to depth 2 (quick) / 3 (thorough); states = quiescent event histories; invariants at every state: no request first sent after shutdown reaches an origin, in-flight exchanges are not cut before the deadline and complete in full with Connection: close and then the socket is closed, late connections get no byte, Shutdown returns nil only with all served connections closed and an error only at the deadline, after Run returns / after Close every accepted socket is closed and the open-connection counter is 0, no goroutine survives; plus (tls-listener) 1-2 (quick) / 1-3 (thorough) clients on a TLS listener in one of 6 phases around the handshake (silent, partial hello, closed before / in the middle of the hello with FIN or RST, handshake done and then closed) [full product], then Shutdown with a 30 s deadline: it must succeed with count 0 and every socket closed; plus (same-announced-source) the shutdown family on a PROXY-protocol listener where every connection announces the same source address and port; (round 9) x listener with bandwidth limits (connections wrapped by the rate-limiting listener, which is closed when shutdown begins)")
	s.Assume = []string{"virtual clock; sync.Mutex of proxy.go replaced by a durably-blocking mutex at build time (Shutdown holds connsMu across its timed wait)", "(registration-vs-shutdown) sync.Mutex / atomic.Int32 / sync.Once and the go statement of internal/martian/proxy.go are redirected at build time to a cooperative scheduler: all interleavings of 1 (quick, at most 2 preemptions) / 1-2 (quick with at most 1 preemption, thorough with at most 2) handleLoop registrations, Shutdown and Close; the iteration order of the connection map in Close is an explored choice"}
	for _, tier := range []string{"quick", "thorough"} {
		mc := map[string]int{"quick": 2, "thorough": 2}[tier]
		depth := map[string]int{"quick": 2, "thorough": 3}[tier]
		for _, direct := range []bool{false, true} {
			direct := direct
			s.Add(explore.Scenario{Name: fmt.Sprintf("shutdown-%s-direct=%v", tier, direct), Remote: true, Tiers: []string{tier}, MaxDev: map[string]int{"quick": 1, "thorough": 1},
				Run: func(x *explore.X) { world.Run(t, x, func() { scenario(x, mc, depth, direct, false) }) }})
		}
	}
	s.Add(explore.Scenario{Name: "same-announced-source-quick", Remote: true, Tiers: []string{"quick"}, MaxDev: map[string]int{"quick": 1},
		Run: func(x *explore.X) { world.Run(t, x, func() { scenario(x, 2, 1, true, true) }) }})
	s.Add(explore.Scenario{Name: "same-announced-source-thorough", Remote: true, Tiers: []string{"thorough"}, MaxDev: map[string]int{"thorough": 1},
		Run: func(x *explore.X) { world.Run(t, x, func() { scenario(x, 2, 2, true, true) }) }})
	s.Add(explore.Scenario{Name: "registration-vs-shutdown-quick", Remote: true, Tiers: []string{"quick"}, MaxDev: map[string]int{"quick": 2},
		Run: func(x *explore.X) { registrationScenario(t, x, 1) }})
	s.Add(explore.Scenario{Name: "registration-vs-shutdown-two-connections-quick", Remote: true, Tiers: []string{"quick"}, MaxDev: map[string]int{"quick": 1},
		Run: func(x *explore.X) { registrationScenario(t, x, 2) }})
	s.Add(explore.Scenario{Name: "registration-vs-shutdown-thorough", Remote: true, Tiers: []string{"thorough"}, MaxDev: map[string]int{"thorough": 2},
		Run: func(x *explore.X) { registrationScenario(t, x, 2) }})
	s.Add(explore.Scenario{Name: "tls-listener-quick", Remote: true, Tiers: []string{"quick"}, Run: func(x *explore.X) { world.Run(t, x, func() { tlsListenerScenario(x, 2) }) }})
	s.Add(explore.Scenario{Name: "tls-listener-thorough", Remote: true, Tiers: []string{"thorough"}, Run: func(x *explore.X) { world.Run(t, x, func() { tlsListenerScenario(x, 3) }) }})
	s.Main()
}
