package c11

import (
	"context"
	"fmt"
	"testing"
	"time"

	"github.com/saucelabs/forwarder"
	"github.com/saucelabs/forwarder/internal/zzverif/explore"
	"github.com/saucelabs/forwarder/internal/zzverif/tsched"
	"github.com/saucelabs/forwarder/internal/zzverif/vsync"
	"github.com/saucelabs/forwarder/internal/zzverif/world"
)

// registrationScenario (Engine T): connections arrive while Shutdown (and then Close) run. The handleLoop
// goroutines (rewritten go statement), the Shutdown caller and a Close caller are scheduler threads; every
// interleaving of their lock / atomic operations within the preemption bound is explored.
func registrationScenario(t *testing.T, x *explore.X, maxConns int) {
	nconn := 1 + x.ChooseFree("connections-1", maxConns)
	behaviour := make([]int, nconn)
	for i := range behaviour {
		behaviour[i] = x.ChooseFree(fmt.Sprintf("client%d", i), 2) // 0 stays idle, 1 closes at once
	}
	closer := x.ChooseFree("separate-close-caller", 2) == 1
	var w *world.World
	var clients []*world.Peer
	var shutErr error
	servedOpenAtNil := ""
	openAfterClose := ""
	tsched.Run(t, x, 30*time.Second, false, func() {
		var err error
		w, err = world.Start(world.Options{ShutdownTimeout: shutdownTO, Tweak: func(cfg *forwarder.HTTPProxyConfig, _ *forwarder.HTTPTransportConfig) { cfg.IdleTimeout = idleTO }})
		if err != nil {
			x.Failf("harness/start", "%v", err)
			return
		}
		mp := w.Proxy.VerifMartian()
		for i := 0; i < nconn; i++ {
			c, err := w.Client() // accepted by Serve (a plain goroutine); its handleLoop becomes a parked thread
			if err != nil {
				x.Failf("harness/client", "%v", err)
				return
			}
			if behaviour[i] == 1 {
				c.C.Close()
			}
			clients = append(clients, c)
		}
		vsync.GoNamed("shutdown", func() {
			ctx, cancel := context.WithTimeout(context.Background(), 40*time.Millisecond) // a handful of polls
			defer cancel()
			shutErr = mp.Shutdown(ctx)
			if shutErr == nil {
				// success is reported only once every connection that was being served is closed
				for i, c := range clients {
					st := c.C.Status()
					if !st.PeerClosed && (st.PeerReading || st.PeerRead > 0) {
						servedOpenAtNil += fmt.Sprintf(" client%d(reading=%v)", i, st.PeerReading)
					}
				}
			}
			if !closer {
				mp.Close()
				// Close has returned: every accepted socket is closed NOW (not when an idle limit cleans up later)
				for i, c := range clients {
					// (a connection whose handler has not started yet is closed by that handler a moment later)
					if st := c.C.Status(); !st.PeerClosed && (st.PeerReading || st.PeerRead > 0) {
						openAfterClose += fmt.Sprintf(" client%d", i)
					}
				}
			}
		})
		if closer {
			vsync.GoNamed("close", func() { mp.Close() })
		}
	}, func(s *vsync.Scheduler) {
		if w == nil {
			return
		}
		x.Check()
		mp := w.Proxy.VerifMartian()
		world.Settle(time.Second)
		what := fmt.Sprintf("%d connections %v, separate close caller=%v", nconn, behaviour, closer)
		if servedOpenAtNil != "" {
			x.Failf("shutdown-success-with-served-connection-open", "%s: Shutdown returned nil while connections being served were still open:%s\n  schedule: %v", what, servedOpenAtNil, s.Trace)
		}
		if openAfterClose != "" {
			x.Failf("socket-open-after-close", "%s: when Close returned (after Shutdown: %v) these accepted sockets were still open:%s\n  schedule: %v", what, shutErr, openAfterClose, s.Trace)
		}
		for i, c := range clients {
			if st := c.C.Status(); !st.PeerClosed {
				x.Failf("socket-open-after-close", "%s: client %d is still open after Shutdown (%v) and Close\n  schedule: %v", what, i, shutErr, s.Trace)
			}
		}
		if mp.VerifOpenConns() != 0 || mp.VerifTracked() != 0 {
			x.Failf("open-connection-count", "%s: after Shutdown and Close the proxy counts %d open / %d tracked connections\n  schedule: %v", what, mp.VerifOpenConns(), mp.VerifTracked(), s.Trace)
		}
		x.Outcome(fmt.Sprintf("n=%d err=%v", nconn, shutErr != nil))
		for _, c := range clients {
			c.C.Close()
		}
		if err := w.Stop(); err != nil {
			x.Failf("shutdown", "%v", err)
		}
		if l := world.Leaks(); l != "" {
			x.Failf("goroutine-leak", "%s", l)
		}
	})
}
