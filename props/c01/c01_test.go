// C01: forwarded HTTP/1 requests carry exactly what the client sent.
// Engine S: the real HTTPProxy on simnet; every (history x request shape x segmentation x
// configuration) combination within the deviation bound is executed and the bytes captured at the
// next hop are parsed by the independent httpwire parser and compared with expectForwarded.
package c01

import (
	"bytes"
	"net"
	"encoding/base64"
	"crypto/tls"
	"crypto/x509"
	"fmt"
	"github.com/saucelabs/forwarder/internal/zzverif/tcore"
	"strings"
	"testing"
	"time"

	"github.com/saucelabs/forwarder/internal/zzverif/explore"
	"github.com/saucelabs/forwarder/internal/zzverif/h1x"
	"github.com/saucelabs/forwarder/internal/zzverif/httpwire"
	"github.com/saucelabs/forwarder/internal/zzverif/world"
)

type F = h1x.F

type reqSpec struct {
	tls      bool // sent inside a MITM'd tunnel
	method   string
	form     int // 0 origin-form, 1 absolute-form, 2 absolute-form with empty path, 3 asterisk
	pathq    string
	shape    int
	fields   []F
	framing  string
	body     []byte
	chunks   []int
	chunkExt bool
	proto    string
}

var methods = []string{"GET", "HEAD", "POST", "PUT", "DELETE", "OPTIONS"}
var pathqs = []string{"/", "/a/b?x=1&y=%20z", "/%2F%41;p?q=a+b%3D", "//d", "/?", "/a%2fb/../c?", "/x?a=1&a=2"}
var sizes = []int{1, 0, 4095, 4096, 4097, 32767, 32768, 32769, 70000}

type shapeDef struct {
	name   string
	fields []F
}

var shapes = []shapeDef{
	{"none", nil},
	{"repeated-interleaved", []F{{"X-A", "1"}, {"X-B", "b1"}, {"X-A", "2"}, {"X-B", "b2"}, {"X-A", "3"}}},
	{"mixed-case", []F{{"x-lower", "l"}, {"X-UPPER", "U"}, {"x-MiXed", "m"}}},
	{"conn-close-nominated", []F{{"Connection", "close, X-Hop"}, {"X-Hop", "h"}, {"X-Keep", "k"}}},
	{"keep-alive", []F{{"Connection", "keep-alive"}, {"Keep-Alive", "timeout=5"}}},
	{"proxy-connection", []F{{"Proxy-Connection", "keep-alive"}}},
	{"te", []F{{"TE", "trailers"}, {"Connection", "TE"}}},
	{"upgrade-without-connection", []F{{"Upgrade", "foo"}}},
	{"via-one-line", []F{{"Via", "1.0 fred, 1.1 p.example.net"}}},
	{"via-two-lines", []F{{"Via", "1.0 fred"}, {"X-Mid", "m"}, {"Via", "1.1 p.example.net"}}},
	{"xff-one-line", []F{{"X-Forwarded-For", "192.0.2.1, 192.0.2.2"}}},
	{"xff-two-lines", []F{{"X-Forwarded-For", "192.0.2.1"}, {"X-Forwarded-For", "192.0.2.2"}}},
	{"xf-preset", []F{{"X-Forwarded-Proto", "http"}, {"X-Forwarded-Host", "front.test"}, {"X-Forwarded-Url", "https://front.test/z"}}},
	{"accept-encoding", []F{{"Accept-Encoding", "br"}}},
	{"user-agent", []F{{"User-Agent", "ua/1.0"}}},
	{"authorization", []F{{"Authorization", "Basic Zm9vOmJhcg=="}, {"Cookie", "a=1; b=2"}, {"Cookie", "c=3"}}},
	{"proxy-authorization", []F{{"Proxy-Authorization", "Basic Zm9vOmJhcg=="}, {"Proxy-Authenticate", "x"}}},
	{"empty-value", []F{{"X-Empty", ""}, {"X-Sp", "a  b"}}},
	{"range", []F{{"Range", "bytes=0-1"}, {"If-None-Match", "\"x\""}}},
	{"keep-alive-alone", []F{{"Keep-Alive", "timeout=5"}}},
	{"te-alone", []F{{"TE", "trailers"}}},
	{"trailer-alone", []F{{"Trailer", "X-T"}}},
	{"upgrade-requested", []F{{"Connection", "Upgrade"}, {"Upgrade", "foo"}}},
	{"upgrade-requested-and-nominated", []F{{"Connection", "Upgrade, X-Hop"}, {"Upgrade", "foo"}, {"X-Hop", "h"}, {"X-Keep", "k"}}},
	{"nominated-mixed-case", []F{{"Connection", "x-hOp , Keep-Alive"}, {"X-Hop", "h"}, {"Keep-Alive", "timeout=1"}, {"X-Hop2", "2"}}},
	// the list syntax of Connection: optional whitespace around the commas is optional, empty elements are ignored, several lines are one list
	{"nominated-no-space", []F{{"Connection", "X-Hop-A,X-Hop-B"}, {"X-Hop-A", "a"}, {"X-Hop-B", "b"}, {"X-Keep", "k"}}},
	{"nominated-tab-and-empty-elements", []F{{"Connection", "X-Hop-A,\tX-Hop-B ,, X-Hop-C,"}, {"X-Hop-A", "a"}, {"X-Hop-B", "b"}, {"X-Hop-C", "c"}, {"X-Keep", "k"}}},
	{"nominated-two-lines", []F{{"Connection", "X-Hop-A"}, {"X-Keep", "k"}, {"Connection", "X-Hop-B"}, {"X-Hop-A", "a"}, {"X-Hop-B", "b"}}},
}

// ruleSets: configured --header rules (C16 checks the rule semantics in isolation; here: that they are applied
// to forwarded requests at the documented place, after the proxy's own additions, and nothing is invented).
var ruleSets = [][]string{nil, {"-User-Agent"}, {"X-Added: v"}, {"-X-*"}, {"%x-lower"}, {"X-Empty;", "-Cookie"}, {"-User-Agent", "-Accept-Encoding"}}

var hopByHop = map[string]bool{"connection": true, "keep-alive": true, "proxy-authenticate": true, "proxy-authorization": true,
	"proxy-connection": true, "te": true, "trailer": true, "transfer-encoding": true, "upgrade": true}

const originHost = "origin.test"

func (r reqSpec) msg() h1x.Msg {
	target := r.pathq
	scheme := "http"
	if r.tls {
		scheme = "https"
	}
	switch r.form {
	case 1:
		target = scheme + "://" + originHost + r.pathq
	case 2:
		target = scheme + "://" + originHost
	case 3:
		target = "*"
	}
	m := h1x.Msg{Start: r.method + " " + target + " " + r.proto, Framing: r.framing, Body: r.body, Chunks: r.chunks, ChunkExt: r.chunkExt}
	m.Fields = append([]F{{"Host", originHost}}, r.fields...)
	return m
}

func chooseRequest(x *explore.X, label string) reqSpec {
	r := reqSpec{proto: "HTTP/1.1"}
	r.method = methods[x.Choose(label+"method", len(methods))]
	if r.method == "OPTIONS" {
		r.form = []int{0, 1, 2, 3}[x.Choose(label+"form", 4)]
	} else {
		r.form = x.Choose(label+"form", 3)
	}
	if r.form == 0 || r.form == 1 {
		r.pathq = pathqs[x.Choose(label+"pathq", len(pathqs))]
	}
	r.shape = x.Choose(label+"shape", len(shapes))
	r.fields = shapes[r.shape].fields
	if r.method != "GET" && r.method != "HEAD" {
		switch x.Choose(label+"framing", 3) {
		case 1:
			r.framing = "cl"
		case 2:
			r.framing = "chunked"
		}
		if r.framing != "" {
			n := sizes[x.Choose(label+"size", len(sizes))]
			r.body = h1x.Pattern(n, 3)
			if r.framing == "chunked" {
				switch x.Choose(label+"chunking", 4) {
				case 1:
					r.chunks = []int{n / 2}
				case 2:
					r.chunks = []int{1, 1, 1}
				case 3:
					r.chunkExt = true
					r.chunks = []int{n / 3, n / 3}
				}
			}
		}
	}
	if x.Choose(label+"version", 2) == 1 {
		r.proto = "HTTP/1.0"
		if r.framing == "chunked" {
			r.framing = "cl" // chunked is not defined for HTTP/1.0 requests
			r.chunks = nil
		}
	}
	return r
}

// productRequest enumerates the full product body framing x size x chunking of a POST.
func productRequest(x *explore.X) reqSpec {
	r := reqSpec{proto: "HTTP/1.1", method: "POST", pathq: "/p"}
	n := sizes[x.ChooseFree("size", len(sizes))]
	r.body = h1x.Pattern(n, 3)
	if x.ChooseFree("framing", 2) == 0 {
		r.framing = "cl"
		return r
	}
	r.framing = "chunked"
	switch x.ChooseFree("chunking", 4) {
	case 1:
		r.chunks = []int{n / 2}
	case 2:
		r.chunks = []int{1, 1, 1}
	case 3:
		r.chunkExt = true
		r.chunks = []int{n / 3, n / 3}
	}
	return r
}

// segment cuts the serialised request according to the chosen class.
func segment(x *explore.X, label string, m h1x.Msg, free bool) [][]byte {
	head := m.Head()
	wire := m.Wire()
	hl := len(head)
	choose := x.Choose
	if free {
		choose = x.ChooseFree
	}
	switch choose(label+"segmentation", 9) {
	case 1: // inside the request line
		return h1x.Cut(wire, 5)
	case 2: // inside a field
		return h1x.Cut(wire, hl-6)
	case 3: // between CR and LF of the request line
		return h1x.Cut(wire, bytes.IndexByte(wire, '\r')+1)
	case 4: // between head and body
		return h1x.Cut(wire, hl)
	case 5: // just after the first body byte / inside the first chunk-size line
		return h1x.Cut(wire, hl+1)
	case 6: // mid-body
		return h1x.Cut(wire, hl+(len(wire)-hl)/2)
	case 7: // head byte-wise, body whole
		var out [][]byte
		for i := 0; i < hl; i++ {
			out = append(out, wire[i:i+1])
		}
		if len(wire) > hl {
			out = append(out, wire[hl:])
		}
		return out
	case 8: // three segments: mid-head, head|body, 4096 bytes into the body
		return h1x.Cut(wire, hl/2, hl, hl+4096)
	}
	return [][]byte{wire}
}

type env struct {
	rules       int // index into ruleSets
	mitm        bool
	viaUpstream bool
	clientIP    string
	tag         string // learned from the first forwarded request
}

// expectForwarded compares what the next hop received with what the client sent (statement of C01).
func expectForwarded(x *explore.X, e *env, r reqSpec, got httpwire.Msg) {
	fail := func(sig, format string, a ...any) {
		x.Failf(sig, "%s\n  client sent: %q\n  next hop got: %q", fmt.Sprintf(format, a...), world.Clip(r.msg().Head()), world.Clip(got.Raw[:got.HeadLen]))
	}
	x.Check()
	if got.Method != r.method {
		fail("method", "method %q, want %q", got.Method, r.method)
	}
	if got.Proto != "HTTP/1.1" {
		fail("proto", "forwarded with version %q", got.Proto)
	}
	// target
	pq := r.pathq
	switch r.form {
	case 2:
		pq = "/"
	case 3:
		pq = "*"
	}
	want := pq
	if e.viaUpstream && r.form != 3 {
		want = "http://" + originHost + pq
	}
	if got.Target != want {
		sig := "target"
		if strings.HasSuffix(r.pathq, "?") {
			sig = "target/empty-query-dropped"
		}
		if r.form == 3 && e.viaUpstream {
			sig = "target/asterisk-form-via-upstream-proxy"
		}
		fail(sig, "request target %q, want %q", got.Target, want)
	}
	if h := got.Get("Host"); len(h) != 1 || h[0] != originHost {
		fail("host", "Host %q, want [%q]", h, originHost)
	}
	// header fields
	sent := map[string][]string{}
	nominated := map[string]bool{}
	upgradeRequested := false
	for _, f := range r.fields {
		if strings.EqualFold(f.Name, "Connection") {
			for _, tok := range strings.Split(f.Value, ",") {
				tok = strings.ToLower(strings.TrimSpace(tok))
				nominated[tok] = true
				if tok == "upgrade" {
					upgradeRequested = true
				}
			}
		}
	}
	for _, f := range r.fields {
		l := strings.ToLower(f.Name)
		sent[l] = append(sent[l], f.Value)
	}
	gotBy := map[string][]string{}
	for _, f := range got.Fields {
		l := strings.ToLower(f.Name)
		gotBy[l] = append(gotBy[l], f.Value)
	}
	// configured header rules (reference semantics of C16, applied after the proxy's own additions)
	dropX, noUA, noAE := false, false, false
	for _, rule := range ruleSets[e.rules] {
		switch rule {
		case "-User-Agent":
			delete(sent, "user-agent")
			noUA = true
		case "-Accept-Encoding":
			delete(sent, "accept-encoding")
			noAE = true
		case "X-Added: v":
			if _, removed := nominated["x-added"]; !removed {
				sent["x-added"] = append(sent["x-added"], "v")
			}
		case "-X-*":
			dropX = true
			for k := range sent {
				if strings.HasPrefix(k, "x-") {
					delete(sent, k)
				}
			}
		case "%x-lower":
			for _, f := range got.Fields {
				if strings.EqualFold(f.Name, "x-lower") && f.Name != "x-lower" {
					fail("header-rule/rename", "rule %%x-lower: field is spelt %q at the next hop", f.Name)
				}
			}
		case "X-Empty;":
			sent["x-empty"] = []string{""}
		case "-Cookie":
			delete(sent, "cookie")
		}
	}
	if noUA {
		if g, ok := gotBy["user-agent"]; ok {
			fail("header-rule/user-agent-after-removal", "rule -User-Agent is configured but the next hop received User-Agent %q", g)
		}
	}
	if noAE {
		// (the transport may add its own Accept-Encoding: gzip when none is left; that is the documented addition)
	}
	if dropX {
		for k, g := range gotBy {
			if strings.HasPrefix(k, "x-") {
				fail("header-rule/prefix-removal", "rule -X-* is configured but the next hop received %q = %q", k, g)
			}
		}
	}
	documented := map[string]bool{"host": true, "via": true, "x-forwarded-for": true, "x-forwarded-proto": true, "x-forwarded-host": true,
		"x-forwarded-url": true, "accept-encoding": true, "content-length": true, "transfer-encoding": true}
	for name, vals := range sent {
		removed := hopByHop[name] || nominated[name]
		if name == "upgrade" && upgradeRequested {
			removed = false
		}
		if name == "trailer" && got.Framing == "chunked" && strings.Join(gotBy[name], ",") == strings.Join(vals, ",") {
			// the proxy re-frames the body with chunked coding and forwards the trailer section: the
			// Trailer declaration it emits is part of its own framing, like Transfer-Encoding
			continue
		}
		switch {
		case name == "via" || name == "x-forwarded-for":
			continue // element lists, below
		case name == "connection":
			// the client's Connection field is consumed; what the next hop sees is the proxy's own (checked below)
		case removed:
			if g, ok := gotBy[name]; ok {
				fail("hop-by-hop-forwarded/"+name, "hop-by-hop field %q forwarded with %q", name, g)
			}
		default:
			if g := gotBy[name]; strings.Join(g, "\x00") != strings.Join(vals, "\x00") || len(g) != len(vals) {
				fail("field-values/"+name, "field %q has values %q, want %q", name, g, vals)
			}
		}
	}
	for name, g := range gotBy {
		if name == "connection" {
			// the proxy's own connection management on its hop (close / keep-alive) is not part of the message
			ok := true
			for _, v := range g {
				if lv := strings.ToLower(v); lv != "close" && lv != "keep-alive" {
					ok = false
				}
			}
			if ok {
				continue
			}
		}
		if _, ok := sent[name]; !ok && !documented[name] {
			fail("invented-field/"+name, "next hop received field %q = %q the client never sent", name, g)
		}
	}
	if _, ok := sent["user-agent"]; !ok {
		if g, ok := gotBy["user-agent"]; ok {
			fail("invented-field/user-agent", "User-Agent %q invented", g)
		}
	}
	// Via: client's elements (all lines) + exactly one appended element with the client's version
	elems := func(vals []string) []string {
		var out []string
		for _, v := range vals {
			for _, el := range strings.Split(v, ",") {
				if el = strings.TrimSpace(el); el != "" {
					out = append(out, el)
				}
			}
		}
		return out
	}
	gv := elems(gotBy["via"])
	sv := elems(sent["via"])
	if len(gv) == 0 {
		fail("via/missing", "no Via element appended")
	} else {
		own := gv[len(gv)-1]
		ver := strings.TrimPrefix(r.proto, "HTTP/")
		if !strings.HasPrefix(own, ver+" forwarder-") {
			fail("via/own-element", "appended Via element %q, want %q", own, ver+" forwarder-<tag>")
		} else {
			tag := strings.TrimPrefix(own, ver+" ")
			if e.tag == "" {
				e.tag = tag
			} else if e.tag != tag {
				fail("via/tag-changes", "Via tag %q differs from the first one %q", tag, e.tag)
			}
		}
		if strings.Join(gv[:len(gv)-1], "|") != strings.Join(sv, "|") {
			sig := "via/client-elements"
			if len(sent["via"]) > 1 {
				sig = "via/client-elements/several-lines"
			}
			fail(sig, "Via elements before the appended one are %q, want the client's %q", gv[:len(gv)-1], sv)
		}
	}
	gx := elems(gotBy["x-forwarded-for"])
	sx := elems(sent["x-forwarded-for"])
	if dropX {
		// removed by the configured prefix rule, checked above
	} else if len(gx) == 0 || gx[len(gx)-1] != e.clientIP {
		fail("xff/client-address", "X-Forwarded-For %q does not end with the client address %q", gx, e.clientIP)
	} else if strings.Join(gx[:len(gx)-1], "|") != strings.Join(sx, "|") {
		sig := "xff/client-elements"
		if len(sent["x-forwarded-for"]) > 1 {
			sig = "xff/client-elements/several-lines"
		}
		fail(sig, "X-Forwarded-For elements before the appended one are %q, want the client's %q", gx[:len(gx)-1], sx)
	}
	// X-Forwarded-Proto/Host/Url filled in only when absent
	scheme := "http"
	if e.mitm {
		scheme = "https"
	}
	fill := map[string]string{"x-forwarded-proto": scheme, "x-forwarded-host": originHost, "x-forwarded-url": scheme + "://" + originHost + pq}
	if r.form == 3 {
		delete(fill, "x-forwarded-url")
	}
	for name, wantv := range fill {
		if _, ok := sent[name]; ok || dropX {
			continue // compared above as an ordinary end-to-end field (or removed by the prefix rule)
		}
		if g := gotBy[name]; len(g) != 1 || (g[0] != wantv && !(name == "x-forwarded-url" && r.form == 2 && g[0] == scheme+"://"+originHost)) {
			fail("x-forwarded-fill/"+name, "%s = %q, want [%q]", name, g, wantv)
		}
	}
	if _, ok := sent["accept-encoding"]; !ok {
		if g := gotBy["accept-encoding"]; len(g) > 0 && !(len(g) == 1 && g[0] == "gzip") {
			fail("accept-encoding", "Accept-Encoding %q added", g)
		}
	}
	// body
	if !bytes.Equal(got.Body, r.body) {
		d := 0
		for d < len(got.Body) && d < len(r.body) && got.Body[d] == r.body[d] {
			d++
		}
		fail("body", "body differs: got %d bytes, want %d, first difference at offset %d", len(got.Body), len(r.body), d)
	}
	if r.framing == "cl" {
		if got.Framing == "cl" {
			if cl := got.Get("Content-Length"); len(cl) != 1 || cl[0] != fmt.Sprint(len(r.body)) {
				fail("content-length", "Content-Length %q, want %d", cl, len(r.body))
			}
		} else if !(got.Framing == "none" && len(r.body) == 0) && got.Framing != "chunked" {
			fail("framing", "body framing %q for a Content-Length request", got.Framing)
		}
	}
	if r.framing == "" && (got.Framing == "chunked" || len(got.Body) > 0) {
		fail("framing", "bodiless request forwarded with framing %q and %d body bytes", got.Framing, len(got.Body))
	}
}

func okResponse(method string) []byte {
	if method == "HEAD" {
		return []byte("HTTP/1.1 200 OK\r\nContent-Length: 2\r\n\r\n")
	}
	return []byte("HTTP/1.1 200 OK\r\nContent-Length: 2\r\n\r\nok")
}

func historyKinds() []reqSpec {
	return []reqSpec{
		{method: "GET", pathq: "/h1", proto: "HTTP/1.1"},
		{method: "POST", pathq: "/h2", proto: "HTTP/1.1", framing: "cl", body: h1x.Pattern(5000, 1)},
		{method: "POST", pathq: "/h3", proto: "HTTP/1.1", framing: "chunked", body: h1x.Pattern(33000, 2), chunks: []int{100, 32768}},
		{method: "HEAD", pathq: "/h4", proto: "HTTP/1.1"},
		{method: "PUT", pathq: "/h5", proto: "HTTP/1.1", framing: "cl", body: nil},
	}
}

func scenario(x *explore.X, product bool, ncfg int) {
	opts := world.Options{}
	e := &env{}
	choose := x.Choose
	if product {
		choose = x.ChooseFree
	}
	cfgk := choose("config", ncfg)
	// (round 9) the next hop is selected by a PAC script instead of --proxy / nothing: the proxy-selection function of
	// the transport is handed the live URL of the request that is about to be written
	viaPAC := false
	if !product {
		viaPAC = x.Choose("next-hop-selected-by-pac", 2) == 1
	}
	if !product {
		e.rules = x.Choose("header-rules", len(ruleSets))
		opts.RequestHeaders = ruleSets[e.rules]
	}
	nextHopAddr := originHost + ":80"
	var pki *world.PKI
	switch cfgk {
	case 1:
		opts.Upstream = "http://up.test:8080"
		if viaPAC {
			opts.Upstream = ""
			opts.PAC = `function FindProxyForURL(url, host) { return "PROXY up.test:8080"; }`
		}
		nextHopAddr = "up.test:8080"
		e.viaUpstream = true
	case 2:
		opts.MITM = true
		e.mitm = true
		nextHopAddr = originHost + ":443"
		pki = world.NewPKI("harness origin CA")
		opts.TransportCAPEM = pki.CAPEM
	}
	if viaPAC && cfgk != 1 {
		opts.PAC = `function FindProxyForURL(url, host) { return "DIRECT"; }`
	}
	// history: 0 none, 1..5 one earlier request, 6.. two earlier requests
	hk := historyKinds()
	var seq []reqSpec
	h := choose("history", 1+len(hk)+len(hk))
	switch {
	case h == 0:
	case h <= len(hk):
		seq = append(seq, hk[h-1])
	default:
		seq = append(seq, hk[h-1-len(hk)], hk[(h-len(hk))%len(hk)])
	}
	if product {
		seq = append(seq, productRequest(x))
	} else {
		seq = append(seq, chooseRequest(x, ""))
	}
	for i := range seq {
		seq[i].tls = e.mitm
	}
	if e.mitm {
		// X-Forwarded-Proto, when preset by the client, is trusted as the scheme of an origin-form
		// request (fixRequestScheme); keep the preset consistent with the scheme actually in use.
		fs := append([]F(nil), seq[len(seq)-1].fields...)
		for i := range fs {
			if fs[i].Name == "X-Forwarded-Proto" {
				fs[i].Value = "https"
			}
		}
		seq[len(seq)-1].fields = fs
	}
	segs := segment(x, "", seq[len(seq)-1].msg(), product)
	slowUpload := x.Choose("pause-before-the-last-body-segment", 2) == 1

	w, err := world.Start(opts)
	if err != nil {
		x.Failf("harness/start", "%v", err)
		return
	}
	nh, _ := w.Hop(nextHopAddr, nil)
	if e.mitm {
		leaf := pki.Leaf([]string{originHost}, -time.Hour, time.Hour)
		nh.TLS = &tls.Config{Certificates: []tls.Certificate{leaf}}
	}
	// the client's address family: what is appended to X-Forwarded-For is the address, in its usual text form
	w.V6Clients = x.Choose("client-address-family", 2) == 1
	raw, err := w.Client()
	if err != nil {
		x.Failf("harness/client", "%v", err)
		return
	}
	e.clientIP = raw.C.LocalAddr().(*net.TCPAddr).IP.String() // (the address as such: no port, no brackets)
	var cl world.Stream = raw
	if e.mitm {
		raw.Send([]byte("CONNECT " + originHost + ":443 HTTP/1.1\r\nHost: " + originHost + ":443\r\n\r\n"))
		if got := string(raw.Recv()); got != "HTTP/1.1 200 OK\r\n\r\n" {
			x.Failf("mitm/connect-reply", "CONNECT answered with %q", got)
			return
		}
		pool := x509.NewCertPool()
		pool.AddCert(w.Proxy.MITMCACert())
		tc := world.TLSClient(raw, &tls.Config{RootCAs: pool, ServerName: originHost})
		if done, err := tc.Handshake(); !done || err != nil {
			x.Failf("mitm/handshake", "client TLS handshake with the MITM: done=%v err=%v", done, err)
			return
		}
		cl = tc
	}
	var methodsSent []string
	outcome := []string{}
	for i, rq := range seq {
		last := i == len(seq)-1
		if st := raw.C.Status(); st.EOF || st.Reset {
			x.Failf("connection-closed-early", "proxy closed the client connection before request %d of %d (client got %q)", i+1, len(seq), world.Clip(cl.Recv()))
			break
		}
		if last {
			sent := 0
			for k, sg := range segs {
				if slowUpload && k == len(segs)-1 && k > 0 && sent >= len(rq.msg().Head()) {
					// the head is complete, the rest of the body arrives two (virtual) minutes later - longer than
					// read-header-timeout, which no longer applies: a body may take as long as it takes
					nh.Poll() // (the next hop accepts - and, inside an intercepted tunnel, completes its TLS handshake - now, not after the pause)
					world.Settle(2 * time.Minute)
				}
				cl.Send(sg)
				sent += len(sg)
			}
		} else {
			cl.Send(rq.msg().Wire())
		}
		x.Logf("request %d: %q", i+1, world.Clip(rq.msg().Head()))
		methodsSent = append(methodsSent, rq.method)
		msgs, conns, problem := nh.Next()
		if problem != "" && len(msgs) == 0 {
			x.Failf("next-hop-incomplete", "request %d: %s; client got %q", i+1, problem, world.Clip(cl.Recv()))
			break
		}
		if len(msgs) != 1 {
			x.Failf("next-hop-count", "request %d: next hop received %d requests, want 1 (client got %q; dials %v)", i+1, len(msgs), world.Clip(cl.Recv()), w.Net.Dials())
			break
		}
		x.Logf("next hop got: %q", world.Clip(msgs[0].Raw[:msgs[0].HeadLen]))
		expectForwarded(x, e, rq, msgs[0])
		nh.Conns[conns[0]].Send(okResponse(rq.method))
		// keep the client side in sync: exactly i+1 complete responses so far
		rs := httpwire.ParseResponses(cl.Recv(), methodsSent, false)
		if len(rs.Msgs) != i+1 || rs.State != "" {
			x.Failf("client-response-sync", "after request %d the client holds %d complete responses, state %q err %q: %q", i+1, len(rs.Msgs), rs.State, rs.Err, world.Clip(cl.Recv()))
			break
		}
		outcome = append(outcome, fmt.Sprintf("%s/%s/%d", msgs[0].Method, msgs[0].Framing, len(msgs[0].Body)))
	}
	// nothing but the next hop was contacted
	for _, d := range w.Net.Dials() {
		if d.Addr != nextHopAddr {
			x.Failf("other-party-contacted", "dial to %s (%s)", d.Addr, d.Outcome)
		}
	}
	x.Outcome(fmt.Sprintf("cfg%d shape=%s %s", cfgk, shapes[seq[len(seq)-1].shape].name, strings.Join(outcome, ",")))
	cl.Close()
	if err := w.Stop(); err != nil {
		x.Failf("shutdown", "%v", err)
	}
	nh.Close()
	if l := world.Leaks(); l != "" {
		x.Failf("goroutine-leak", "goroutines left after shutdown:\n%s", l)
	}
}

// ---- two uploads at once, one origin not reading ------------------------------------------------------------------

// twoUploads: client A uploads 70000 bytes to an origin connection that does not read (4 KiB socket
// buffer), so the proxy is blocked in the middle of forwarding the body; meanwhile client B uploads other
// content completely; then A's origin reads on. Each origin connection must hold exactly its client's body.
func twoUploads(x *explore.X) {
	viaUp := x.ChooseFree("config", 2) == 1
	fa := []string{"cl", "chunked"}[x.ChooseFree("framing-a", 2)]
	fb := []string{"cl", "chunked"}[x.ChooseFree("framing-b", 2)]
	sizeB := []int{40000, 5}[x.ChooseFree("size-b", 2)]
	opts := world.Options{}
	addr := originHost + ":80"
	e := &env{}
	if viaUp {
		opts.Upstream, addr, e.viaUpstream = "http://up.test:8080", "up.test:8080", true
	}
	w, err := world.Start(opts)
	if err != nil {
		x.Failf("harness/start", "%v", err)
		return
	}
	nh, _ := w.Hop(addr, nil)
	mk := func(framing string, size int, salt byte, path string) reqSpec {
		return reqSpec{proto: "HTTP/1.1", method: "POST", form: 1, pathq: path, framing: framing, body: h1x.Pattern(size, salt)}
	}
	ra, rb := mk(fa, 70000, 13, "/a"), mk(fb, sizeB, 19, "/b")
	clA, _ := w.Client()
	clB, _ := w.Client()
	// A: the head first, so that the proxy connects to the next hop; that connection then stops reading
	ma := ra.msg()
	wireA := append(append([]byte{}, ma.Head()...), ma.BodyWire()...)
	clA.Send(wireA[:len(ma.Head())+10])
	nh.Poll()
	if len(nh.Raw) != 1 {
		x.Failf("next-hop-count", "next hop has %d connections after A's request head; client A got %q", len(nh.Raw), world.Clip(clA.Recv()))
		return
	}
	oa := nh.Raw[0]
	oa.Recv()
	oa.Hold = true
	oa.C.SetLimit(4096)
	clA.Send(wireA[len(ma.Head())+10:])
	mb := rb.msg()
	clB.Send(append(append([]byte{}, mb.Head()...), mb.BodyWire()...))
	nh.Poll()
	if len(nh.Raw) != 2 {
		x.Failf("next-hop-count", "next hop has %d connections after B's request", len(nh.Raw))
		return
	}
	check := func(who string, raw *world.Peer, r reqSpec, cl *world.Peer) {
		st := httpwire.ParseRequests(raw.Recv())
		if st.State == "syntax" || len(st.Msgs) != 1 {
			x.Failf("two-uploads/message", "upload %s (framing-a=%s framing-b=%s via upstream=%v): next hop holds %d complete requests (state %q, %s)", who, fa, fb, viaUp, len(st.Msgs), st.State, st.Err)
			return
		}
		e.clientIP = cl.C.LocalAddr().(*net.TCPAddr).IP.String()
		expectForwarded(x, e, r, st.Msgs[0])
	}
	x.Check()
	check("B (while A's origin is stalled)", nh.Raw[1], rb, clB)
	oa.Hold = false
	oa.C.SetLimit(0)
	oa.Recv()
	world.Settle(0)
	if !x.Failed() {
		check("A (after its origin resumed)", oa, ra, clA)
	}
	x.Outcome(fmt.Sprintf("up=%v a=%s b=%s/%d", viaUp, fa, fb, sizeB))
	clA.Close()
	clB.Close()
	if err := w.Stop(); err != nil {
		x.Failf("shutdown", "%v", err)
	}
	nh.Shutdown()
	world.Settle(5 * time.Second)
	if l := world.Leaks(); l != "" {
		x.Failf("goroutine-leak", "%s", l)
	}
}

// ---- a request on a connection whose previous request was refused -------------------------------------------------

// afterRefused: the FIRST request of a keep-alive connection carries a body and is refused by the proxy itself
// (denied domain: 403; proxy authentication missing: 407; next hop unreachable: 502) - it never reaches a
// round trip. The SECOND request on the same connection is valid. Either the proxy closes the connection
// after the refusal (then nothing may be forwarded), or the second request reaches the next hop exactly as
// sent: octets of the refused body must not be taken for the start of the next request.
func afterRefused(x *explore.X) {
	kind := []string{"denied-domain", "proxy-auth-missing", "next-hop-unreachable"}[x.ChooseFree("refusal", 3)]
	framing := []string{"cl", "chunked"}[x.ChooseFree("refused-framing", 2)]
	size := []int{5, 4095, 4097, 20000}[x.ChooseFree("refused-body-size", 4)]
	pipelined := x.ChooseFree("second-request-pipelined", 2) == 1
	secondBody := x.ChooseFree("second-has-body", 2) == 1
	viaUp := x.ChooseFree("config", 2) == 1
	opts := world.Options{}
	addr := originHost + ":80"
	e := &env{}
	if viaUp {
		opts.Upstream, addr, e.viaUpstream = "http://up.test:8080", "up.test:8080", true
	}
	refusedHost := "denied.test"
	var auth []F
	switch kind {
	case "denied-domain":
		opts.DenyDomains = []string{`denied\.test`}
	case "proxy-auth-missing":
		opts.BasicAuth = "user:pass"
		refusedHost = originHost
		auth = []F{{"Proxy-Authorization", "Basic " + base64.StdEncoding.EncodeToString([]byte("user:pass"))}}
	case "next-hop-unreachable":
		if viaUp {
			// the next hop of every request is the upstream proxy: no request can be refused this way
			x.Outcome("n/a")
			return
		}
		refusedHost = "nobody.test"
	}
	w, err := world.Start(opts)
	if err != nil {
		x.Failf("harness/start", "%v", err)
		return
	}
	nh, _ := w.Hop(addr, nil)
	body := h1x.Pattern(size, 7)
	// the refused body is made of octets that would parse as a request head if they were ever read as one
	copy(body, "GET http://"+originHost+"/smuggled HTTP/1.1\r\nHost: "+originHost+"\r\n\r\n")
	var first []byte
	head := "POST http://" + refusedHost + "/refused HTTP/1.1\r\nHost: " + refusedHost + "\r\n"
	if framing == "cl" {
		first = append([]byte(head+fmt.Sprintf("Content-Length: %d\r\n\r\n", len(body))), body...)
	} else {
		first = []byte(head + "Transfer-Encoding: chunked\r\n\r\n")
		for off := 0; off < len(body); off += 1000 {
			end := min(off+1000, len(body))
			first = append(first, []byte(fmt.Sprintf("%x\r\n", end-off))...)
			first = append(first, body[off:end]...)
			first = append(first, "\r\n"...)
		}
		first = append(first, "0\r\n\r\n"...)
	}
	r2 := reqSpec{proto: "HTTP/1.1", method: "GET", form: 1, pathq: "/second?x=1", fields: auth}
	if secondBody {
		r2 = reqSpec{proto: "HTTP/1.1", method: "POST", form: 1, pathq: "/second?x=1", framing: "cl", body: h1x.Pattern(300, 23), fields: auth}
	}
	cl, _ := w.Client()
	settle := time.Duration(0)
	if kind == "next-hop-unreachable" {
		settle = 20 * time.Second // the dial is retried with back-off before the proxy answers 502
	}
	what := fmt.Sprintf("refusal=%s, refused body %d octets (%s), second request pipelined=%v with body=%v, via upstream=%v", kind, size, framing, pipelined, secondBody, viaUp)
	x.Logf("%s", what)
	if pipelined {
		cl.Send(append(append([]byte{}, first...), r2.msg().Wire()...))
	} else {
		cl.Send(first)
		world.Settle(settle)
		st := httpwire.ParseResponses(cl.Recv(), []string{"POST"}, false)
		if len(st.Msgs) < 1 || st.Msgs[0].Status < 400 {
			x.Failf("harness/not-refused", "%s: the first request was not refused: %q", what, world.Clip(cl.Recv()))
			return
		}
		if !cl.C.Status().PeerClosed {
			cl.Send(r2.msg().Wire())
		}
	}
	world.Settle(settle)
	nh.Poll()
	x.Check()
	var seen []httpwire.Msg
	for _, raw := range nh.Raw {
		st := httpwire.ParseRequests(raw.Recv())
		if st.State != "" {
			x.Failf("after-refused/garbage-forwarded", "%s: the next hop received %q (%s %s)", what, world.Clip(raw.Recv()), st.State, st.Err)
		}
		seen = append(seen, st.Msgs...)
	}
	closed := cl.C.Status().PeerClosed
	switch {
	case len(seen) == 0 && closed:
		// the proxy gave up the connection after the refusal: nothing was forwarded, nothing can be wrong
		x.Outcome(kind + "/closed-after-refusal")
	case len(seen) == 0:
		x.Failf("after-refused/second-request-lost", "%s: the connection is still open but the request that followed the refused one was not forwarded; client got %q", what, world.Clip(cl.Recv()))
	case len(seen) > 1:
		x.Failf("after-refused/extra-request", "%s: the next hop received %d requests, the client sent one that may be forwarded; first: %q", what, len(seen), world.Clip(seen[0].Raw))
	default:
		e.clientIP = cl.C.LocalAddr().(*net.TCPAddr).IP.String()
		expectForwarded(x, e, r2, seen[0])
		x.Outcome(kind + "/second-forwarded")
	}
	cl.Close()
	if err := w.Stop(); err != nil {
		x.Failf("shutdown", "%v", err)
	}
	nh.Shutdown()
	world.Settle(5 * time.Second)
	if l := world.Leaks(); l != "" {
		x.Failf("goroutine-leak", "%s", l)
	}
}

// ---- cleartext HTTP inside an intercepted CONNECT ------------------------------------------------------------------

// cleartextInMITM: with MITM on, a CONNECT whose first tunnelled byte is not a TLS hello carries plain HTTP/1.x
// (what browsers do for ws:// through a proxy). The client may send the CONNECT head, the first request and
// its body - of every size of the alphabet, i.e. below, at and above the 4 KiB reader buffer - in ONE segment,
// followed by a second pipelined request. The origin must receive every request with its body intact.
func cleartextInMITM(x *explore.X) {
	size := sizes[x.ChooseFree("size", len(sizes))]
	oneSegment := x.ChooseFree("connect-and-first-request-in-one-segment", 2) == 1
	second := x.ChooseFree("second-request-pipelined", 2) == 1
	framing := []string{"cl", "chunked"}[x.ChooseFree("framing", 2)]
	w, err := world.Start(world.Options{MITM: true})
	if err != nil {
		x.Failf("harness/start", "%v", err)
		return
	}
	nh, _ := w.Hop(originHost+":80", nil)
	cl, _ := w.Client()
	r1 := reqSpec{proto: "HTTP/1.1", method: "POST", form: 0, pathq: "/first", framing: framing, body: h1x.Pattern(size, 31)}
	r2 := reqSpec{proto: "HTTP/1.1", method: "GET", form: 0, pathq: "/second"}
	m1 := r1.msg()
	flight := append(append([]byte{}, m1.Head()...), m1.BodyWire()...)
	if second {
		flight = append(flight, r2.msg().Wire()...)
	}
	connect := []byte("CONNECT " + originHost + ":80 HTTP/1.1\r\nHost: " + originHost + ":80\r\n\r\n")
	if oneSegment {
		cl.Send(append(append([]byte{}, connect...), flight...))
	} else {
		cl.Send(connect)
		cl.Send(flight)
	}
	x.Check()
	what := fmt.Sprintf("body %d bytes (%s), CONNECT and first request in one segment: %v, second request pipelined: %v", size, framing, oneSegment, second)
	if !strings.HasPrefix(string(cl.Recv()), "HTTP/1.1 200 OK\r\n\r\n") {
		x.Failf("mitm/connect-reply", "%s: CONNECT answered %q", what, world.Clip(cl.Recv()))
		return
	}
	want := []reqSpec{r1}
	if second {
		want = append(want, r2)
	}
	var got []httpwire.Msg
	for range want {
		msgs, conns, problem := nh.Next()
		if len(msgs) == 0 {
			x.Failf("cleartext-in-mitm/not-forwarded", "%s: the origin holds %d of %d requests (%s); its stream: %q", what, len(got), len(want), problem, world.Clip(func() []byte {
				if len(nh.Conns) > 0 {
					return nh.Conns[0].Recv()
				}
				return nil
			}()))
			return
		}
		for i, m := range msgs {
			got = append(got, m)
			nh.Conns[conns[i]].Send(okResponse(m.Method))
		}
		if len(got) >= len(want) {
			break
		}
	}
	if len(got) != len(want) {
		x.Failf("cleartext-in-mitm/request-count", "%s: the origin received %d requests, want %d", what, len(got), len(want))
		return
	}
	for i, r := range want {
		g := got[i]
		if g.Method != r.method || g.Target != r.pathq {
			x.Failf("cleartext-in-mitm/request-line", "%s: request %d arrived as %q, want %s %s", what, i+1, g.StartLine, r.method, r.pathq)
			return
		}
		if !bytes.Equal(g.Body, r.body) {
			k := 0
			for k < len(g.Body) && k < len(r.body) && g.Body[k] == r.body[k] {
				k++
			}
			x.Failf("cleartext-in-mitm/body", "%s: request %d: the origin received a body of %d bytes, the client sent %d (first difference at offset %d)", what, i+1, len(g.Body), len(r.body), k)
			return
		}
	}
	x.Outcome(fmt.Sprintf("%d/%v/%v/%s", size, oneSegment, second, framing))
	cl.Close()
	if err := w.Stop(); err != nil {
		x.Failf("shutdown", "%v", err)
	}
	nh.Shutdown()
	world.Settle(5 * time.Second)
	if l := world.Leaks(); l != "" {
		x.Failf("goroutine-leak", "%s", l)
	}
}

func TestC01(t *testing.T) {
	s := explore.NewSuite(t, "C01", "exploration",
		"one client connection carrying 0-2 history requests (5 kinds) and one request under test = method(6) x target form(3-4) x path/query(7) x header shape(24) x body framing(3) x size(9) x chunking(4) x version(2) x write segmentation(9) x configuration(direct, upstream HTTP proxy, MITM'd CONNECT tunnel to a TLS origin) x configured --header rule set(7); all combinations with at most D deviations from the default request (D=3 quick, 4 thorough); plus the full product body framing(2) x size(9) x chunking(4) x segmentation(9) x history(11) x configuration(2 quick, 3 thorough) for POST are executed on the real HTTPProxy over the in-memory network and every request captured at the next hop is compared with expectForwarded; non-trivial = at least one forwarded request was compared; plus (two-uploads) two connections uploading at once, one next-hop connection not reading in the middle of a 70000-byte body while the other upload completes, framing x framing x size x {direct, upstream proxy}, both compared exactly; plus (concurrent-via, Engine T) the proxy's single Via modifier used by two requests at once, every interleaving of its statements within 2 (quick) / 3 (thorough) preemptions: each request leaves with its own Via chain plus one element; plus (cleartext-in-mitm) plain HTTP/1.x inside an intercepted CONNECT: body size(9) x framing x {CONNECT head and first request in one segment, separate} x {second request pipelined, not} [full product], bodies compared at the origin x next hop selected by a PAC script instead of --proxy / nothing (round 9: the proxy-selection function is handed the live URL of the request)")
	s.Assume = []string{"simnet models TCP (in-order, reliable, segment boundaries preserved per write)", "httpwire (independent strict parser) is trusted", "crypto/tls of the Go toolchain is used by the scripted TLS peers"}
	bubble := func(f func(x *explore.X)) func(x *explore.X) {
		return func(x *explore.X) { world.Run(t, x, func() { f(x) }) }
	}
	s.Add(explore.Scenario{Name: "request", Remote: true, MaxDev: map[string]int{"quick": 3, "thorough": 4},
		Run: bubble(func(x *explore.X) { scenario(x, false, 3) })})
	s.Add(explore.Scenario{Name: "body-product", Remote: true, Tiers: []string{"quick"},
		Run: bubble(func(x *explore.X) { scenario(x, true, 2) })})
	s.Add(explore.Scenario{Name: "body-product+mitm", Remote: true, Tiers: []string{"thorough"},
		Run: bubble(func(x *explore.X) { scenario(x, true, 3) })})
	s.Add(explore.Scenario{Name: "two-uploads", Remote: true, Run: bubble(twoUploads)})
	s.Add(explore.Scenario{Name: "after-refused", Remote: true, Run: bubble(afterRefused)})
	s.Add(explore.Scenario{Name: "cleartext-in-mitm", Remote: true, Run: bubble(cleartextInMITM)})
	s.Add(explore.Scenario{Name: "concurrent-via", Remote: true, MaxDev: map[string]int{"quick": 2, "thorough": 3},
		Run: func(x *explore.X) { tcore.ConcurrentVia(t, x) }})
	s.Main()
}
