// C04: access control is complete - refused requests cause no upstream activity.
// Engine S: every combination (within the bound) of the four controls x request kind x credential
// variant x host spelling x position on the connection runs against the real HTTPProxy; a reference
// decision procedure says which status the proxy must answer itself, and the in-memory network
// proves that a refused request caused no dial and no byte anywhere.
package c04

import (
	"bufio"
	"crypto/tls"
	"crypto/x509"
	"encoding/base64"
	"fmt"
	"github.com/saucelabs/forwarder/hostsfile"
	"github.com/saucelabs/forwarder/internal/zzverif/tcore"
	"net"
	"os"
	"regexp"
	"sort"
	"strings"
	"testing"
	"time"

	"github.com/saucelabs/forwarder"
	"github.com/saucelabs/forwarder/internal/zzverif/explore"
	"github.com/saucelabs/forwarder/internal/zzverif/httpwire"
	"github.com/saucelabs/forwarder/internal/zzverif/world"
)

const (
	user0 = "user"
	pass0 = "p4ss:w0rd"
)

func b64(s string) string { return base64.StdEncoding.EncodeToString([]byte(s)) }

type credVariant struct {
	name   string
	fields []httpwire.Field
	ok     bool
}

// credVariants: what a client may present, relative to the configured user and password.
func credVariants(user, pass string) []credVariant {
	pa := func(v string) []httpwire.Field { return []httpwire.Field{{Name: "Proxy-Authorization", Value: v}} }
	trimmed := strings.TrimSpace(user) + ":" + strings.TrimSpace(pass)
	return []credVariant{
		// (round 9) the configured text with the blanks at its ends removed: equal to the configuration only if there were none
		{"blanks-trimmed", pa("Basic " + b64(trimmed)), trimmed == user+":"+pass},
		{"right", pa("Basic " + b64(user+":"+pass)), true},
		{"absent", nil, false},
		{"wrong-user", pa("Basic " + b64("user2:"+pass)), false},
		{"wrong-pass", pa("Basic " + b64(user+":nope")), false},
		{"pass-prefix", pa("Basic " + b64(user+":"+pass[:4])), false},
		{"pass-suffix-extra", pa("Basic " + b64(user+":"+pass+"x")), false},
		{"user-case", pa("Basic " + b64("User:"+pass)), false},
		{"pass-case", pa("Basic " + b64(user+":P4SS:W0RD")), false},
		{"wrong-scheme", pa("Bearer " + b64(user+":"+pass)), false},
		{"lowercase-scheme", pa("basic " + b64(user+":"+pass)), true}, // auth-scheme is case-insensitive (RFC 7235)
		{"malformed-base64", pa("Basic !!!" + b64(user+":"+pass)), false},
		{"no-colon", pa("Basic " + b64(user+pass)), false},
		{"empty-pass", pa("Basic " + b64(user+":")), false},
		{"two-fields-wrong-first", []httpwire.Field{{Name: "Proxy-Authorization", Value: "Basic " + b64("a:b")}, {Name: "Proxy-Authorization", Value: "Basic " + b64(user+":"+pass)}}, false},
		{"in-authorization-instead", []httpwire.Field{{Name: "Authorization", Value: "Basic " + b64(user+":"+pass)}}, false},
		{"mixed-case-name", []httpwire.Field{{Name: "pRoXy-aUtHoRiZaTiOn", Value: "Basic " + b64(user+":"+pass)}}, true},
		// the base64 text itself altered in letter case only: it decodes to different credentials
		{"base64-first-letter-case-flipped", pa("Basic " + flipCase(b64(user+":"+pass), 0)), false},
		{"base64-last-letter-case-flipped", pa("Basic " + flipCase(b64(user+":"+pass), -1)), false},
		{"base64-lower-cased", pa("Basic " + strings.ToLower(b64(user+":"+pass))), false},
		{"base64-upper-cased", pa("Basic " + strings.ToUpper(b64(user+":"+pass))), false},
		{"right-then-garbage", pa("Basic " + b64(user+":"+pass) + "AAAA"), false},
		{"colon-in-user", pa("Basic " + b64(user+":"+pass+":"+pass)), false},
		// the right octets with the user/password boundary elsewhere: user and password must each be equal
		{"boundary-one-left", pa("Basic " + b64(user[:len(user)-1]+":"+user[len(user)-1:]+pass)), false},
		{"boundary-one-right", pa("Basic " + b64(user+pass[:1]+":"+pass[1:])), false},
		{"all-in-user", pa("Basic " + b64(user+pass+":")), false},
		{"all-in-password", pa("Basic " + b64(":"+user+pass)), false},
		{"swapped", pa("Basic " + b64(pass+":"+user)), false},
	}
}

// flipCase flips the case of the i-th letter of s (i < 0: the last letter).
func flipCase(s string, i int) string {
	b := []byte(s)
	var idx []int
	for k, c := range b {
		if (c >= 'a' && c <= 'z') || (c >= 'A' && c <= 'Z') {
			idx = append(idx, k)
		}
	}
	if len(idx) == 0 {
		return s
	}
	k := idx[0]
	if i < 0 {
		k = idx[len(idx)-1]
	}
	b[k] ^= 0x20
	return string(b)
}

type hostVariant struct {
	name      string
	authority string // as written in the request target (without port unless noted)
	port      string // explicit port ("" = implied)
	localhost bool   // the localhost denial must catch it
	denied    bool   // matches the deny list
}

// hostsFileAliases parses /etc/hosts independently of the implementation.
func hostsFileAliases() []string {
	f, err := os.Open("/etc/hosts")
	if err != nil {
		return nil
	}
	defer f.Close()
	var out []string
	sc := bufio.NewScanner(f)
	for sc.Scan() {
		line := sc.Text()
		if i := strings.IndexByte(line, '#'); i >= 0 {
			line = line[:i]
		}
		fs := strings.Fields(line)
		if len(fs) < 2 {
			continue
		}
		ip := net.ParseIP(fs[0])
		if ip == nil || !ip.IsLoopback() {
			continue
		}
		for _, n := range fs[1:] {
			if !strings.EqualFold(n, "localhost") {
				out = append(out, n)
			}
		}
	}
	return out
}

var denyList = []string{`denied\.test$`, `\.blocked\.test$`, `-^ok\.blocked\.test$`}

func deniedByList(host string) bool {
	inc := regexp.MustCompile(`denied\.test$`).MatchString(host) || regexp.MustCompile(`\.blocked\.test$`).MatchString(host)
	exc := regexp.MustCompile(`^ok\.blocked\.test$`).MatchString(host)
	return inc && !exc
}

func hostVariants() []hostVariant {
	hv := []hostVariant{
		{name: "ok-name", authority: "ok.test"},
		{name: "denied-name", authority: "denied.test", denied: true},
		{name: "denied-explicit-port", authority: "denied.test", port: "80", denied: true},
		{name: "denied-subdomain", authority: "x.blocked.test", denied: true},
		{name: "excluded-from-deny", authority: "ok.blocked.test"},
		{name: "denied-upper-case", authority: "DENIED.TEST", denied: deniedByList("DENIED.TEST")},
		{name: "localhost", authority: "localhost", localhost: true},
		{name: "LOCALHOST", authority: "LocalHost", localhost: true},
		{name: "localhost-port", authority: "localhost", port: "8080", localhost: true},
		{name: "127.0.0.1", authority: "127.0.0.1", localhost: true},
		{name: "127.9.9.9", authority: "127.9.9.9", localhost: true},
		{name: "[::1]", authority: "[::1]", localhost: true},
		{name: "[::1]:8080", authority: "[::1]", port: "8080", localhost: true},
		{name: "0.0.0.0", authority: "0.0.0.0", localhost: true},
		{name: "[::]", authority: "[::]", localhost: true},
		{name: "[::ffff:127.0.0.1]", authority: "[::ffff:127.0.0.1]", localhost: true},
		{name: "localhost-trailing-dot", authority: "localhost.", localhost: true},
		// (round 9, pointed out by the author of seeded change C04i) no host at all: "http://:8080/" and "CONNECT :8080" are
		// dialled as ":8080", which the operating system takes for the local machine
		{name: "empty-host", authority: "", port: "8080", localhost: true},
		// other spellings of the same loopback / unspecified addresses (a dialer treats them all alike)
		{name: "[0:0:0:0:0:0:0:1]", authority: "[0:0:0:0:0:0:0:1]", localhost: true},
		{name: "[::0]", authority: "[::0]", localhost: true},
		{name: "[0:0:0:0:0:0:0:0]", authority: "[0:0:0:0:0:0:0:0]", localhost: true},
		{name: "[::ffff:0.0.0.0]", authority: "[::ffff:0.0.0.0]", localhost: true},
		{name: "[::ffff:7f00:1]", authority: "[::ffff:7f00:1]", localhost: true},
		// a zone does not make a loopback address anything else; and names the transport maps to ASCII before it dials
		// (IDNA: fullwidth letters, ideographic full stop) are judged as what they are dialled as
		{name: "[::1%25lo]", authority: "[::1%25lo]", localhost: true},
		{name: "fullwidth-localhost", authority: "\uff4cocalhost", localhost: true},
		{name: "127.0.0.1-ideographic-full-stops", authority: "127\u30020\u30020\u30021", localhost: true},
		{name: "fullwidth-denied-name", authority: "\uff44enied.test", denied: true},
	}
	if al := hostsFileAliases(); len(al) > 0 {
		hv = append(hv, hostVariant{name: "hosts-file-alias", authority: al[0], localhost: true},
			hostVariant{name: "hosts-file-alias-upper", authority: strings.ToUpper(al[0]), localhost: true})
	}
	return hv
}

type controls struct {
	auth, deny, localhost, timeframe bool
	outside                          bool // the clock is outside the allowed frame
}

// decide is the reference: the first failing control in the documented order decides.
func decide(c controls, credOK bool, h hostVariant) int {
	if c.timeframe && c.outside {
		return 451
	}
	if c.auth && !credOK {
		return 407
	}
	if c.localhost && h.localhost {
		return 403
	}
	if c.deny && h.denied {
		return 403
	}
	return 0
}

type snapshot struct {
	dials int
	bytes map[string]int64
}

func snap(w *world.World) snapshot {
	s := snapshot{dials: len(w.Net.Dials()), bytes: map[string]int64{}}
	for _, c := range w.Net.Conns() {
		if strings.HasPrefix(c.Name, "proxy-out.test") && strings.HasSuffix(c.Name, "/dialer") {
			s.bytes[c.Name] = c.Written()
		}
	}
	return s
}

func upstreamActivity(w *world.World, before snapshot) string {
	ds := w.Net.Dials()
	if len(ds) > before.dials {
		return fmt.Sprintf("new dials %v", ds[before.dials:])
	}
	for _, c := range w.Net.Conns() {
		if strings.HasPrefix(c.Name, "proxy-out.test") && strings.HasSuffix(c.Name, "/dialer") {
			if c.Written() != before.bytes[c.Name] {
				return fmt.Sprintf("%d bytes written on existing upstream connection %s", c.Written()-before.bytes[c.Name], c.Name)
			}
		}
	}
	return ""
}

func reqBytes(kind int, h hostVariant, cred credVariant, inner bool) []byte {
	hostport := h.authority
	if h.port != "" {
		hostport += ":" + h.port
	}
	var start, hostField string
	switch kind {
	case 0:
		start, hostField = "GET http://"+hostport+"/x HTTP/1.1", hostport
	case 1:
		start, hostField = "GET /x HTTP/1.1", hostport
	case 2:
		p := h.port
		if p == "" {
			p = "443"
		}
		start, hostField = "CONNECT "+h.authority+":"+p+" HTTP/1.1", h.authority+":"+p
	case 3: // inside the MITM'd tunnel: origin-form, the Host field names the target
		start, hostField = "GET /x HTTP/1.1", hostport
	case 4:
		start, hostField = "GET http://"+hostport+"/x HTTP/1.0", hostport
	case 5: // header layout variant: Host first differs in case, extra fields before the credentials
		start, hostField = "POST http://"+hostport+"/x HTTP/1.1", hostport
	}
	var sb strings.Builder
	sb.WriteString(start + "\r\n")
	if kind == 5 {
		sb.WriteString("X-Pad: 1\r\nhOsT: " + hostField + "\r\nContent-Length: 3\r\n")
	} else {
		sb.WriteString("Host: " + hostField + "\r\n")
	}
	for _, f := range cred.fields {
		sb.WriteString(f.Name + ": " + f.Value + "\r\n")
	}
	sb.WriteString("\r\n")
	if kind == 5 {
		sb.WriteString("abc")
	}
	return []byte(sb.String())
}

func scenario(x *explore.X, product int) {
	choose := x.Choose
	free := x.ChooseFree
	if product == 0 {
		free = x.Choose
	}
	var c controls
	c.auth = free("basic-auth", 2) == 1
	c.deny = free("deny-domains", 2) == 1
	c.localhost = free("deny-localhost", 2) == 0 // the default configuration denies localhost
	if tf := free("time-frame", 3); tf > 0 {
		c.timeframe = true
		c.outside = tf == 2
	}
	kind := free("kind", 6)
	// (round 9) the configured credentials are configuration text (they go through the option's parser, ParseUserinfo):
	// a user that begins and a password that ends with a blank are part of what must be presented
	user, pass := user0, pass0
	if product == 0 && c.auth && x.Choose("configured-credentials-have-blanks-at-the-ends", 2) == 1 {
		user, pass = " "+user0, pass0+" "
	}
	creds := credVariants(user, pass)
	hosts := hostVariants()
	var cred credVariant
	var host hostVariant
	switch product {
	case 1: // controls x kind x credentials
		cred = creds[x.ChooseFree("credentials", len(creds))]
		host = hosts[choose("host", len(hosts))]
	case 2: // controls x kind x host
		cred = creds[choose("credentials", len(creds))]
		host = hosts[x.ChooseFree("host", len(hosts))]
	default:
		cred = creds[choose("credentials", len(creds))]
		host = hosts[choose("host", len(hosts))]
	}
	// what happened on this proxy before the request under test is part of the full products
	position := free("position", 5)

	opts := world.Options{}
	if c.auth {
		// (round 9 rule) the credentials reach the configuration through ParseUserinfo directly, or the way an operator's
		// do: as the value of --basic-auth through the flag plumbing of package bind
		if product == 0 && x.Choose("basic-auth-given-as-command-line-flag", 2) == 1 {
			opts.Flags = []string{"--basic-auth", user + ":" + pass}
		} else {
			opts.BasicAuth = user + ":" + pass
		}
	}
	if c.localhost && product == 0 && x.Choose("localhost-mode-given-as-command-line-flag", 2) == 1 {
		opts.Flags = append(opts.Flags, "--proxy-localhost", "deny")
	}
	if c.deny {
		opts.DenyDomains = denyList
	}
	if !c.localhost {
		opts.ProxyLocalhost = forwarder.AllowProxyLocalhost
	}
	if c.timeframe {
		opts.AllowTimeFrame = []string{"sat/0-12", "sun/3-4"}
	}
	var pki *world.PKI
	if kind == 3 {
		opts.MITM = true
		pki = world.NewPKI("harness origin CA")
		opts.TransportCAPEM = pki.CAPEM
	}
	w, err := world.Start(opts)
	if err != nil {
		x.Failf("harness/start", "%v", err)
		return
	}
	if c.outside {
		time.Sleep(13 * time.Hour) // Saturday 13:00 UTC: outside sat/0-12 and sun/3-4
	}
	okHop, _ := w.Hop("ok.test:80", nil)
	okTLS, _ := w.Hop("ok.test:443", nil)
	right := creds[0]
	okHost := hosts[0]

	type conn struct {
		raw *world.Peer
		s   world.Stream
	}
	newConn := func() *conn {
		p, err := w.Client()
		if err != nil {
			x.Failf("harness/client", "%v", err)
			return nil
		}
		return &conn{raw: p, s: p}
	}
	cn := newConn()
	if cn == nil {
		return
	}
	serveOK := func() {
		for _, hp := range []*world.Hop{okHop, okTLS} {
			msgs, conns, _ := hp.Next()
			for i := range msgs {
				hp.Conns[conns[i]].Send([]byte("HTTP/1.1 200 OK\r\nContent-Length: 2\r\n\r\nok"))
			}
		}
	}
	var methods []string
	// position: an earlier exchange on the same connection
	if kind != 2 && kind != 3 {
		switch position {
		case 1: // after an accepted request
			cn.s.Send(reqBytes(0, okHost, right, false))
			methods = append(methods, "GET")
			serveOK()
			world.Settle(5 * time.Second)
		case 2: // after a refused request (wrong credentials / denied host where a control is on)
			bad := creds[3]
			badHost := hosts[1]
			cn.s.Send(reqBytes(0, badHost, bad, false))
			methods = append(methods, "GET")
			serveOK()
			world.Settle(5 * time.Second)
		case 3: // after an accepted request that FAILED beyond the proxy: the origin took it and hung up without a reply
			cn.s.Send(reqBytes(0, okHost, right, false))
			methods = append(methods, "GET")
			world.Settle(0)
			okHop.Poll()
			for _, oc := range okHop.Conns {
				oc.Close()
			}
			world.Settle(5 * time.Second)
		case 4: // after an accepted request for a host nobody answers for (dial failure, 502)
			nobody := hostVariant{name: "nobody", authority: "nobody.test", port: "80"}
			if decide(c, true, nobody) == 0 {
				cn.s.Send(reqBytes(0, nobody, right, false))
				methods = append(methods, "GET")
				world.Settle(20 * time.Second)
			}
		}
		if cn.raw.EOF() || cn.raw.Reset() {
			cn.raw.Close()
			if cn = newConn(); cn == nil {
				return
			}
			methods = nil
		}
	}
	if kind == 3 {
		// enter a MITM'd tunnel to ok.test with the right credentials; the request under test travels inside
		tun := hostVariant{authority: "ok.test", port: "443"}
		pre := snap(w)
		cn.raw.Send(reqBytes(2, tun, right, false))
		rs := httpwire.ParseResponses(cn.raw.Recv(), []string{"CONNECT"}, false)
		wantOuter := decide(c, true, tun)
		if wantOuter != 0 {
			// the tunnel itself is refused: that is the request under test for this execution
			checkRefused(x, w, pre, rs, wantOuter, c, "CONNECT (outer)")
			finish(x, w, cn.raw, okHop, okTLS)
			x.Outcome(fmt.Sprintf("outer-connect-refused/%d", wantOuter))
			return
		}
		if len(rs.Msgs) != 1 || rs.Msgs[0].Status != 200 {
			x.Failf("mitm/connect", "CONNECT to ok.test:443 with valid credentials answered %q", world.Clip(cn.raw.Recv()))
			finish(x, w, cn.raw, okHop, okTLS)
			return
		}
		pool := x509.NewCertPool()
		pool.AddCert(w.Proxy.MITMCACert())
		tc := world.TLSClient(cn.raw, &tls.Config{RootCAs: pool, ServerName: "ok.test"})
		if done, err := tc.Handshake(); !done || err != nil {
			x.Failf("mitm/handshake", "done=%v err=%v", done, err)
			return
		}
		cn.s = tc
		okTLS.TLS = &tls.Config{Certificates: []tls.Certificate{pki.Leaf([]string{"ok.test"}, -time.Hour, time.Hour)}}
		methods = nil
	}

	want := decide(c, cred.ok, host)
	pre := snap(w)
	cn.s.Send(reqBytes(kind, host, cred, kind == 3))
	serveOK()
	world.Settle(5 * time.Second) // dial retries (3 attempts, 1 s back-off) run on the virtual clock
	method := "GET"
	if kind == 2 {
		method = "CONNECT"
	}
	methods = append(methods, method)
	x.Logf("controls=%+v kind=%d cred=%s host=%s position=%d want=%d", c, kind, cred.name, host.name, position, want)
	x.Check()
	if want != 0 {
		rs := httpwire.ParseResponses(cn.s.Recv(), methods, false)
		checkRefused(x, w, pre, rs, want, c, fmt.Sprintf("kind %d cred %s host %s", kind, cred.name, host.name), host.name)
	} else {
		// accepted: the proxy must act on it (a dial towards the target, or an answer from ok.test)
		serveOK()
		act := upstreamActivity(w, pre)
		rs := httpwire.ParseResponses(cn.s.Recv(), methods, false)
		var st int
		if len(rs.Msgs) == len(methods) {
			st = rs.Msgs[len(methods)-1].Status
		}
		if kind == 3 && host.authority != "ok.test" {
			// a different Host inside the tunnel is dialled on its own; nothing listens there: 502 is fine
		}
		if act == "" {
			x.Failf("accepted-not-forwarded", "request that passes every control caused no upstream activity (controls %+v kind %d cred %s host %s): client got %q", c, kind, cred.name, host.name, world.Clip(cn.s.Recv()))
		}
		if st == 407 || st == 403 || st == 451 {
			x.Failf("accepted-but-refused", "request that passes every control was answered %d (controls %+v kind %d cred %s host %s)", st, c, kind, cred.name, host.name)
		}
	}
	x.Outcome(fmt.Sprintf("%+v kind%d want=%d", c, kind, want))
	finish(x, w, cn.raw, okHop, okTLS)
}

func checkRefused(x *explore.X, w *world.World, pre snapshot, rs httpwire.Stream, want int, c controls, what string, hostName ...string) {
	hn := ""
	if len(hostName) > 0 {
		hn = "/" + hostName[0]
	}
	sigHost := ""
	if hn == "/localhost-trailing-dot" || hn == "/[::ffff:127.0.0.1]" {
		sigHost = hn
	}
	if act := upstreamActivity(w, pre); act != "" {
		x.Failf("refused-but-upstream-activity"+sigHost, "%s must be refused with %d but caused upstream activity: %s", what, want, act)
	}
	if rs.State == "syntax" || len(rs.Msgs) == 0 {
		x.Failf("refusal-response-missing"+sigHost, "%s: want a %d response from the proxy, client stream: state %q err %q msgs %d rest %q", what, want, rs.State, rs.Err, len(rs.Msgs), world.Clip(rs.Rest))
		return
	}
	m := rs.Msgs[len(rs.Msgs)-1]
	if m.Status != want {
		x.Failf("refusal-status"+sigHost, "%s: answered %d, want %d (controls %+v)", what, m.Status, want, c)
		return
	}
	if want == 407 {
		pa := m.Get("Proxy-Authenticate")
		if len(pa) != 1 || !strings.HasPrefix(pa[0], "Basic ") {
			x.Failf("407-without-challenge", "%s: 407 carries Proxy-Authenticate %q, want a Basic challenge\n  head: %q", what, pa, world.Clip(m.Raw[:m.HeadLen]))
		}
	}
}

func finish(x *explore.X, w *world.World, cl *world.Peer, hops ...*world.Hop) {
	cl.Close()
	if err := w.Stop(); err != nil {
		x.Failf("shutdown", "%v", err)
	}
	for _, h := range hops {
		h.Close()
	}
	if l := world.Leaks(); l != "" {
		x.Failf("goroutine-leak", "goroutines left after shutdown:\n%s", l)
	}
}

// ---- the allowed time frame over time ---------------------------------------------------------------------------

// local instants (seconds since local Saturday 00:00:00) around every boundary of the frames sat/7-9,
// sat/22-24, sun/0-1, and around the UTC hour boundaries of zones with :30 / :45 offsets
var tfInstants = []int{
	6*3600 + 3599, 7 * 3600, 7*3600 + 1800, 8*3600 + 3599, 9 * 3600, 9*3600 + 899, 9*3600 + 900, 9*3600 + 1799, 9*3600 + 1800,
	9*3600 + 2699, 9*3600 + 2700, 10 * 3600, 23*3600 + 3599, 24 * 3600, 24*3600 + 3599, 25 * 3600,
}

var tfZones = []int{0, 5*3600 + 1800, 5*3600 + 2700, -(3*3600 + 1800), 13 * 3600}

// tfAllowed is the reference decision for the frames above, from the documented meaning (weekday and
// hour of the LOCAL time, hour in [start,end)).
func tfAllowed(localSec int) bool {
	day, hour := localSec/86400, (localSec%86400)/3600 // day 0 = Saturday, 1 = Sunday
	switch day {
	case 0:
		return (hour >= 7 && hour < 9) || (hour >= 22 && hour < 24)
	case 1:
		return hour >= 0 && hour < 1
	}
	return false
}

// timeFrameScenario: one proxy, requests at an increasing sequence of instants; each must be decided by
// the instant at which it arrives (earlier decisions must not stick), in every local time zone.
func timeFrameScenario(x *explore.X, maxLen int) {
	zone := tfZones[x.ChooseFree("zone", len(tfZones))]
	var seq []int
	last := -1
	for i := 0; i < maxLen; i++ {
		// the next instant: an index above the previous one, or (after the first) stop
		n := len(tfInstants) - (last + 1)
		if i > 0 {
			n++
		}
		if n <= 0 {
			break
		}
		k := x.ChooseFree(fmt.Sprintf("instant-%d", i), n)
		if i > 0 {
			if k == 0 {
				break
			}
			k--
		}
		last = last + 1 + k
		seq = append(seq, tfInstants[last])
	}
	saved := time.Local
	time.Local = time.FixedZone("harness", zone)
	defer func() { time.Local = saved }()
	w, err := world.Start(world.Options{AllowTimeFrame: []string{"sat/7-9", "sat/22-24", "sun/0-1"}})
	if err != nil {
		x.Failf("harness/start", "%v", err)
		return
	}
	okHop, _ := w.Hop("ok.test:80", nil)
	// the virtual clock starts at 2000-01-01 00:00:00 UTC, a Saturday; requests are placed in the following week
	epoch := time.Date(2000, 1, 8, 0, 0, 0, 0, time.UTC).Add(-time.Duration(zone) * time.Second) // local Saturday 00:00:00
	var out []string
	for _, inst := range seq {
		at := epoch.Add(time.Duration(inst) * time.Second)
		if d := time.Until(at); d > 0 {
			world.Settle(d)
		}
		p, err := w.Client()
		if err != nil {
			x.Failf("harness/client", "%v", err)
			return
		}
		pre := snap(w)
		p.Send([]byte("GET http://ok.test/ HTTP/1.1\r\nHost: ok.test\r\n\r\n"))
		msgs, conns, _ := okHop.Next()
		for i := range msgs {
			okHop.Conns[conns[i]].Send([]byte("HTTP/1.1 200 OK\r\nContent-Length: 2\r\n\r\nok"))
		}
		rs := httpwire.ParseResponses(p.Recv(), []string{"GET"}, false)
		what := fmt.Sprintf("zone UTC%+ds, request at local second %d of the week starting Saturday (%02d:%02d:%02d, day %d), sequence %v", zone, inst, (inst%86400)/3600, (inst%3600)/60, inst%60, inst/86400, seq)
		x.Check()
		if tfAllowed(inst) {
			if len(rs.Msgs) != 1 || rs.Msgs[0].Status != 200 || len(msgs) != 1 {
				st := 0
				if len(rs.Msgs) == 1 {
					st = rs.Msgs[0].Status
				}
				x.Failf("accepted-but-refused/time-frame", "%s: inside the allowed frame but answered %d (forwarded %d)", what, st, len(msgs))
			}
		} else {
			checkRefused(x, w, pre, rs, 451, controls{timeframe: true, outside: true}, what)
		}
		out = append(out, fmt.Sprint(tfAllowed(inst)))
		p.Close()
	}
	x.Outcome(strings.Join(out, ","))
	if err := w.Stop(); err != nil {
		x.Failf("shutdown", "%v", err)
	}
	okHop.Close()
	if l := world.Leaks(); l != "" {
		x.Failf("goroutine-leak", "goroutines left after shutdown:\n%s", l)
	}
}

// ---- hosts-file aliases of localhost: every alias of a loopback address is known (or the file is refused) ----------

var hostsLines = []struct {
	name string
	text func() string
}{
	{"localhost", func() string { return "127.0.0.1 localhost" }},
	{"two-aliases-tab", func() string { return "127.0.0.1\tdevbox.internal dev2" }},
	{"ipv6-loopback", func() string { return "::1 ip6-localhost ip6-loopback" }},
	{"not-loopback", func() string { return "10.0.0.5 notlocal.example" }},
	{"127.0.0.2", func() string { return "127.0.0.2 second.loop # trailing comment" }},
	{"empty", func() string { return "" }},
	{"blanks", func() string { return "   \t " }},
	{"comment-10", func() string { return "#" + strings.Repeat("c", 9) }},
	{"comment-4096", func() string { return "#" + strings.Repeat("c", 4095) }},
	{"comment-65535", func() string { return "#" + strings.Repeat("c", 65534) }},
	{"comment-65536", func() string { return "#" + strings.Repeat("c", 65535) }},
	{"comment-65537", func() string { return "#" + strings.Repeat("c", 65536) }},
	{"alias+comment-70000", func() string { return "127.0.0.1 long.comment.alias #" + strings.Repeat("c", 70000) }},
	{"many-names-66000", func() string {
		var b strings.Builder
		b.WriteString("127.0.0.1")
		for i := 0; b.Len() < 66000; i++ {
			fmt.Fprintf(&b, " n%d.many.example", i)
		}
		return b.String()
	}},
}

// refAliases is the oracle's own reading of a hosts file: every name on a line whose address is a loopback address.
func refAliases(content string) []string {
	set := map[string]bool{}
	for _, line := range strings.Split(content, "\n") {
		line = strings.TrimSuffix(line, "\r")
		if i := strings.IndexByte(line, '#'); i >= 0 {
			line = line[:i]
		}
		fs := strings.Fields(line)
		if len(fs) < 2 {
			continue
		}
		if ip := net.ParseIP(fs[0]); ip != nil && ip.IsLoopback() {
			for _, n := range fs[1:] {
				set[n] = true
			}
		}
	}
	var out []string
	for n := range set {
		out = append(out, n)
	}
	sort.Strings(out)
	return out
}

// hostsFileScenario: every hosts file of n lines from the alphabet (LF or CRLF line ends, with or without a
// final line end) is read by the function behind LocalhostAliases. It may refuse the file (the proxy then does
// not start); if it accepts it, it must know every alias of a loopback address - a silently shortened list
// means requests to the missing aliases escape localhost denial.
func hostsFileScenario(x *explore.X, n int) {
	var names []string
	var lines []string
	for i := 0; i < n; i++ {
		l := hostsLines[x.ChooseFree(fmt.Sprintf("line-%d", i), len(hostsLines))]
		names = append(names, l.name)
		lines = append(lines, l.text())
	}
	eol := []string{"\n", "\r\n"}[x.ChooseFree("line-end", 2)]
	content := strings.Join(lines, eol)
	if x.ChooseFree("final-line-end", 2) == 1 {
		content += eol
	}
	got, err := hostsfile.VerifReadLocalhostAliases(strings.NewReader(content))
	x.Check()
	if err != nil {
		x.Outcome("refused: " + strings.SplitN(err.Error(), ":", 2)[0])
		return
	}
	want := refAliases(content)
	sort.Strings(got)
	if strings.Join(got, " ") != strings.Join(want, " ") {
		missing := []string{}
		have := map[string]bool{}
		for _, g := range got {
			have[g] = true
		}
		for _, w := range want {
			if !have[w] && len(missing) < 5 {
				missing = append(missing, w)
			}
		}
		x.Failf("hosts-file-alias-unknown", "hosts file with lines %v (line end %q): accepted, but %d of %d aliases of loopback addresses are known; missing e.g. %v", names, eol, len(got), len(want), missing)
		return
	}
	x.Outcome(fmt.Sprintf("accepted: %d aliases", len(want)))
}

func TestC04(t *testing.T) {
	s := explore.NewSuite(t, "C04", "exploration",
		"controls {basic auth, deny-domains (include+exclude list), localhost denial, allowed time frame with the virtual clock inside/outside} x request kind(6: absolute-form, origin-form, CONNECT, inside a MITM'd tunnel, HTTP/1.0, POST with unusual header layout) x credential variant(22, incl. the right base64 text with letter case altered) x host spelling(17-19, incl. hosts-file aliases read by the oracle's own parser) x position on the connection(3); deviation-bounded exploration (D=2 quick, 3 thorough) plus the full products controls x kind x credentials and controls x kind x host; plus (time-frame-over-time) one proxy with frames sat/7-9, sat/22-24, sun/0-1 in 5 local time zones (UTC, +05:30, +05:45, -03:30, +13:00) and EVERY increasing sequence of 1-2 (quick) / 1-3 (thorough) request instants out of 16 placed 1 s around every frame boundary, midnight and the UTC hour boundaries of the fractional zones, each request decided by a reference from local weekday/hour; plus (hosts-file) every hosts file of 2 (quick) / 3 (thorough) lines out of 14 (loopback entries, other entries, blanks, comments and lines of 10 ... 70000 octets around the 4096 and 65536 buffer sizes) x {LF, CRLF} x {final line end or not} read by the function behind LocalhostAliases: refused, or every alias of a loopback address known; plus (concurrent-deny-decisions, Engine T) the deny-domains matcher of this configuration asked by 2-3 connections at once about 4 hosts (after 0-1 earlier questions), ruleset/regexp.go rebuilt with a scheduling point before every statement, every interleaving within 2 (quick) / 3 (thorough) preemptions: every verdict, and every later single verdict, is the list's; each execution compares the proxy's answer with the reference decision (first failing control in documented order) and proves from the in-memory network's dial log and byte counters that a refused request caused no connection and no byte upstream; (round 9) the configured credentials go through the option's parser (ParseUserinfo) and may begin / end with a blank (variant: the same text with the blanks trimmed must be refused); host spelling without a host (http://:8080/, CONNECT :8080); --basic-auth and --proxy-localhost given as command-line flags through the plumbing of package bind (choice)")
	s.Assume = []string{"simnet owns every dial of the proxy (listen/dial seams)", "deny-domains semantics on host case are those of the configured regular expressions (C17)", "TZ=UTC"}
	s.Add(explore.Scenario{Name: "bounded", Remote: true, MaxDev: map[string]int{"quick": 2, "thorough": 3},
		Run: func(x *explore.X) { world.Run(t, x, func() { scenario(x, 0) }) }})
	s.Add(explore.Scenario{Name: "controls-x-kind-x-credentials", Remote: true, MaxDev: map[string]int{"quick": 0, "thorough": 1},
		Run: func(x *explore.X) { world.Run(t, x, func() { scenario(x, 1) }) }})
	s.Add(explore.Scenario{Name: "controls-x-kind-x-host", Remote: true, MaxDev: map[string]int{"quick": 0, "thorough": 1},
		Run: func(x *explore.X) { world.Run(t, x, func() { scenario(x, 2) }) }})
	s.Add(explore.Scenario{Name: "concurrent-deny-decisions", Remote: true, MaxDev: map[string]int{"quick": 2, "thorough": 3},
		Run: func(x *explore.X) {
			tcore.ConcurrentDecisions(t, x, denyList, []string{"denied.test", "ok.test", "x.blocked.test", "ok.blocked.test"}, deniedByList, "denied-host-decision/concurrent")
		}})
	s.Add(explore.Scenario{Name: "hosts-file-quick", Tiers: []string{"quick"}, Run: func(x *explore.X) { hostsFileScenario(x, 2) }})
	s.Add(explore.Scenario{Name: "hosts-file-thorough", Tiers: []string{"thorough"}, Run: func(x *explore.X) { hostsFileScenario(x, 3) }})
	s.Add(explore.Scenario{Name: "time-frame-over-time-quick", Remote: true, Tiers: []string{"quick"},
		Run: func(x *explore.X) { world.Run(t, x, func() { timeFrameScenario(x, 2) }) }})
	s.Add(explore.Scenario{Name: "time-frame-over-time-thorough", Remote: true, Tiers: []string{"thorough"},
		Run: func(x *explore.X) { world.Run(t, x, func() { timeFrameScenario(x, 3) }) }})
	s.Main()
}
