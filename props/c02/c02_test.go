// C02: responses reach the client intact and correctly framed on keep-alive connections.
// Engine S: sequences of 1-3 exchanges on one client connection; the scripted origin answers with
// every response shape within the deviation bound, cut into segments at chosen places; the client's
// byte stream is parsed by httpwire and compared with expectResponse.
package c02

import (
	"bytes"
	"compress/gzip"
	"crypto/tls"
	"crypto/x509"
	"fmt"
	"strings"
	"testing"
	"time"

	"github.com/saucelabs/forwarder"
	"github.com/saucelabs/forwarder/internal/zzverif/explore"
	"github.com/saucelabs/forwarder/internal/zzverif/h1x"
	"github.com/saucelabs/forwarder/internal/zzverif/httpwire"
	"github.com/saucelabs/forwarder/internal/zzverif/world"
)

type F = h1x.F

const originHost = "origin.test"

type exchange struct {
	// request
	method    string
	version   string // HTTP/1.1 | HTTP/1.0
	connOpt   string // "" | close | keep-alive
	acceptEnc bool   // client sends Accept-Encoding: gzip itself
	override []byte // incremental scenario: the decoded body the origin actually sent
	// response
	status   int
	reason   string
	proto    string
	shape    int
	framing  string // cl | chunked | eof
	size     int
	chunks   []int
	trailers []F
	gzip     bool
	keepAlive10 bool // the origin's HTTP/1.0 response says Connection: keep-alive
	sse      bool
	seg      int
	eol           string // line ending of the events of an event stream: LF, CRLF or CR (the blank line that ends an event is two of them)
	paced         bool   // (round 9) the origin emits its events 40 s apart; the proxy is configured with a 30 s limit for READING REQUESTS (HTTPServerConfig.ReadTimeout, library configuration), which says nothing about how long a response may take
	uploadPending bool   // the request is a POST of which only half the body has been sent when the origin starts to answer
	tail     int // octets that arrive in the same segment after the request: 0 none, 1 a stray CRLF, 2 the first octets of a further request that is never completed
	rules    []string // configured --response-header rules
}

// resRuleSets: configured --response-header rules (C16 checks the rule semantics in isolation; here: that
// they are applied to every relayed response, in every mode, and to nothing else).
var resRuleSets = [][]string{nil, {"X-Added: v"}, {"-Set-Cookie"}, {"-X-*"}, {"%x-mixed-case"}, {"Server;", "-ETag"}}

var statuses = []struct {
	code   int
	reason string
}{{200, "OK"}, {201, "Made It"}, {204, "No Content"}, {304, "Not Modified"}, {404, "Not Found"}, {500, "Oops Custom Reason"}, {200, ""},
	// a status line that ends right after the code ("HTTP/1.1 304" without the space RFC 9112 asks for; Go's client accepts it)
	{304, noSpace}, {204, noSpace}, {200, noSpace}}

const noSpace = "\x00no-space-after-the-code"

var sizes = []int{2, 0, 1, 4095, 4096, 4097, 32767, 32768, 32769, 70000}

var resShapes = []struct {
	name   string
	fields []F
}{
	{"none", nil},
	{"repeated", []F{{"Set-Cookie", "a=1"}, {"Vary", "x"}, {"Set-Cookie", "b=2"}, {"Vary", "y"}, {"X-Mixed-cAse", "v"}}},
	{"connection-close", []F{{"Connection", "close"}}},
	{"hop-by-hop", []F{{"Keep-Alive", "timeout=9"}, {"Proxy-Authenticate", "Basic realm=o"}, {"Connection", "X-Hop"}, {"X-Hop", "h"}, {"X-Stay", "s"}}},
	{"content-type", []F{{"Content-Type", "text/plain; charset=utf-8"}, {"ETag", "\"e\""}, {"Date", "Sat, 01 Jan 2000 00:00:00 GMT"}}},
	{"empty-value", []F{{"X-Empty", ""}, {"Server", "o/1"}}},
	{"upgrade-field", []F{{"Upgrade", "h2c"}, {"Te", "x"}}},
	{"nominated-other-letter-case", []F{{"Connection", "x-hop-a, X-HOP-B"}, {"X-Hop-A", "a"}, {"x-hop-b", "b"}, {"X-Stay", "s"}}},
	{"nominated-list-syntax", []F{{"Connection", "X-Hop-A,X-Hop-B ,,\tX-Hop-C"}, {"X-Hop-A", "a"}, {"X-Hop-B", "b"}, {"Connection", "X-Hop-D"}, {"X-Hop-C", "c"}, {"X-Hop-D", "d"}, {"X-Stay", "s"}}},
}

var hopByHop = map[string]bool{"connection": true, "keep-alive": true, "proxy-authenticate": true, "proxy-authorization": true,
	"proxy-connection": true, "te": true, "trailer": true, "transfer-encoding": true, "upgrade": true}

func gz(b []byte) []byte {
	var buf bytes.Buffer
	w, _ := gzip.NewWriterLevel(&buf, gzip.BestSpeed)
	w.Write(b)
	w.Close()
	return buf.Bytes()
}

func chooseExchange(x *explore.X, p string) exchange {
	e := exchange{version: "HTTP/1.1", proto: "HTTP/1.1"}
	e.method = []string{"GET", "HEAD", "POST"}[x.Choose(p+"method", 3)]
	if x.Choose(p+"client-version", 2) == 1 {
		e.version = "HTTP/1.0"
	}
	e.connOpt = []string{"", "close", "keep-alive"}[x.Choose(p+"client-connection", 3)]
	st := statuses[x.Choose(p+"status", len(statuses))]
	e.status, e.reason = st.code, st.reason
	e.shape = x.Choose(p+"shape", len(resShapes))
	switch x.Choose(p+"framing", 5) {
	case 0:
		e.framing = "cl"
	case 1:
		e.framing = "chunked"
	case 2:
		e.framing = "eof"
	case 3:
		e.framing = "eof"
		e.proto = "HTTP/1.0"
	case 4:
		// an HTTP/1.0 origin with a persistent connection (Content-Length + Connection: keep-alive)
		e.framing = "cl"
		e.proto = "HTTP/1.0"
		e.keepAlive10 = true
	}
	e.size = sizes[x.Choose(p+"size", len(sizes))]
	if e.framing == "chunked" {
		switch x.Choose(p+"chunking", 5) {
		case 1:
			e.chunks = []int{e.size / 2}
		case 2:
			e.chunks = []int{1, 1, 1}
		case 3:
			e.trailers = []F{{"X-T", "tv"}, {"X-T2", "tv2"}}
		case 4:
			e.trailers = []F{{"X-T", "tv"}}
			e.chunks = []int{e.size / 3, e.size / 3}
		}
	}
	switch x.Choose(p+"content", 4) {
	case 1:
		e.gzip = true
	case 2:
		e.gzip = true
		e.acceptEnc = true
	case 3:
		e.sse = true
	}
	e.seg = x.Choose(p+"segmentation", 8)
	e.tail = x.Choose(p+"octets-after-the-request", 3)
	return e
}

func (e exchange) request(absolute bool) []byte {
	m := h1x.Msg{Fields: []F{{"Host", originHost}}}
	m.Start = e.method + " /r " + e.version
	if absolute {
		m.Start = e.method + " http://" + originHost + "/r " + e.version
	}
	if e.connOpt != "" {
		m.Fields = append(m.Fields, F{"Connection", e.connOpt})
	}
	if e.acceptEnc {
		m.Fields = append(m.Fields, F{"Accept-Encoding", "gzip"})
	}
	if e.method == "POST" {
		m.Framing = "cl"
		m.Body = []byte("post-body")
	}
	if e.uploadPending {
		w := m.Wire()
		return w[:len(w)-4] // the last four octets of the body follow after the origin has answered
	}
	return m.Wire()
}

// plain returns the logical (decoded) body the origin conveys.
func (e exchange) plain() []byte {
	if e.override != nil {
		return e.override
	}
	if e.sse {
		var b bytes.Buffer
		for b.Len() < e.size {
			fmt.Fprintf(&b, "data: %d\n\n", b.Len())
		}
		return b.Bytes()[:e.size]
	}
	return h1x.Pattern(e.size, 5)
}

func (e exchange) headOnly() bool {
	return e.method == "HEAD" || e.status == 204 || e.status == 304
}

// response is what the origin puts on the wire.
func (e exchange) response() h1x.Msg {
	start := fmt.Sprintf("%s %d %s", e.proto, e.status, e.reason)
	if e.reason == "" {
		start = fmt.Sprintf("%s %d ", e.proto, e.status)
	}
	if e.reason == noSpace {
		start = fmt.Sprintf("%s %d", e.proto, e.status)
	}
	m := h1x.Msg{Start: start, Fields: append([]F{}, resShapes[e.shape].fields...), Framing: e.framing, Chunks: e.chunks, Trailers: e.trailers}
	if e.keepAlive10 {
		m.Fields = append(m.Fields, F{"Connection", "keep-alive"})
	}
	body := e.plain()
	if e.gzip {
		body = gz(body)
		m.Fields = append(m.Fields, F{"Content-Encoding", "gzip"})
	}
	if e.sse {
		m.Fields = append(m.Fields, F{"Content-Type", "text/event-stream"})
	}
	m.Body = body
	if e.headOnly() {
		// a bodiless reply still declares its framing fields (as real servers do for HEAD), but carries no body
		if e.status == 204 {
			m.Framing = ""
		}
	}
	return m
}

func (e exchange) responseWire() (head, body []byte) {
	m := e.response()
	head = m.Head()
	if !e.headOnly() {
		body = m.BodyWire()
	}
	return
}

func segments(e exchange) [][]byte {
	head, body := e.responseWire()
	wire := append(append([]byte{}, head...), body...)
	hl := len(head)
	switch e.seg {
	case 1:
		return h1x.Cut(wire, 7)
	case 2:
		return h1x.Cut(wire, hl-5)
	case 3:
		return h1x.Cut(wire, hl)
	case 4: // between CR and LF after the first chunk-size line / one byte into the body
		if i := bytes.Index(body, []byte("\r\n")); i >= 0 && e.framing == "chunked" {
			return h1x.Cut(wire, hl+i+1)
		}
		return h1x.Cut(wire, hl+1)
	case 5:
		return h1x.Cut(wire, hl+len(body)/2)
	case 6: // just before the terminating bytes
		return h1x.Cut(wire, len(wire)-3)
	case 7: // head byte-wise
		var out [][]byte
		for i := 0; i < hl; i++ {
			out = append(out, wire[i:i+1])
		}
		if len(wire) > hl {
			out = append(out, wire[hl:])
		}
		return out
	}
	return [][]byte{wire}
}

// expectResponse compares the i-th message the client received with what the origin produced.
func expectResponse(x *explore.X, e exchange, got httpwire.Msg, handlerMode bool) (closing int) {
	announcedClose := false
	fail := func(sig, format string, a ...any) {
		head, _ := e.responseWire()
		x.Failf(sig, "%s\n  request: %s %s conn=%q\n  origin sent head: %q\n  client got head: %q", fmt.Sprintf(format, a...), e.method, e.version, e.connOpt, world.Clip(head), world.Clip(got.Raw[:got.HeadLen]))
	}
	x.Check()
	if got.Status != e.status {
		fail("status", "status %d, want %d", got.Status, e.status)
	}
	if e.reason != "" && e.reason != noSpace && got.Reason != e.reason && !handlerMode { // net/http.Server always writes the standard phrase
		fail("reason", "reason phrase %q, want %q", got.Reason, e.reason)
	}
	if got.Proto != "HTTP/1.1" && got.Proto != "HTTP/1.0" {
		fail("status-line-version", "status line carries version %q", got.Proto)
	}
	origin := e.response()
	proxyDecoded := e.gzip && !e.acceptEnc && !e.headOnly()
	sent := map[string][]string{}
	nominated := map[string]bool{}
	for _, f := range origin.Fields {
		if strings.EqualFold(f.Name, "Connection") {
			for _, tok := range strings.Split(f.Value, ",") {
				nominated[strings.ToLower(strings.TrimSpace(tok))] = true
			}
		}
		sent[strings.ToLower(f.Name)] = append(sent[strings.ToLower(f.Name)], f.Value)
	}
	gotBy := map[string][]string{}
	for _, f := range got.Fields {
		gotBy[strings.ToLower(f.Name)] = append(gotBy[strings.ToLower(f.Name)], f.Value)
	}
	// configured response-header rules, applied in order to what the origin sent (rule names are disjoint
	// from the hop-by-hop names, so the order of the two steps cannot be observed)
	for _, rule := range e.rules {
		switch {
		case strings.HasPrefix(rule, "-") && strings.HasSuffix(rule, "*"):
			pre := strings.ToLower(rule[1 : len(rule)-1])
			for name := range sent {
				if strings.HasPrefix(name, pre) {
					delete(sent, name)
				}
			}
		case strings.HasPrefix(rule, "-"):
			delete(sent, strings.ToLower(rule[1:]))
		case strings.HasPrefix(rule, "%"):
			for _, f := range got.Fields {
				if strings.EqualFold(f.Name, rule[1:]) && f.Name != rule[1:] {
					fail("response-header-rule/rename", "rule %s: field is spelt %q in the response the client received", rule, f.Name)
				}
			}
		case strings.HasSuffix(rule, ";"):
			sent[strings.ToLower(rule[:len(rule)-1])] = []string{""}
		default:
			n, v, _ := strings.Cut(rule, ":")
			sent[strings.ToLower(n)] = append(sent[strings.ToLower(n)], strings.TrimSpace(v))
		}
	}
	for name, vals := range sent {
		switch {
		case name == "connection":
		case hopByHop[name] || nominated[name]:
			if g, ok := gotBy[name]; ok && name != "trailer" {
				fail("hop-by-hop-relayed/"+name, "hop-by-hop field %q relayed with %q", name, g)
			}
		case name == "content-encoding" && proxyDecoded:
			if g, ok := gotBy[name]; ok {
				fail("gzip/content-encoding-kept", "Content-Encoding %q kept although the proxy decoded the body", g)
			}
		case handlerMode && e.status == 304 && name == "content-type":
			// net/http.Server removes Content-Type (and Content-Length) from a 304 it writes
		default:
			if g := gotBy[name]; strings.Join(g, "\x00") != strings.Join(vals, "\x00") || len(g) != len(vals) {
				fail("field-values/"+name, "field %q has values %q, want %q", name, g, vals)
			}
		}
	}
	for name, g := range gotBy {
		if _, ok := sent[name]; ok {
			continue
		}
		switch name {
		case "content-length", "transfer-encoding", "trailer":
		case "date":
			if !handlerMode { // net/http.Server (TestingHTTPHandler variant) adds Date as every origin server does
				fail("invented-field/date", "Date %q invented", g)
			}
		case "connection":
			for _, v := range g {
				if lv := strings.ToLower(v); lv != "close" && lv != "keep-alive" {
					fail("invented-field/connection", "Connection %q", g)
				}
			}
		default:
			fail("invented-field/"+name, "client received field %q = %q the origin never sent", name, g)
		}
	}
	// body
	want := origin.Body
	if proxyDecoded {
		want = e.plain()
	}
	if e.headOnly() {
		want = nil
	}
	if !bytes.Equal(got.Body, want) {
		d := 0
		for d < len(got.Body) && d < len(want) && got.Body[d] == want[d] {
			d++
		}
		sig := "body"
		if e.gzip {
			sig = "body/gzip"
		}
		fail(sig, "body differs: got %d bytes (framing %s), want %d; first difference at offset %d", len(got.Body), got.Framing, len(want), d)
	}
	if e.framing == "cl" && !proxyDecoded && !e.headOnly() {
		if cl := got.Get("Content-Length"); len(cl) != 1 || cl[0] != fmt.Sprint(len(origin.Body)) {
			fail("content-length", "Content-Length %q, want %d", cl, len(origin.Body))
		}
	}
	if e.headOnly() && e.framing == "cl" && e.status != 204 && !(handlerMode && e.status == 304) { // net/http.Server drops Content-Length of a 304
		// Content-Length of a HEAD/304 reply is an end-to-end field describing the selected representation
		if cl := got.Get("Content-Length"); len(cl) != 1 || cl[0] != fmt.Sprint(len(origin.Body)) {
			fail("content-length/head-only", "Content-Length %q, want %d", cl, len(origin.Body))
		}
	}
	if got.Framing == "chunked" && e.version == "HTTP/1.0" {
		fail("chunked-to-http10-client", "chunked transfer coding sent to an HTTP/1.0 client")
	}
	// declared trailers
	if !e.headOnly() && e.framing == "chunked" && !(e.version == "HTTP/1.0") {
		var wt, gt []string
		for _, t := range e.trailers {
			wt = append(wt, strings.ToLower(t.Name)+"="+t.Value)
		}
		for _, t := range got.Trailers {
			gt = append(gt, strings.ToLower(t.Name)+"="+t.Value)
		}
		if strings.Join(wt, ",") != strings.Join(gt, ",") {
			fail("trailers", "trailers %q, want %q", gt, wt)
		}
	}
	for _, v := range gotBy["connection"] {
		if strings.EqualFold(v, "close") {
			announcedClose = true
		}
	}
	if got.Framing == "eof" {
		announcedClose = true
	}
	if !announcedClose && got.Proto == "HTTP/1.0" && !nominatedKeepAlive(gotBy) {
		// an HTTP/1.0 status line without keep-alive and with a self-delimited body: the client will not reuse the
		// connection, and nothing in the property obliges the proxy to close it first - either is accepted
		return closeEither
	}
	if announcedClose {
		return closeYes
	}
	return closeNo
}

const (
	closeNo = iota
	closeYes
	closeEither
)

func nominatedKeepAlive(gotBy map[string][]string) bool {
	for _, v := range gotBy["connection"] {
		if strings.EqualFold(v, "keep-alive") {
			return true
		}
	}
	return false
}

func scenario(x *explore.X, incremental bool) {
	opts := world.Options{}
	cfgk := x.Choose("config", 3)
	nextHop := originHost + ":80"
	var pki *world.PKI
	switch cfgk {
	case 1:
		opts.HTTPHandler = true
	case 2:
		opts.MITM = true
		nextHop = originHost + ":443"
		pki = world.NewPKI("harness origin CA")
		opts.TransportCAPEM = pki.CAPEM
	}
	rules := resRuleSets[x.Choose("response-header-rules", len(resRuleSets))]
	opts.ResponseHeaders = rules
	var exs []exchange
	if incremental {
		exs = []exchange{chooseIncremental(x)}
		if exs[0].uploadPending && (exs[0].version != "HTTP/1.1" || cfgk == 1 || exs[0].size != 40 || exs[0].seg != 1) {
			// (an HTTP/1.0 client and the net/http.Server of the handler variant finish the exchange in ways that leave a
			// goroutine waiting for the body's mutex, a state in which the virtual-clock harness cannot detect quiescence)
			x.Outcome("inadmissible")
			return
		}
		if exs[0].paced {
			opts.Tweak = func(cfg *forwarder.HTTPProxyConfig, _ *forwarder.HTTPTransportConfig) { cfg.ReadTimeout = 30 * time.Second }
		}
	} else {
		n := 1 + x.Choose("exchanges-1", 3)
		for i := 0; i < n; i++ {
			exs = append(exs, chooseExchange(x, fmt.Sprintf("e%d.", i+1)))
		}
	}
	w, err := world.Start(opts)
	if err != nil {
		x.Failf("harness/start", "%v", err)
		return
	}
	var tcfg *tls.Config
	if cfgk == 2 {
		leaf := pki.Leaf([]string{originHost}, -time.Hour, time.Hour)
		tcfg = &tls.Config{Certificates: []tls.Certificate{leaf}}
	}
	nh, _ := w.Hop(nextHop, tcfg)
	raw, err := w.Client()
	if err != nil {
		x.Failf("harness/client", "%v", err)
		return
	}
	var cl world.Stream = raw
	if cfgk == 2 {
		raw.Send([]byte("CONNECT " + originHost + ":443 HTTP/1.1\r\nHost: " + originHost + ":443\r\n\r\n"))
		if got := string(raw.Recv()); got != "HTTP/1.1 200 OK\r\n\r\n" {
			x.Failf("mitm/connect-reply", "CONNECT answered with %q", got)
			return
		}
		pool := x509.NewCertPool()
		pool.AddCert(w.Proxy.MITMCACert())
		tc := world.TLSClient(raw, &tls.Config{RootCAs: pool, ServerName: originHost})
		if done, err := tc.Handshake(); !done || err != nil {
			x.Failf("mitm/handshake", "client TLS handshake with the MITM: done=%v err=%v", done, err)
			return
		}
		cl = tc
	}
	clientEOF := func() bool {
		if tc, ok := cl.(*world.TLSPeer); ok {
			return tc.ReadErr() != nil
		}
		return raw.EOF()
	}
	var methods []string
	var outcome []string
	closed := false
	for i, e := range exs {
		e.rules = rules
		if closed {
			break
		}
		if clientEOF() {
			x.Failf("closed-without-announcement", "connection closed by the proxy before exchange %d although the previous response did not announce it", i+1)
			break
		}
		// (whatever follows the request in the same segment must not keep response k from the client)
		cl.Send(append(e.request(cfgk != 2), []string{"", "\r\n", "GET http:/"}[e.tail]...))
		methods = append(methods, e.method)
		var oc world.Stream
		if e.uploadPending {
			nh.Poll()
			if len(nh.Conns) == 0 || !bytes.Contains(nh.Conns[len(nh.Conns)-1].Recv(), []byte("\r\n\r\npost-")) {
				x.Failf("next-hop-count", "exchange %d: the origin has not received the head and the first half of the body; client got %q", i+1, world.Clip(cl.Recv()))
				break
			}
			oc = nh.Conns[len(nh.Conns)-1]
		} else {
			msgs, conns, problem := nh.Next()
			if len(msgs) != 1 {
				x.Failf("next-hop-count", "exchange %d: origin received %d requests (%s); client got %q", i+1, len(msgs), problem, world.Clip(cl.Recv()))
				break
			}
			oc = nh.Conns[conns[0]]
		}
		segs := segments(e)
		if incremental {
			sent, ok := incrementalDelivery(x, e, oc, cl, cfgk == 1)
			if !ok {
				break
			}

			e.override = sent
		} else {
			for _, sg := range segs {
				oc.Send(sg)
			}
		}
		if e.framing == "eof" && !e.headOnly() {
			oc.Close() // connection-delimited body: the origin ends it by closing
			// (Close waits for quiescence)
		}
		rs := httpwire.ParseResponses(cl.Recv(), methods, clientEOF())
		if rs.State == "syntax" {
			x.Failf(syntaxSig(e, rs), "exchange %d: client stream does not parse: %s\n  stream: %q", i+1, rs.Err, world.Clip(cl.Recv()))
			break
		}
		if len(rs.Msgs) != i+1 || len(rs.Rest) != 0 {
			sig := "message-count"
			if rs.State == "eof-body-open" && e.gzip && !e.acceptEnc {
				sig = "unframed-body/gzip-decoded-by-proxy"
			}
			if e.headOnly() && len(e.trailers) > 0 {
				sig = "message-count/header-only-reply-with-declared-trailer"
			}
			x.Failf(sig, "exchange %d: client holds %d complete responses and %d further bytes (state %q), want exactly %d and none\n  origin sent: %q\n  stream: %q",
				i+1, len(rs.Msgs), len(rs.Rest), rs.State, i+1, world.Clip(bytes.Join(segs, nil)), world.Clip(cl.Recv()))
			break
		}
		announced := expectResponse(x, e, rs.Msgs[i], cfgk == 1)
		// (with stray octets after the request the proxy may close because of THEM - an empty line is not a request -
		// which no response could have announced)
		if e.tail == 0 && announced != closeEither && (announced == closeYes) != clientEOF() {
			x.Failf("close-announcement", "exchange %d: response announced close=%v but connection closed=%v\n  client got head: %q", i+1, announced == closeYes, clientEOF(), world.Clip(rs.Msgs[i].Raw[:rs.Msgs[i].HeadLen]))
		}
		wantClose := e.connOpt == "close" || (e.version == "HTTP/1.0" && e.connOpt != "keep-alive")
		if wantClose && !clientEOF() {
			x.Failf("client-requested-close-ignored", "exchange %d: client asked for the connection to be closed (version %s, Connection %q) but it stays open", i+1, e.version, e.connOpt)
		}
		closed = clientEOF() || e.tail != 0 // after stray octets the connection is not used for a further exchange
		outcome = append(outcome, fmt.Sprintf("%s>%d/%s/%d/close=%v", e.method, rs.Msgs[i].Status, rs.Msgs[i].Framing, len(rs.Msgs[i].Body), closed))
	}
	x.Outcome(fmt.Sprintf("cfg%d %s", cfgk, strings.Join(outcome, " ")))
	cl.Close()
	if err := w.Stop(); err != nil {
		x.Failf("shutdown", "%v", err)
	}
	nh.Close()
	if l := world.Leaks(); l != "" {
		x.Failf("goroutine-leak", "goroutines left after shutdown:\n%s", l)
	}
}

func syntaxSig(e exchange, rs httpwire.Stream) string {
	if e.headOnly() && len(e.trailers) > 0 {
		return "client-stream-syntax/header-only-reply-with-declared-trailer"
	}
	return "client-stream-syntax"
}

// ---- incremental delivery -----------------------------------------------------------------------

func chooseIncremental(x *explore.X) exchange {
	e := exchange{method: "GET", version: "HTTP/1.1", proto: "HTTP/1.1", status: 200, reason: "OK"}
	switch x.ChooseFree("stream-kind", 4) {
	case 0:
		e.sse, e.framing = true, "chunked"
	case 1:
		e.sse, e.framing = true, "eof"
	case 2:
		e.framing = "chunked"
	case 3:
		e.sse, e.framing, e.proto = true, "eof", "HTTP/1.0"
	}
	e.size = []int{40, 5000, 40000}[x.ChooseFree("event-size", 3)]
	e.seg = x.ChooseFree("events", 3) + 1 // number of events before the end
	if x.ChooseFree("client-version", 2) == 1 {
		e.version = "HTTP/1.0"
	}
	e.eol = []string{"\n", "\r\n", "\r"}[x.ChooseFree("event-line-ending", 3)]
	if x.ChooseFree("origin-answers-while-the-request-body-is-still-being-sent", 2) == 1 {
		e.method, e.uploadPending = "POST", true
	}
	if !e.uploadPending && x.ChooseFree("events-40s-apart-with-a-30s-request-read-timeout", 2) == 1 {
		e.paced = true
	}
	return e
}

// incrementalDelivery sends head, then events one by one; after each one (at quiescence, virtual
// time not advanced) the client must already hold the decoded bytes of everything sent so far.
func incrementalDelivery(x *explore.X, e exchange, oc, cl world.Stream, handlerMode bool) ([]byte, bool) {
	m := h1x.Msg{Start: e.proto + " 200 OK", Framing: e.framing}
	if e.sse {
		m.Fields = append(m.Fields, F{"Content-Type", "text/event-stream"})
	}
	oc.Send(m.Head())
	var sent []byte
	t0 := time.Now()
	for k := 0; k < e.seg; k++ {
		if e.paced {
			world.Settle(40 * time.Second)
		}
		ev := []byte(fmt.Sprintf("data: %d ", k))
		ev = append(ev, h1x.Pattern(e.size, byte(k))...)
		ev = append(ev, e.eol+e.eol...)
		sent = append(sent, ev...)
		if e.framing == "chunked" {
			oc.Send([]byte(fmt.Sprintf("%x\r\n%s\r\n", len(ev), ev)))
		} else {
			oc.Send(ev)
		}
		x.Check()
		// what has the client decoded so far?
		got := clientBodySoFar(cl.Recv())
		if !bytes.Equal(got, sent) {
			sig := "incremental-delivery"
			if handlerMode && !e.sse {
				sig = "incremental-delivery/handler-mode-chunked-non-sse"
			}
			x.Failf(sig, "after event %d (%d body bytes sent by the origin, stream kind %s sse=%v, events end with %q, client %s, request body still being uploaded: %v) the client holds %d body bytes at quiescence",
				k+1, len(sent), e.framing, e.sse, e.eol+e.eol, e.version, e.uploadPending, len(got))
			return nil, false
		}
	}
	if d := time.Since(t0); d != 0 && !e.paced {
		x.Failf("incremental-delivery/time", "virtual time advanced by %v while events were relayed", d)
	}
	if e.uploadPending {
		cl.Send([]byte("body")) // the upload ends after the events were delivered and before the stream does
	}
	if e.framing == "chunked" {
		oc.Send([]byte("0\r\n\r\n"))
	}
	return sent, true
}

// clientBodySoFar decodes the (possibly still open) body of the single response in stream.
func clientBodySoFar(stream []byte) []byte {
	i := bytes.Index(stream, []byte("\r\n\r\n"))
	if i < 0 {
		return nil
	}
	head, body := string(stream[:i]), stream[i+4:]
	if !strings.Contains(strings.ToLower(head), "transfer-encoding: chunked") {
		return body
	}
	var out []byte
	for {
		j := bytes.Index(body, []byte("\r\n"))
		if j < 0 {
			return out
		}
		var n int
		if _, err := fmt.Sscanf(string(body[:j]), "%x", &n); err != nil || n == 0 {
			return out
		}
		if len(body) < j+2+n {
			return append(out, body[j+2:]...) // partial chunk already delivered
		}
		out = append(out, body[j+2:j+2+n]...)
		body = body[j+2+n:]
		if len(body) >= 2 {
			body = body[2:]
		}
	}
}

// ---- two connections at once, one client not reading -------------------------------------------------------------

// twoConnections: client A stops reading (4 KiB socket buffer) while a large response is on its way to it,
// so the proxy is blocked in the middle of writing it; meanwhile client B performs a complete exchange with
// other content; then A reads on. Both clients must hold exactly their own response. (Whatever the proxy
// keeps per response - copy buffers, flushers, gzip readers - must not be shared between connections.)
func twoConnections(x *explore.X) {
	handler := x.ChooseFree("config", 2) == 1
	fa := []string{"cl", "chunked", "eof"}[x.ChooseFree("framing-a", 3)]
	fb := []string{"cl", "chunked"}[x.ChooseFree("framing-b", 2)]
	gzA := x.ChooseFree("gzip-a", 2) == 1
	gzB := x.ChooseFree("gzip-b", 2) == 1
	sizeB := []int{40000, 5}[x.ChooseFree("size-b", 2)]
	aborted := x.ChooseFree("an-earlier-download-was-aborted-by-its-client", 2) == 1
	w, err := world.Start(world.Options{HTTPHandler: handler})
	if err != nil {
		x.Failf("harness/start", "%v", err)
		return
	}
	nh, _ := w.Hop(originHost+":80", nil)
	if aborted {
		// history: a chunked download whose client vanished in the middle of the body (the proxy's copy fails)
		c0, _ := w.Client()
		c0.Send([]byte("GET http://" + originHost + "/aborted HTTP/1.1\r\nHost: " + originHost + "\r\n\r\n"))
		msgs, conns, _ := nh.Next()
		if len(msgs) != 1 {
			x.Failf("next-hop-count", "origin received %d requests for the aborted download", len(msgs))
			return
		}
		oc := nh.Conns[conns[0]]
		oc.Send([]byte("HTTP/1.1 200 OK\r\nTransfer-Encoding: chunked\r\n\r\n2000\r\n" + string(h1x.Pattern(0x2000, 23)) + "\r\n"))
		c0.Abort()
		oc.Send([]byte("2000\r\n" + string(h1x.Pattern(0x2000, 29)) + "\r\n0\r\n\r\n"))
		world.Settle(5 * time.Second)
	}
	mk := func(framing string, gzip bool, size int, salt byte) exchange {
		return exchange{method: "GET", version: "HTTP/1.1", status: 200, reason: "OK", proto: "HTTP/1.1", framing: framing, size: size, gzip: gzip, override: h1x.Pattern(size, salt)}
	}
	ea, eb := mk(fa, gzA, 70000, 11), mk(fb, gzB, sizeB, 17)
	clA, _ := w.Client()
	clB, _ := w.Client()
	send := func(cl *world.Peer, e exchange) world.Stream {
		cl.Send(e.request(true))
		msgs, conns, problem := nh.Next()
		if len(msgs) != 1 {
			x.Failf("next-hop-count", "origin received %d requests (%s)", len(msgs), problem)
			return nil
		}
		return nh.Conns[conns[0]]
	}
	reply := func(oc world.Stream, e exchange) {
		head, body := e.responseWire()
		oc.Send(append(append([]byte{}, head...), body...))
		if e.framing == "eof" {
			oc.Close()
		}
	}
	check := func(who string, cl *world.Peer, e exchange) bool {
		rs := httpwire.ParseResponses(cl.Recv(), []string{"GET"}, cl.EOF())
		if rs.State == "syntax" || len(rs.Msgs) != 1 || len(rs.Rest) != 0 {
			x.Failf("two-connections/message", "client %s (framing %s gzip=%v, other connection: framing-a=%s gzip-a=%v framing-b=%s gzip-b=%v): holds %d complete responses, state %q err %q, rest %d bytes", who, e.framing, e.gzip, fa, gzA, fb, gzB, len(rs.Msgs), rs.State, rs.Err, len(rs.Rest))
			return false
		}
		expectResponse(x, e, rs.Msgs[0], handler)
		return !x.Failed()
	}
	oa := send(clA, ea)
	if oa == nil {
		return
	}
	clA.Recv()
	clA.Hold = true
	clA.C.SetLimit(4096)
	reply(oa, ea)
	ob := send(clB, eb)
	if ob == nil {
		return
	}
	reply(ob, eb)
	x.Check()
	okB := check("B (while A is stalled)", clB, eb)
	clA.Hold = false
	clA.C.SetLimit(0)
	clA.Recv()
	world.Settle(0)
	if okB {
		check("A (after it resumed)", clA, ea)
	}
	x.Outcome(fmt.Sprintf("handler=%v a=%s/%v b=%s/%v/%d aborted=%v", handler, fa, gzA, fb, gzB, sizeB, aborted))
	clA.Close()
	clB.Close()
	if err := w.Stop(); err != nil {
		x.Failf("shutdown", "%v", err)
	}
	nh.Shutdown()
	world.Settle(5 * time.Second)
	if l := world.Leaks(); l != "" {
		x.Failf("goroutine-leak", "%s", l)
	}
}

func TestC02(t *testing.T) {
	s := explore.NewSuite(t, "C02", "exploration",
		"sequences of 1-3 exchanges on one client connection; each exchange = request method(3) x client version(2) x client Connection option(3) x origin status(10, incl. status lines without reason phrase and without the space after the code) x header shape(9) x framing(CL, chunked, EOF-delimited 1.1, EOF-delimited 1.0, CL from a keep-alive HTTP/1.0 origin) x size(10) x chunking/trailers(5) x content(plain, gzip solicited by the proxy, gzip solicited by the client, event stream) x origin write segmentation(8) x octets arriving with the request(nothing, a stray CRLF, the beginning of a further request that never completes) x configuration(TCP server, TestingHTTPHandler, MITM) x configured --response-header rule set(6: none, append, remove, prefix removal, rename, set-empty+remove); all combinations with at most D deviations (D=3 quick, 4 thorough) from the default sequence are executed and the client's byte stream is parsed by the independent parser and compared message by message with expectResponse; plus (two-connections) the full product framing x gzip x size x mode (optionally after an earlier download that its client aborted mid-body) of two connections of which one client stops reading in the middle of a 70000-byte response while the other performs a complete exchange, both compared exactly; plus the full product of the incremental-delivery scenario (stream kind x event size x events x client version x configuration); non-trivial = at least one response was compared; (round 9) incremental family x {events at once, events 40 s apart while HTTPServerConfig.ReadTimeout - a limit for reading REQUESTS - is 30 s}")
	s.Assume = []string{"simnet models TCP", "httpwire is trusted", "compress/gzip is used to build and check gzip bodies"}
	s.Add(explore.Scenario{Name: "exchanges", Remote: true, MaxDev: map[string]int{"quick": 3, "thorough": 4},
		Run: func(x *explore.X) { world.Run(t, x, func() { scenario(x, false) }) }})
	s.Add(explore.Scenario{Name: "incremental", Remote: true, StallS: 20, MaxDev: map[string]int{"quick": 1, "thorough": 1},
		Run: func(x *explore.X) { world.Run(t, x, func() { scenario(x, true) }) }})
	s.Add(explore.Scenario{Name: "two-connections", Remote: true, Run: func(x *explore.X) { world.Run(t, x, func() { twoConnections(x) }) }})
	s.Main()
}
