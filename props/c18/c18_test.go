// C18: a request that already passed through this proxy instance is refused (no loops).
// Engine S: the instance's own Via element is learnt from a first forwarded request; then every Via
// chain of the alphabet is sent and the outcome compared with the reference (own element present
// => 400 and no upstream contact; else forwarded with exactly one appended element). Real loops of
// one instance (upstream = itself) and of two instances (A -> B -> A) run in one bubble.
package c18

import (
	"crypto/tls"
	"crypto/x509"
	"fmt"
	"github.com/saucelabs/forwarder/internal/zzverif/tcore"
	"strings"
	"testing"
	"time"

	"github.com/saucelabs/forwarder/internal/zzverif/explore"
	"github.com/saucelabs/forwarder/internal/zzverif/httpwire"
	"github.com/saucelabs/forwarder/internal/zzverif/world"
)

const originHost = "origin.test"

func elems(vals []string) []string {
	var out []string
	for _, v := range vals {
		for _, e := range strings.Split(v, ",") {
			if e = strings.TrimSpace(e); e != "" {
				out = append(out, e)
			}
		}
	}
	return out
}

func chains(x *explore.X, own string, tag string) (lines []string, hasOwn bool, desc string) {
	other := []string{"1.1 other.example", "1.0 fred", "1.1 forwarder-00000000000000000000", "1.1 " + strings.Split(tag, "-")[0], "1.1 p.example (Apache/1.1)"}
	// (RWS between the parts of an element is one or more SP / HTAB; a later hop may have re-spelt the chain)
	ownVariants := []string{own, own + " (comment)", "1.0 " + tag, "HTTP/1.1 " + tag, "2.0 " + tag, "1.1\t" + tag, "1.1  " + tag, own + "\t(comment)"}
	n := x.Choose("chain-length", 4) // 0..3 elements
	ownPos := -1
	if n > 0 {
		ownPos = x.Choose("own-position", n+1) - 1 // -1 = own element absent
	}
	var chain []string
	for i := 0; i < n; i++ {
		if i == ownPos {
			chain = append(chain, ownVariants[x.Choose("own-variant", len(ownVariants))])
			hasOwn = true
		} else {
			chain = append(chain, other[x.Choose(fmt.Sprintf("other%d", i), len(other))])
		}
	}
	// layout: one line, or split into two lines after element k
	split := 0
	if n > 1 {
		split = x.Choose("line-split", n) // 0 = one line, k = new line after k elements
	}
	if n == 0 {
		return nil, false, "no Via"
	}
	if split == 0 {
		lines = []string{strings.Join(chain, ", ")}
	} else {
		lines = []string{strings.Join(chain[:split], ", "), strings.Join(chain[split:], ", ")}
	}
	return lines, hasOwn, fmt.Sprintf("%q", lines)
}

func scenario(x *explore.X) {
	kind := x.Choose("kind", 3) // 0 absolute-form, 1 origin-form, 2 inside MITM
	version := []string{"HTTP/1.1", "HTTP/1.0"}[x.Choose("version", 2)]
	opts := world.Options{}
	var pki *world.PKI
	nextHop := originHost + ":80"
	if kind == 2 {
		opts.MITM = true
		pki = world.NewPKI("harness origin CA")
		opts.TransportCAPEM = pki.CAPEM
		nextHop = originHost + ":443"
	}
	w, err := world.Start(opts)
	if err != nil {
		x.Failf("harness/start", "%v", err)
		return
	}
	var tcfg *tls.Config
	if kind == 2 {
		tcfg = &tls.Config{Certificates: []tls.Certificate{pki.Leaf([]string{originHost}, -time.Hour, time.Hour)}}
	}
	nh, _ := w.Hop(nextHop, tcfg)
	raw, _ := w.Client()
	var cl world.Stream = raw
	if kind == 2 {
		raw.Send([]byte("CONNECT " + originHost + ":443 HTTP/1.1\r\nHost: " + originHost + ":443\r\n\r\n"))
		if got := string(raw.Recv()); got != "HTTP/1.1 200 OK\r\n\r\n" {
			x.Failf("mitm/connect-reply", "CONNECT answered with %q", got)
			return
		}
		pool := x509.NewCertPool()
		pool.AddCert(w.Proxy.MITMCACert())
		tc := world.TLSClient(raw, &tls.Config{RootCAs: pool, ServerName: originHost})
		if done, err := tc.Handshake(); !done || err != nil {
			x.Failf("mitm/handshake", "done=%v err=%v (connect reply %q)", done, err, raw.Recv())
			return
		}
		cl = tc
	}
	target := "/x"
	if kind == 0 {
		target = "http://" + originHost + "/x"
	}
	// warm-up request: learn the instance's own element
	cl.Send([]byte("GET " + target + " HTTP/1.1\r\nHost: " + originHost + "\r\n\r\n"))
	msgs, conns, _ := nh.Next()
	if len(msgs) != 1 {
		x.Failf("harness/warmup", "warm-up request not forwarded: client got %q", world.Clip(cl.Recv()))
		return
	}
	ownElems := elems(msgs[0].Get("Via"))
	if len(ownElems) != 1 || !strings.HasPrefix(ownElems[0], "1.1 forwarder-") {
		x.Failf("via/own-element", "first forwarded request carries Via %q, want one element \"1.1 forwarder-<id>\"", ownElems)
		return
	}
	own := ownElems[0]
	tag := strings.TrimPrefix(own, "1.1 ")
	nh.Conns[conns[0]].Send([]byte("HTTP/1.1 200 OK\r\nContent-Length: 2\r\n\r\nok"))

	lines, hasOwn, desc := chains(x, own, tag)
	var sb strings.Builder
	sb.WriteString("GET " + target + " " + version + "\r\nHost: " + originHost + "\r\n")
	// the client may nominate Via in Connection (legal): whatever that does to the elements it sent, the request
	// this instance forwards carries this instance's element
	nominated := x.Choose("client-nominates-via-in-connection", 2) == 1
	if nominated {
		sb.WriteString("Connection: Via\r\n")
	}
	for i, l := range lines {
		sb.WriteString("Via: " + l + "\r\n")
		if i == 0 && len(lines) > 1 {
			sb.WriteString("X-Between: 1\r\n")
		}
	}
	sb.WriteString("\r\n")
	dialsBefore := len(w.Net.Dials())
	bytesBefore := nh.TotalBytes()
	cl.Send([]byte(sb.String()))
	x.Logf("own element %q; sent Via lines %s", own, desc)
	x.Check()
	msgs, conns, _ = nh.Next()
	rs := httpwire.ParseResponses(cl.Recv(), []string{"GET", "GET"}, false)
	if hasOwn {
		if len(msgs) != 0 || nh.TotalBytes() != bytesBefore || len(w.Net.Dials()) != dialsBefore {
			sig := "loop-not-detected"
			if nominated {
				sig = "loop-not-detected/via-nominated-in-connection"
			}
			x.Failf(sig, "Via %s contains this instance's element %q but the request was forwarded (dials %v; Connection: Via sent by the client: %v)", desc, tag, w.Net.Dials()[dialsBefore:], nominated)
		} else if len(rs.Msgs) != 2 || rs.Msgs[1].Status != 400 {
			x.Failf("loop-status", "Via %s contains this instance's element: want 400, client stream %q", desc, world.Clip(cl.Recv()))
		}
		x.Outcome("refused-400")
	} else {
		if len(msgs) != 1 {
			x.Failf("foreign-via-refused", "Via %s does not contain this instance's element %q but the request was not forwarded: client got %q", desc, tag, world.Clip(cl.Recv()))
		} else {
			got := elems(msgs[0].Get("Via"))
			want := append(elems(lines), strings.TrimPrefix(version, "HTTP/")+" "+tag)
			if nominated {
				// (the client's own elements are hop-by-hop by its choice and go; C01's business)
				want = want[len(want)-1:]
			}
			if strings.Join(got, "|") != strings.Join(want, "|") {
				x.Failf("via-chain", "forwarded Via elements %q, want %q (client nominated Via in Connection: %v)", got, want, nominated)
			}
			// (round 9) the next hop may take the request and hang up, or reset, without answering: whatever the proxy then
			// does (an error response, a second attempt), the request never looped - it is not answered 400, and a second
			// attempt carries the same chain, not one in which this instance's element appears twice
			switch fate := x.Choose("next-hop-after-receiving-the-request", 3); fate {
			case 0:
				nh.Conns[conns[0]].Send([]byte("HTTP/1.1 200 OK\r\nContent-Length: 2\r\n\r\nok"))
			default:
				if fate == 1 {
					nh.Conns[conns[0]].Close()
				} else {
					nh.Raw[conns[0]].Abort()
				}
				// (the connection may have been a reused one, in which case net/http's transport repeats the request on a new
				// connection by itself: every attempt meets the same fate)
				for attempt := 0; attempt < 4; attempt++ {
					world.Settle(5 * time.Second)
					more, mc, _ := nh.Next()
					if len(more) == 0 {
						break
					}
					for i, m := range more {
						if g := elems(m.Get("Via")); strings.Join(g, "|") != strings.Join(want, "|") {
							x.Failf("via-chain/second-attempt", "the next hop hung up without answering; a further attempt reached it with Via elements %q, want %q", g, want)
						}
						if fate == 1 {
							nh.Conns[mc[i]].Close()
						} else {
							nh.Raw[mc[i]].Abort()
						}
					}
				}
				ans := httpwire.ParseResponses(cl.Recv(), []string{"GET", "GET", "GET"}, false)
				if n := len(ans.Msgs); n == 0 || ans.Msgs[n-1].Status == 400 {
					x.Failf("foreign-via-refused/after-the-next-hop-hung-up", "Via %s does not contain this instance's element and the next hop hung up without answering (fate %d): the client got %q, a request that never looped is not a loop", desc, fate, world.Clip(cl.Recv()))
				}
			}
		}
		x.Outcome(fmt.Sprintf("forwarded/%d", len(elems(lines))))
	}
	// afterwards - also after a refused loop - an ordinary request with a foreign chain is forwarded as ever
	// (the modifier is one long-lived object: what it did for the previous request must leave nothing behind)
	if kind != 2 && !x.Failed() {
		cl2, _ := w.Client()
		cl2.Send([]byte("GET " + target + " HTTP/1.1\r\nHost: " + originHost + "\r\nVia: 1.1 afterwards\r\n\r\n"))
		msgs, conns, _ = nh.Next()
		x.Check()
		if len(msgs) != 1 {
			x.Failf("foreign-via-refused/after-the-previous-request", "after a request with Via %s (loop=%v): an ordinary request with Via \"1.1 afterwards\" was not forwarded: client got %q", desc, hasOwn, world.Clip(cl2.Recv()))
		} else {
			if got := elems(msgs[0].Get("Via")); strings.Join(got, "|") != "1.1 afterwards|1.1 "+tag {
				x.Failf("via-chain/after-the-previous-request", "after a request with Via %s (loop=%v): forwarded Via elements %q, want [1.1 afterwards, 1.1 %s]", desc, hasOwn, got, tag)
			}
			nh.Conns[conns[0]].Send([]byte("HTTP/1.1 200 OK\r\nContent-Length: 2\r\n\r\nok"))
		}
		cl2.Close()
	}
	cl.Close()
	if err := w.Stop(); err != nil {
		x.Failf("shutdown", "%v", err)
	}
	nh.Close()
	if l := world.Leaks(); l != "" {
		x.Failf("goroutine-leak", "%s", l)
	}
}

// connectViaUpstream: a CONNECT that is tunnelled through an upstream HTTP proxy is a forwarded request like any
// other: the upstream proxy must see the client's Via chain plus this instance's element, and a chain that
// already contains the element is refused without contacting the upstream - with and without configured
// --connect-header / --header rules.
func connectViaUpstream(x *explore.X) {
	chainKind := x.ChooseFree("chain", 4) // 0 none, 1 foreign, 2 own, 3 foreign+own+later
	connRules := x.ChooseFree("connect-header-rules", 2) == 1
	reqRules := x.ChooseFree("header-rules", 2) == 1
	opts := world.Options{Upstream: "http://up.test:8080"}
	if connRules {
		opts.ConnectHeaders = []string{"X-Conn: 1"}
	}
	if reqRules {
		opts.RequestHeaders = []string{"X-Req: 1"}
	}
	w, err := world.Start(opts)
	if err != nil {
		x.Failf("harness/start", "%v", err)
		return
	}
	up, _ := w.Hop("up.test:8080", nil)
	cl, _ := w.Client()
	cl.Send([]byte("GET http://" + originHost + "/x HTTP/1.1\r\nHost: " + originHost + "\r\n\r\n"))
	msgs, conns, _ := up.Next()
	if len(msgs) != 1 {
		x.Failf("harness/warmup", "warm-up request not forwarded: client got %q", world.Clip(cl.Recv()))
		return
	}
	ownElems := elems(msgs[0].Get("Via"))
	if len(ownElems) != 1 {
		x.Failf("via/own-element", "first forwarded request carries Via %q", ownElems)
		return
	}
	own := ownElems[0]
	tag := strings.TrimPrefix(own, "1.1 ")
	up.Conns[conns[0]].Send([]byte("HTTP/1.1 200 OK\r\nContent-Length: 2\r\nConnection: close\r\n\r\nok"))
	cl.Close()
	var chain []string
	switch chainKind {
	case 1:
		chain = []string{"1.1 other.example"}
	case 2:
		chain = []string{own}
	case 3:
		chain = []string{"1.0 a.example", own, "1.1 later.example"}
	}
	hasOwn := chainKind >= 2
	c2, _ := w.Client()
	var sb strings.Builder
	sb.WriteString("CONNECT " + originHost + ":443 HTTP/1.1\r\nHost: " + originHost + ":443\r\n")
	if len(chain) > 0 {
		sb.WriteString("Via: " + strings.Join(chain, ", ") + "\r\n")
	}
	sb.WriteString("\r\n")
	dialsBefore := len(w.Net.Dials())
	c2.Send([]byte(sb.String()))
	world.Settle(time.Second)
	x.Check()
	what := fmt.Sprintf("CONNECT through the upstream proxy with Via %q (connect-header rules: %v, header rules: %v)", chain, connRules, reqRules)
	msgs, conns, _ = up.Next()
	if hasOwn {
		if len(msgs) != 0 || len(w.Net.Dials()) != dialsBefore {
			x.Failf("loop-not-detected/connect", "%s: contains this instance's element %q but the upstream proxy was contacted", what, tag)
		}
		rs := httpwire.ParseResponses(c2.Recv(), []string{"CONNECT"}, false)
		if len(rs.Msgs) != 1 || rs.Msgs[0].Status != 400 {
			x.Failf("loop-status/connect", "%s: want 400, client got %q", what, world.Clip(c2.Recv()))
		}
		x.Outcome("refused-400")
	} else {
		if len(msgs) != 1 || msgs[0].Method != "CONNECT" {
			x.Failf("connect-not-forwarded", "%s: the upstream proxy received %d requests; client got %q", what, len(msgs), world.Clip(c2.Recv()))
		} else {
			got := elems(msgs[0].Get("Via"))
			want := append(append([]string{}, chain...), "1.1 "+tag)
			if strings.Join(got, "|") != strings.Join(want, "|") {
				x.Failf("via-chain/connect", "%s: the upstream proxy received Via elements %q, want %q", what, got, want)
			}
			up.Conns[conns[0]].Send([]byte("HTTP/1.1 200 OK\r\n\r\n"))
		}
		x.Outcome(fmt.Sprintf("forwarded/%d", len(chain)))
	}
	c2.Close()
	if err := w.Stop(); err != nil {
		x.Failf("shutdown", "%v", err)
	}
	up.Shutdown()
	world.Settle(5 * time.Second)
	if l := world.Leaks(); l != "" {
		x.Failf("goroutine-leak", "%s", l)
	}
}

// loops: actual forwarding loops of one and two instances.
func loopScenario(x *explore.X) {
	two := x.ChooseFree("instances-1", 2) == 1
	sameName := x.ChooseFree("same-name", 2) == 1
	version := []string{"HTTP/1.1", "HTTP/1.0"}[x.ChooseFree("version", 2)]
	a, err := world.Start(world.Options{Upstream: map[bool]string{false: "http://" + world.ProxyAddr, true: "http://b.test:3128"}[two]})
	if err != nil {
		x.Failf("harness/start", "%v", err)
		return
	}
	var b *world.World
	if two {
		name := "forwarder-b"
		if sameName {
			name = "forwarder"
		}
		b, err = world.Start(world.Options{Net: a.Net, Addr: "b.test:3128", Upstream: "http://" + world.ProxyAddr, Name: name})
		if err != nil {
			x.Failf("harness/start-b", "%v", err)
			return
		}
	}
	org, _ := a.Hop(originHost+":80", nil)
	cl, _ := a.Client()
	cl.Send([]byte("GET http://" + originHost + "/loop " + version + "\r\nHost: " + originHost + "\r\n\r\n"))
	world.Settle(5 * time.Second)
	x.Check()
	rs := httpwire.ParseResponses(cl.Recv(), []string{"GET"}, cl.EOF())
	dials := a.Net.Dials()
	passes := 0
	for _, d := range dials {
		if d.Outcome == "connected" {
			passes++
		}
	}
	wantPasses := 1 // A -> A: the second arrival is refused
	if two {
		wantPasses = 2 // A -> B -> A: A refuses on its second arrival
	}
	if org.TotalBytes() != 0 {
		x.Failf("loop-reached-origin", "looping request reached the origin")
	}
	if passes != wantPasses {
		x.Failf("loop-length", "loop terminated after %d forwarded hops, want %d (dials %v)", passes, wantPasses, dials)
	}
	if len(rs.Msgs) != 1 || rs.Msgs[0].Status != 400 {
		x.Failf("loop-status", "client of a forwarding loop got %q, want a 400", world.Clip(cl.Recv()))
	}
	x.Outcome(fmt.Sprintf("loop two=%v passes=%d", two, passes))
	cl.Close()
	if err := a.Stop(); err != nil {
		x.Failf("shutdown", "%v", err)
	}
	if b != nil {
		if err := b.Stop(); err != nil {
			x.Failf("shutdown-b", "%v", err)
		}
	}
	org.Close()
	if l := world.Leaks(); l != "" {
		x.Failf("goroutine-leak", "%s", l)
	}
}

func TestC18(t *testing.T) {
	s := explore.NewSuite(t, "C18", "exploration",
		"Via chains of 0-3 elements drawn from 5 foreign elements (incl. same name with a different instance tag, the bare name, a comment) with this instance's own element (5 spellings: as emitted, with comment, other received-protocol) absent or at every position, in one line or split over two lines at every boundary, x request kind (absolute-form, origin-form, inside a MITM'd tunnel) x client version; deviation-bounded (D=5 quick, 7 thorough); the own element is learnt from a first forwarded request; plus real forwarding loops of one instance (upstream = itself) and two instances (A->B->A, same or different names) x version, full product; non-trivial = the chain was sent and the outcome compared; plus (concurrent-via, Engine T) ONE Via modifier used by two requests at once (5 chains x 5 chains x HTTP/1.0 or 1.1 each), via_modifier.go rebuilt with a scheduling point before every statement, every interleaving with at most 2 (quick) / 3 (thorough) preemptions: each request is refused iff its own chain contains this instance's element and otherwise leaves with its own chain plus one element; plus (connect-via-upstream) a CONNECT tunnelled through an upstream HTTP proxy: Via chain(none, foreign, own, foreign+own+later) x configured --connect-header rules x --header rules [full product]: the upstream proxy sees chain + own element, or is not contacted and the client gets 400; (round 9) the next hop takes a forwarded request and hangs up or resets without answering (every attempt): the client is not answered 400 and a further attempt carries the same Via chain")
	s.Assume = []string{"simnet models TCP", "the instance tag is read from the first forwarded request, never predicted"}
	s.Add(explore.Scenario{Name: "chains", Remote: true, MaxDev: map[string]int{"quick": 5, "thorough": 7},
		Run: func(x *explore.X) { world.Run(t, x, func() { scenario(x) }) }})
	s.Add(explore.Scenario{Name: "loops", Remote: true,
		Run: func(x *explore.X) { world.Run(t, x, func() { loopScenario(x) }) }})
	s.Add(explore.Scenario{Name: "connect-via-upstream", Remote: true, Run: func(x *explore.X) { world.Run(t, x, func() { connectViaUpstream(x) }) }})
	s.Add(explore.Scenario{Name: "concurrent-via", Remote: true, MaxDev: map[string]int{"quick": 2, "thorough": 3},
		Run: func(x *explore.X) { tcore.ConcurrentVia(t, x) }})
	s.Main()
}
