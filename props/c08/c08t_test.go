package c08

import (
	"bytes"
	"fmt"
	"net"
	"sort"
	"sync"
	"testing"
	"time"

	"github.com/saucelabs/forwarder/internal/zzverif/explore"
	"github.com/saucelabs/forwarder/internal/zzverif/simnet"
	"github.com/saucelabs/forwarder/internal/zzverif/tsched"
	"github.com/saucelabs/forwarder/internal/zzverif/vsync"
	"github.com/saucelabs/forwarder/proxyproto"
)

// concurrentScenario (Engine T): 2-3 threads call Read / Write / RemoteAddr / LocalAddr on ONE accepted
// connection whose header and payload are already in the socket; every interleaving of their hooked
// operations (atomic flag, header mutex, the spawned header reader) up to the preemption bound is explored.
// All address callers must see the header's addresses, the readers together must read exactly the payload.
func concurrentScenario(t *testing.T, x *explore.X, maxThreads int) {
	nthreads := 2 + x.ChooseFree("threads-2", maxThreads-1)
	ops := make([]int, nthreads)
	for i := range ops {
		ops[i] = x.ChooseFree(fmt.Sprintf("op%d", i), 4) // 0 RemoteAddr, 1 Read, 2 LocalAddr, 3 Write
	}
	hdr := x.ChooseFree("header", 3)
	header := [][]byte{[]byte("PROXY TCP4 192.0.2.1 198.51.100.2 40000 443\r\n"), v2(0x21, 0x21, 36, addr6("2001:db8::1", "2001:db8::2", 40001, 8443)), []byte("PROXY UNKNOWN\r\n")}[hdr]
	payload := []byte("PAYLOAD-0123456789")
	var (
		mu      sync.Mutex
		remotes []net.Addr
		locals  []net.Addr
		chunks  [][]byte
		errs    []error
	)
	var peer *simnet.Conn
	var conn net.Conn
	var wantR, wantL string
	tsched.Run(t, x, 5*time.Second, false, func() {
		n := simnet.New()
		base, _ := n.Listen("pp.test:3128")
		pl := &proxyproto.Listener{Listener: base, ReadHeaderTimeout: headerTO}
		peer, _ = n.DialFrom("lb.test", "pp.test:3128")
		conn, _ = pl.Accept()
		peer.Write(append(append([]byte{}, header...), payload...))
		switch hdr {
		case 0:
			wantR, wantL = "192.0.2.1:40000", "198.51.100.2:443"
		case 1:
			wantR, wantL = "[2001:db8::1]:40001", "[2001:db8::2]:8443"
		case 2:
			wantR, wantL = peer.LocalAddr().String(), peer.RemoteAddr().String()
		}
		for i := 0; i < nthreads; i++ {
			op := ops[i]
			vsync.GoNamed(fmt.Sprintf("caller%d/%s", i, []string{"RemoteAddr", "Read", "LocalAddr", "Write"}[op]), func() {
				switch op {
				case 0:
					a := conn.RemoteAddr()
					mu.Lock()
					remotes = append(remotes, a)
					mu.Unlock()
				case 2:
					a := conn.LocalAddr()
					mu.Lock()
					locals = append(locals, a)
					mu.Unlock()
				case 1:
					buf := make([]byte, 7)
					k, err := conn.Read(buf)
					mu.Lock()
					chunks = append(chunks, buf[:k])
					if err != nil {
						errs = append(errs, err)
					}
					mu.Unlock()
				case 3:
					_, err := conn.Write([]byte("reply"))
					mu.Lock()
					if err != nil {
						errs = append(errs, err)
					}
					mu.Unlock()
				}
			})
		}
	}, func(s *vsync.Scheduler) {
		x.Check()
		what := fmt.Sprintf("header %d, callers %v", hdr, ops)
		for _, a := range remotes {
			if isNil(a) || a.String() != wantR {
				x.Failf("concurrent/remote-address", "%s: a RemoteAddr caller got %v, want %s\n  schedule: %v", what, a, wantR, s.Trace)
			}
		}
		for _, a := range locals {
			if isNil(a) || a.String() != wantL {
				x.Failf("concurrent/local-address", "%s: a LocalAddr caller got %v, want %s\n  schedule: %v", what, a, wantL, s.Trace)
			}
		}
		for _, e := range errs {
			x.Failf("concurrent/error", "%s: a caller failed: %v\n  schedule: %v", what, e, s.Trace)
		}
		// the readers' chunks, in some order, are consecutive pieces of the payload; nothing of the header leaks
		var got []string
		total := 0
		for _, c := range chunks {
			got = append(got, string(c))
			total += len(c)
			if !bytes.Contains(payload, c) {
				x.Failf("concurrent/read-not-payload", "%s: a reader got %q which is not part of the payload %q\n  schedule: %v", what, c, payload, s.Trace)
			}
		}
		sort.Strings(got)
		rest := peer.Peer().Status().Pending
		if total+rest != len(payload) {
			x.Failf("concurrent/payload-accounting", "%s: readers hold %d bytes %q and %d are unread in the socket, the payload has %d (header consumed twice or leaked)\n  schedule: %v", what, total, got, rest, len(payload), s.Trace)
		}
		x.Outcome(fmt.Sprintf("h%d r=%d l=%d c=%d", hdr, len(remotes), len(locals), len(chunks)))
		peer.Close()
		conn.Close()
	})
}
