// C08: PROXY-protocol listener yields the advertised address and exactly the payload.
// The real proxyproto.Listener runs on the simulated network inside a bubble; every header of the
// alphabet is delivered in every segmentation (all cut positions) followed by a payload; an
// independent grammar of the PROXY protocol specification decides what must happen. A second
// scenario sends headers through the complete proxy (X-Forwarded-For at the origin, liveness).
package c08

import (
	"bytes"
	"encoding/binary"
	"fmt"
	"net"
	"net/netip"
	"strconv"
	"strings"
	"sync"
	"testing"
	"testing/synctest"
	"time"

	"github.com/saucelabs/forwarder/internal/zzverif/explore"
	"github.com/saucelabs/forwarder/internal/zzverif/httpwire"
	"github.com/saucelabs/forwarder/internal/zzverif/simnet"
	"github.com/saucelabs/forwarder/internal/zzverif/world"
	"github.com/saucelabs/forwarder/proxyproto"
)

const headerTO = 3 * time.Second

// ---- the reference grammar ---------------------------------------------------------------------------

type verdict int

const (
	valid   verdict = iota // must be accepted: addresses as given (or the socket's when useSocket)
	invalid                // must make the connection fail
	lenient                // the specification lets the receiver accept (then: socket addresses) or reject
)

type expect struct {
	v         verdict
	useSocket bool
	src, dst  string // "ip:port" when !useSocket
	why       string
}

type headerCase struct {
	name string
	raw  []byte
	exp  expect
}

var v2sig = []byte("\r\n\r\n\x00\r\nQUIT\n")

func v2(vercmd, fam byte, length int, body []byte) []byte {
	b := append([]byte{}, v2sig...)
	b = append(b, vercmd, fam, byte(length>>8), byte(length))
	return append(b, body...)
}

func addr4(src, dst string, sp, dp int) []byte {
	b := append([]byte{}, net.ParseIP(src).To4()...)
	b = append(b, net.ParseIP(dst).To4()...)
	return binary.BigEndian.AppendUint16(binary.BigEndian.AppendUint16(b, uint16(sp)), uint16(dp))
}

func addr6(src, dst string, sp, dp int) []byte {
	b := append([]byte{}, net.ParseIP(src).To16()...)
	b = append(b, net.ParseIP(dst).To16()...)
	return binary.BigEndian.AppendUint16(binary.BigEndian.AppendUint16(b, uint16(sp)), uint16(dp))
}

func hp(ip string, port int) string { return net.JoinHostPort(ip, strconv.Itoa(port)) }

// sameAddrPort: the same address and port, whatever the spelling (an IPv4-mapped IPv6 address is that IPv4 address).
func sameAddrPort(a, b string) bool {
	if a == b {
		return true
	}
	pa, ea := netip.ParseAddrPort(a)
	pb, eb := netip.ParseAddrPort(b)
	return ea == nil && eb == nil && pa.Port() == pb.Port() && pa.Addr().Unmap() == pb.Addr().Unmap()
}

func headerCases() []headerCase {
	var cs []headerCase
	ok := func(name string, raw []byte, src, dst string) {
		cs = append(cs, headerCase{name, raw, expect{v: valid, src: src, dst: dst}})
	}
	sock := func(name string, raw []byte) {
		cs = append(cs, headerCase{name, raw, expect{v: valid, useSocket: true}})
	}
	bad := func(name string, raw []byte, why string) {
		cs = append(cs, headerCase{name, raw, expect{v: invalid, why: why}})
	}
	len_ := func(name string, raw []byte, why string) {
		cs = append(cs, headerCase{name, raw, expect{v: lenient, useSocket: true, why: why}})
	}
	// v1
	for _, a := range [][2]string{{"1.1.1.1", "2.2.2.2"}, {"192.168.100.200", "10.0.0.1"}, {"255.255.255.255", "255.255.255.254"}, {"0.0.0.0", "0.0.0.0"}} {
		for _, p := range [][2]int{{1, 2}, {65535, 65534}, {40000, 443}, {0, 0}} {
			ok(fmt.Sprintf("v1-tcp4-%s-%d", a[0], p[0]), []byte(fmt.Sprintf("PROXY TCP4 %s %s %d %d\r\n", a[0], a[1], p[0], p[1])), hp(a[0], p[0]), hp(a[1], p[1]))
		}
	}
	for _, a := range [][2]string{{"::", "::"}, {"::1", "::2"}, {"2001:db8::1", "2001:db8::2"}, {"ffff:ffff:ffff:ffff:ffff:ffff:ffff:ffff", "ffff:ffff:ffff:ffff:ffff:ffff:ffff:fffe"}} {
		for _, p := range [][2]int{{1, 2}, {65535, 65534}, {0, 0}} {
			ok(fmt.Sprintf("v1-tcp6-%s-%d", a[0], p[0]), []byte(fmt.Sprintf("PROXY TCP6 %s %s %d %d\r\n", a[0], a[1], p[0], p[1])), hp(a[0], p[0]), hp(a[1], p[1]))
		}
	}
	// IPv4-mapped IPv6 addresses on a TCP6 line (what a dual-stack balancer sends for an IPv4 client): in any spelling
	for _, a := range [][2]string{{"::ffff:192.0.2.10", "::ffff:192.0.2.20"}, {"::ffff:c000:20a", "2001:db8::2"}, {"0:0:0:0:0:ffff:c000:20a", "::ffff:192.0.2.20"}} {
		ok("v1-tcp6-mapped-"+a[0], []byte(fmt.Sprintf("PROXY TCP6 %s %s 40000 443\r\n", a[0], a[1])), hp(a[0], 40000), hp(a[1], 443))
	}
	// every line length from the minimum of each family upwards, one byte at a time (ports grow digit by digit)
	ladder := [][2]int{{1, 2}, {1, 22}, {11, 22}, {11, 222}, {111, 222}, {111, 2222}, {1111, 2222}, {1111, 22222}, {11111, 22222}}
	for _, p := range ladder {
		l4 := []byte(fmt.Sprintf("PROXY TCP4 1.1.1.1 2.2.2.2 %d %d\r\n", p[0], p[1]))
		ok(fmt.Sprintf("v1-tcp4-line-of-%d-bytes", len(l4)), l4, hp("1.1.1.1", p[0]), hp("2.2.2.2", p[1]))
		l6 := []byte(fmt.Sprintf("PROXY TCP6 ::1 :: %d %d\r\n", p[0], p[1]))
		ok(fmt.Sprintf("v1-tcp6-line-of-%d-bytes", len(l6)), l6, hp("::1", p[0]), hp("::", p[1]))
	}
	sock("v1-unknown-bare", []byte("PROXY UNKNOWN\r\n"))
	sock("v1-unknown-with-addresses", []byte("PROXY UNKNOWN ffff:ffff:ffff:ffff:ffff:ffff:ffff:ffff ffff:ffff:ffff:ffff:ffff:ffff:ffff:ffff 65535 65535\r\n")) // 107 bytes: the longest legal line
	bad("v1-line-108-bytes", []byte("PROXY UNKNOWN ffff:ffff:ffff:ffff:ffff:ffff:ffff:ffff ffff:ffff:ffff:ffff:ffff:ffff:ffff:ffff 65535 655350\r\n"), "line longer than 107 bytes")
	bad("v1-no-crlf-120-bytes", []byte("PROXY TCP4 1.1.1.1 2.2.2.2 1 "+strings.Repeat("2", 100)), "no CRLF within 107 bytes")
	bad("v1-port-70000", []byte("PROXY TCP4 1.1.1.1 2.2.2.2 70000 3\r\n"), "port out of range")
	bad("v1-port-negative", []byte("PROXY TCP4 1.1.1.1 2.2.2.2 -1 3\r\n"), "port out of range")
	bad("v1-port-not-a-number", []byte("PROXY TCP4 1.1.1.1 2.2.2.2 http 3\r\n"), "port not numeric")
	bad("v1-missing-port", []byte("PROXY TCP4 1.1.1.1 2.2.2.2 1\r\n"), "missing field")
	bad("v1-bad-address", []byte("PROXY TCP4 1.1.1.999 2.2.2.2 1 2\r\n"), "bad address")
	bad("v1-unknown-proto", []byte("PROXY UDP4 1.1.1.1 2.2.2.2 1 2\r\n"), "unknown protocol")
	bad("v1-lowercase", []byte("proxy TCP4 1.1.1.1 2.2.2.2 1 2\r\n"), "signature is case sensitive")
	bad("v1-lf-only", []byte("PROXY TCP4 1.1.1.1 2.2.2.2 1 2\n"+strings.Repeat("x", 110)), "line not terminated by CRLF")
	bad("not-a-header-http", []byte("GET / HTTP/1.1\r\nHost: x\r\n\r\n"), "not a PROXY header")
	bad("not-a-header-tls", append([]byte{0x16, 0x03, 0x01, 0x00, 0x50}, bytes.Repeat([]byte{1}, 40)...), "not a PROXY header")
	len_("v1-family-mismatch", []byte("PROXY TCP4 ::1 ::2 1 2\r\n"), "TCP4 with IPv6 addresses")
	// v2
	a4 := addr4("192.0.2.1", "198.51.100.2", 40000, 443)
	a6 := addr6("2001:db8::1", "2001:db8::2", 40001, 8443)
	tlv := []byte{0x04, 0x00, 0x04, 1, 2, 3, 4}
	ok("v2-proxy-tcp4", v2(0x21, 0x11, 12, a4), "192.0.2.1:40000", "198.51.100.2:443")
	ok("v2-proxy-udp4", v2(0x21, 0x12, 12, a4), "192.0.2.1:40000", "198.51.100.2:443")
	ok("v2-proxy-tcp6", v2(0x21, 0x21, 36, a6), "[2001:db8::1]:40001", "[2001:db8::2]:8443")
	ok("v2-proxy-udp6", v2(0x21, 0x22, 36, a6), "[2001:db8::1]:40001", "[2001:db8::2]:8443")
	ok("v2-proxy-tcp4-tlv", v2(0x21, 0x11, 19, append(append([]byte{}, a4...), tlv...)), "192.0.2.1:40000", "198.51.100.2:443")
	ok("v2-proxy-tcp6-tlv", v2(0x21, 0x21, 43, append(append([]byte{}, a6...), tlv...)), "[2001:db8::1]:40001", "[2001:db8::2]:8443")
	ok("v2-proxy-tcp4-len-2048", v2(0x21, 0x11, 2048, append(append([]byte{}, a4...), make([]byte, 2036)...)), "192.0.2.1:40000", "198.51.100.2:443")
	sock("v2-local-len0", v2(0x20, 0x00, 0, nil))
	sock("v2-local-with-addresses", v2(0x20, 0x11, 12, a4))
	sock("v2-local-with-tlv", v2(0x20, 0x00, 7, tlv))
	bad("v2-len-2049", v2(0x21, 0x11, 2049, append(append([]byte{}, a4...), make([]byte, 2037)...)), "oversized header")
	bad("v2-proxy-tcp4-short", v2(0x21, 0x11, 8, a4[:8]), "address block shorter than the family requires")
	bad("v2-proxy-tcp6-short", v2(0x21, 0x21, 12, a4), "address block shorter than the family requires")
	bad("v2-proxy-len0", v2(0x21, 0x11, 0, nil), "PROXY command without addresses")
	bad("v2-version-1", v2(0x11, 0x11, 12, a4), "wrong version nibble")
	bad("v2-version-3", v2(0x31, 0x11, 12, a4), "wrong version nibble")
	bad("v2-bad-signature", append([]byte("\r\n\r\n\x00\r\nQUIT\r"), 0x21, 0x11, 0, 12), "wrong signature")
	for _, cmd := range []byte{0x22, 0x2F} {
		len_(fmt.Sprintf("v2-unknown-command-%02x", cmd), v2(cmd, 0x11, 12, a4), "command other than LOCAL/PROXY")
	}
	for _, fam := range []byte{0x00, 0x10, 0x01, 0x20, 0x13, 0x30, 0x41, 0xFF} {
		len_(fmt.Sprintf("v2-proxy-family-%02x", fam), v2(0x21, fam, 12, a4), "PROXY command with an address family the receiver does not translate")
	}
	len_("v2-proxy-unspec-len0", v2(0x21, 0x00, 0, nil), "PROXY command, unspecified family, no address block")
	len_("v2-proxy-unix", v2(0x21, 0x31, 216, make([]byte, 216)), "UNIX sockets")
	return cs
}

// ---- harness: proxyproto.Listener on simnet ---------------------------------------------------------------

type result struct {
	mu     sync.Mutex
	remote net.Addr
	local  net.Addr
	gotR   bool
	data   []byte
	err    error
}

func (r *result) snapshot() (net.Addr, net.Addr, bool, []byte, error) {
	r.mu.Lock()
	defer r.mu.Unlock()
	return r.remote, r.local, r.gotR, append([]byte(nil), r.data...), r.err
}

var payloads = [][]byte{[]byte("GET / HTTP/1.1\r\nHost: x\r\n\r\n"), nil, []byte("G"), []byte("PROXY TCP4 9.9.9.9 9.9.9.9 9 9\r\n")}

func parserScenario(x *explore.X, maxCuts int, stallMode bool) {
	cases := headerCases()
	hc := cases[x.ChooseFree("header", len(cases))]
	payload := payloads[x.Choose("payload", len(payloads))]
	stream := append(append([]byte{}, hc.raw...), payload...)
	// segmentation
	var cuts []int
	stallAt := -1
	trickle := false
	if stallMode {
		stallAt = x.ChooseFree("stall-after", len(hc.raw)) // the sender goes silent after that many bytes
		stream = stream[:stallAt]
		// the bytes before the stall may arrive in two parts 0.6 time-outs apart: the limit is on the whole header, from
		// accept, not on the gaps between its pieces
		if stallAt >= 2 && x.ChooseFree("prefix-delivered-in-two-parts-0.6-timeouts-apart", 2) == 1 {
			trickle = true
		}
	} else {
		mode := x.Choose("segmentation", 3) // 0 whole, 1 cut positions, 2 byte-wise
		switch mode {
		case 1:
			limit := len(stream)
			if limit > 120 {
				limit = 120 // cut positions inside a 2 KiB TLV tail add nothing
			}
			prev := 0
			for i := 0; i < maxCuts && prev < limit-1; i++ {
				c := prev + 1 + x.ChooseFree(fmt.Sprintf("cut%d", i), limit-1-prev)
				cuts = append(cuts, c)
				prev = c
				if i+1 < maxCuts && x.ChooseFree(fmt.Sprintf("more-cuts%d", i), 2) == 0 {
					break
				}
			}
		case 2:
			n := len(stream)
			if n > 140 {
				n = 140
			}
			for i := 1; i < n; i++ {
				cuts = append(cuts, i)
			}
		}
	}
	n := simnet.New()
	base, _ := n.Listen("pp.test:3128")
	pl := &proxyproto.Listener{Listener: base, ReadHeaderTimeout: headerTO}
	peer, err := n.DialFrom("lb.test", "pp.test:3128")
	if err != nil {
		x.Failf("harness/dial", "%v", err)
		return
	}
	conn, err := pl.Accept()
	if err != nil {
		x.Failf("harness/accept", "%v", err)
		return
	}
	sockRemote, sockLocal := peer.LocalAddr().String(), peer.RemoteAddr().String()
	res := &result{}
	done := make(chan struct{})
	go func() {
		defer close(done)
		defer func() {
			if r := recover(); r != nil {
				res.mu.Lock()
				res.err = fmt.Errorf("PANIC: %v", r)
				res.mu.Unlock()
			}
		}()
		ra := conn.RemoteAddr()
		la := conn.LocalAddr()
		res.mu.Lock()
		res.remote, res.local, res.gotR = ra, la, true
		res.mu.Unlock()
		buf := make([]byte, 4096)
		for {
			k, err := conn.Read(buf)
			res.mu.Lock()
			res.data = append(res.data, buf[:k]...)
			if err != nil {
				res.err = err
				res.mu.Unlock()
				return
			}
			res.mu.Unlock()
		}
	}()
	t0 := time.Now()
	prev := 0
	if trickle {
		peer.Write(stream[:stallAt/2])
		world.Settle(headerTO * 6 / 10)
		prev = stallAt / 2
	}
	for _, c := range append(cuts, len(stream)) {
		if c > prev {
			peer.Write(stream[prev:c])
			synctest.Wait()
			prev = c
		}
	}
	what := fmt.Sprintf("header %s (%d bytes) + payload %q, cuts %v", hc.name, len(hc.raw), world.Clip(payload), cuts)
	x.Logf("%s", what)
	x.Check()
	if stallMode {
		// the sender stalls inside the header: the connection must fail at the header timeout, not before, not later
		world.Settle(headerTO - time.Millisecond - time.Since(t0))
		if _, _, got, _, err := res.snapshot(); got || err != nil {
			if hc.exp.v == valid && stallAt < len(hc.raw) {
				x.Failf("stall/decided-before-timeout", "%s stalled after %d bytes: the connection was decided (addr known=%v err=%v) %v after accept, before the header timeout", hc.name, stallAt, got, err, time.Since(t0))
			}
		}
		world.Settle(2 * time.Millisecond)
		_, _, got, data, err := res.snapshot()
		// after the timeout the address calls have returned and Read fails
		if !got {
			x.Failf("stall/not-failed-at-timeout", "%s stalled after %d bytes: RemoteAddr/LocalAddr still blocked %v after accept (timeout %v)", hc.name, stallAt, time.Since(t0), headerTO)
		} else if err == nil && hc.exp.v != invalid {
			x.Failf("stall/read-not-failed-at-timeout", "%s stalled after %d bytes: Read has not failed %v after accept", hc.name, stallAt, time.Since(t0))
		}
		if len(data) > 0 {
			x.Failf("header-leaked-as-payload", "%s stalled after %d bytes: the application read %q", hc.name, stallAt, world.Clip(data))
		}
		if ra, la, got, _, _ := res.snapshot(); got && (isNil(ra) || isNil(la)) {
			x.Failf("missing-address", "%s stalled: RemoteAddr=%v LocalAddr=%v", hc.name, ra, la)
		}
		x.Outcome(fmt.Sprintf("stall %v", err != nil))
	} else {
		peer.CloseWrite()
		synctest.Wait()
		if d := time.Since(t0); d != 0 {
			x.Failf("harness/time", "virtual time advanced %v", d)
		}
		ra, la, got, data, err := res.snapshot()
		if !got {
			x.Failf("address-call-blocked", "%s: RemoteAddr/LocalAddr have not returned although the peer sent everything and half-closed", what)
		}
		if err != nil && strings.HasPrefix(err.Error(), "PANIC") {
			x.Failf("panic", "%s: %v", what, err)
		}
		if got && (isNil(ra) || isNil(la)) {
			sig := "missing-address"
			if hc.exp.v == lenient {
				sig = "missing-address/" + strings.SplitN(hc.name, "-", 4)[1] + "-" + strings.SplitN(hc.name, "-", 4)[2]
			}
			x.Failf(sig, "%s: accepted connection reports RemoteAddr=%v LocalAddr=%v", what, ra, la)
		}
		failed := err != nil && err.Error() != "EOF"
		accepted := !failed
		checkAccepted := func(src, dst string) {
			if isNil(ra) || isNil(la) {
				return
			}
			if !sameAddrPort(ra.String(), src) || !sameAddrPort(la.String(), dst) {
				x.Failf("wrong-address", "%s: RemoteAddr=%s LocalAddr=%s, want %s / %s", what, ra, la, src, dst)
			}
			if !bytes.Equal(data, payload) {
				sig := "payload-mismatch"
				if bytes.HasSuffix(hc.raw, data[:min(len(data), len(hc.raw))]) && len(data) > len(payload) {
					sig = "header-leaked-as-payload"
				}
				if strings.HasPrefix(hc.name, "v1-tcp6-::-") {
					sig += "/v1-minimal-tcp6-line"
				}
				x.Failf(sig, "%s: the application read %q, want exactly the payload %q", what, world.Clip(data), world.Clip(payload))
			}
		}
		switch hc.exp.v {
		case valid:
			if !accepted {
				sig := "valid-header-rejected"
				if strings.HasPrefix(hc.name, "v1-tcp6-::-") {
					sig += "/v1-minimal-tcp6-line"
				}
				x.Failf(sig, "%s: connection failed with %v (read %q)", what, err, world.Clip(data))
				break
			}
			if hc.exp.useSocket {
				checkAccepted(sockRemote, sockLocal)
			} else {
				checkAccepted(hc.exp.src, hc.exp.dst)
			}
		case invalid:
			if accepted {
				x.Failf("malformed-header-accepted/"+strings.ReplaceAll(hc.exp.why, " ", "-"), "%s (%s): the connection did not fail; RemoteAddr=%v, application read %q", what, hc.exp.why, ra, world.Clip(data))
			}
			if len(data) > 0 && !accepted {
				x.Failf("header-leaked-as-payload", "%s (%s): the application read %q from a connection with a malformed header", what, hc.exp.why, world.Clip(data))
			}
		case lenient:
			if accepted {
				if hc.name == "v1-family-mismatch" {
					if !bytes.Equal(data, payload) {
						x.Failf("payload-mismatch", "%s: read %q", what, world.Clip(data))
					}
				} else {
					checkAccepted(sockRemote, sockLocal)
				}
			} else if len(data) > 0 {
				x.Failf("header-leaked-as-payload", "%s: the application read %q although the connection failed", what, world.Clip(data))
			}
		}
		x.Outcome(fmt.Sprintf("%v accepted=%v", hc.exp.v, accepted))
	}
	peer.Close()
	conn.Close()
	<-done
	base.Close()
}

func isNil(a net.Addr) bool {
	if a == nil {
		return true
	}
	switch v := a.(type) {
	case *net.TCPAddr:
		return v == nil
	case *net.UDPAddr:
		return v == nil
	}
	return false
}

// ---- several connections alive at once -----------------------------------------------------------------------

// multiConnScenario: 2-3 connections with their own headers are accepted by ONE listener and stay open; the
// addresses and the payload of every connection are read right after its header was parsed and again after
// all the others were parsed: what a connection reports must not depend on its neighbours (shared buffers!).
func multiConnScenario(x *explore.X) {
	type hc struct {
		raw      []byte
		src, dst string
	}
	a6 := func(i int) []byte {
		return addr6(fmt.Sprintf("2001:db8::a:%d", i), fmt.Sprintf("2001:db8::b:%d", i), 1000+i, 2000+i)
	}
	alphabet := func(i int) []hc {
		return []hc{
			{v2(0x21, 0x21, 36, a6(i)), fmt.Sprintf("[2001:db8::a:%d]:%d", i, 1000+i), fmt.Sprintf("[2001:db8::b:%d]:%d", i, 2000+i)},
			{v2(0x21, 0x11, 12, addr4(fmt.Sprintf("192.0.2.%d", i+1), fmt.Sprintf("198.51.100.%d", i+1), 3000+i, 4000+i)), fmt.Sprintf("192.0.2.%d:%d", i+1, 3000+i), fmt.Sprintf("198.51.100.%d:%d", i+1, 4000+i)},
			{[]byte(fmt.Sprintf("PROXY TCP6 2001:db8::c:%d 2001:db8::d:%d %d %d\r\n", i, i, 5000+i, 6000+i)), fmt.Sprintf("[2001:db8::c:%d]:%d", i, 5000+i), fmt.Sprintf("[2001:db8::d:%d]:%d", i, 6000+i)},
			{v2(0x21, 0x22, 43, append(a6(i+10), 0x04, 0x00, 0x04, 9, 9, 9, 9)), fmt.Sprintf("[2001:db8::a:%d]:%d", i+10, 1010+i), fmt.Sprintf("[2001:db8::b:%d]:%d", i+10, 2010+i)},
			{[]byte(fmt.Sprintf("PROXY TCP4 10.1.1.%d 10.2.2.%d %d %d\r\n", i+1, i+1, 7000+i, 8000+i)), fmt.Sprintf("10.1.1.%d:%d", i+1, 7000+i), fmt.Sprintf("10.2.2.%d:%d", i+1, 8000+i)},
		}
	}
	nconn := 2 + x.ChooseFree("connections-2", 2)
	n := simnet.New()
	base, _ := n.Listen("pp.test:3128")
	pl := &proxyproto.Listener{Listener: base, ReadHeaderTimeout: headerTO}
	type live struct {
		conn    net.Conn
		peer    *simnet.Conn
		want    hc
		payload []byte
		firstR  string
		firstL  string
	}
	var conns []*live
	for i := 0; i < nconn; i++ {
		al := alphabet(i)
		h := al[x.ChooseFree(fmt.Sprintf("header%d", i), len(al))]
		peer, err := n.DialFrom(fmt.Sprintf("lb%d.test", i), "pp.test:3128")
		if err != nil {
			x.Failf("harness/dial", "%v", err)
			return
		}
		c, err := pl.Accept()
		if err != nil {
			x.Failf("harness/accept", "%v", err)
			return
		}
		l := &live{conn: c, peer: peer, want: h, payload: []byte(fmt.Sprintf("payload-of-connection-%d", i))}
		peer.Write(append(append([]byte{}, h.raw...), l.payload...))
		ra, la := c.RemoteAddr(), c.LocalAddr() // (the data is in the socket: this parses the header without waiting)
		if isNil(ra) || isNil(la) {
			x.Failf("missing-address", "connection %d reports RemoteAddr=%v LocalAddr=%v", i, ra, la)
			return
		}
		l.firstR, l.firstL = ra.String(), la.String()
		conns = append(conns, l)
	}
	x.Check()
	order := x.ChooseFree("recheck-order", 2)
	for k := range conns {
		i := k
		if order == 1 {
			i = len(conns) - 1 - k
		}
		l := conns[i]
		ra, la := l.conn.RemoteAddr().String(), l.conn.LocalAddr().String()
		if ra != l.want.src || la != l.want.dst || l.firstR != l.want.src || l.firstL != l.want.dst {
			x.Failf("address-changed-by-other-connection", "connection %d of %d: header says %s / %s; reported right after parsing %s / %s; reported after the other connections were parsed %s / %s",
				i, nconn, l.want.src, l.want.dst, l.firstR, l.firstL, ra, la)
		}
		buf := make([]byte, 100)
		k2, _ := l.conn.Read(buf)
		if string(buf[:k2]) != string(l.payload) {
			x.Failf("payload-mismatch/multi-connection", "connection %d read %q, want %q", i, buf[:k2], l.payload)
		}
	}
	x.Outcome(fmt.Sprintf("multi n=%d", nconn))
	for _, l := range conns {
		l.peer.Close()
		l.conn.Close()
	}
	base.Close()
}

// ---- through the whole proxy ---------------------------------------------------------------------------------

func proxyScenario(x *explore.X) {
	cases := headerCases()
	hc := cases[x.ChooseFree("header", len(cases))]
	w, err := world.Start(world.Options{ProxyProtocol: true, ProxyProtoTO: headerTO})
	if err != nil {
		x.Failf("harness/start", "%v", err)
		return
	}
	org, _ := w.Hop("origin.test:80", nil)
	c, _ := w.Client()
	req := "GET http://origin.test/ HTTP/1.1\r\nHost: origin.test\r\n\r\n"
	c.Send(append(append([]byte{}, hc.raw...), req...))
	world.Settle(headerTO + time.Second)
	x.Check()
	msgs, conns, _ := org.Next()
	clientIP := c.C.LocalAddr().(*net.TCPAddr).IP.String()
	what := fmt.Sprintf("header %s through the proxy", hc.name)
	if len(msgs) == 1 {
		xff := strings.Join(msgs[0].Get("X-Forwarded-For"), ",")
		want := clientIP
		if hc.exp.v == valid && !hc.exp.useSocket {
			h, _, _ := net.SplitHostPort(hc.exp.src)
			want = h
		}
		if hc.exp.v == invalid {
			x.Failf("malformed-header-accepted/"+strings.ReplaceAll(hc.exp.why, " ", "-"), "%s (%s): the request was served", what, hc.exp.why)
		} else if hc.name != "v1-family-mismatch" && xff != want && !sameAddrPort(net.JoinHostPort(xff, "1"), net.JoinHostPort(want, "1")) {
			x.Failf("wrong-address", "%s: origin sees X-Forwarded-For %q, want %q", what, xff, want)
		}
		org.Conns[conns[0]].Send([]byte("HTTP/1.1 200 OK\r\nContent-Length: 2\r\n\r\nok"))
	} else if hc.exp.v == valid {
		x.Failf("valid-header-rejected", "%s: request not served (client got %q)", what, world.Clip(c.Recv()))
	}
	// only that connection fails: a well-formed client is still served
	p, err := w.Client()
	if err != nil {
		x.Failf("probe/connect", "%s: a new client cannot connect afterwards: %v", what, err)
	} else {
		p.Send([]byte("PROXY TCP4 203.0.113.9 198.51.100.1 1234 3128\r\n" + req))
		msgs, conns, _ := org.Next()
		if len(msgs) != 1 || strings.Join(msgs[0].Get("X-Forwarded-For"), ",") != "203.0.113.9" {
			x.Failf("probe/not-served", "%s: a well-formed client afterwards is not served correctly (origin got %d requests)", what, len(msgs))
		} else {
			org.Conns[conns[0]].Send([]byte("HTTP/1.1 200 OK\r\nContent-Length: 2\r\n\r\nok"))
			if rs := httpwire.ParseResponses(p.Recv(), []string{"GET"}, false); len(rs.Msgs) != 1 {
				x.Failf("probe/not-answered", "%s: probe got %q", what, world.Clip(p.Recv()))
			}
		}
		p.Close()
	}
	x.Outcome(fmt.Sprintf("%v served=%v", hc.exp.v, len(msgs) == 1))
	c.Close()
	if err := w.Stop(); err != nil {
		x.Failf("shutdown", "%v", err)
	}
	org.Close()
	if l := world.Leaks(); l != "" {
		x.Failf("goroutine-leak", "%s", l)
	}
}

// lateHeaderScenario (round 9): through the complete proxy, a client delivers only a part of its header (nothing, half,
// all but the last octet) and stalls. "Only that connection fails": a well-formed client that connects meanwhile is
// accepted, its header is parsed and its request reaches the origin WITHOUT any virtual time passing; the stalled
// connection is closed no later than the header timeout, and nothing of it reaches the origin.
func lateHeaderScenario(x *explore.X) {
	cases := headerCases()
	hc := cases[x.ChooseFree("header", len(cases))]
	part := x.ChooseFree("octets-delivered-before-the-stall", 3)
	n := []int{0, len(hc.raw) / 2, len(hc.raw) - 1}[part]
	if hc.exp.v != valid || n < 0 {
		x.Outcome("inadmissible")
		return
	}
	w, err := world.Start(world.Options{ProxyProtocol: true, ProxyProtoTO: headerTO})
	if err != nil {
		x.Failf("harness/start", "%v", err)
		return
	}
	org, _ := w.Hop("origin.test:80", nil)
	c, _ := w.Client()
	req := "GET http://origin.test/ HTTP/1.1\r\nHost: origin.test\r\n\r\n"
	if n > 0 {
		c.Send(hc.raw[:n])
	}
	what := fmt.Sprintf("a client stalled after %d of the %d octets of header %s", n, len(hc.raw), hc.name)
	t0 := time.Now()
	p, err := w.Client()
	if err != nil {
		x.Failf("probe/connect", "%s: a new client cannot connect: %v", what, err)
		return
	}
	p.Send([]byte("PROXY TCP4 203.0.113.9 198.51.100.1 1234 3128\r\n" + req))
	msgs, conns, _ := org.Next()
	if d := time.Since(t0); len(msgs) != 1 || d != 0 {
		// how long does it take, if it is served at all?
		for i := 0; i < 40 && len(msgs) == 0; i++ {
			world.Settle(time.Second)
			msgs, conns, _ = org.Next()
		}
		x.Failf("other-connection-delayed", "%s: a well-formed client connecting meanwhile had its request at the origin after %v of virtual time (served: %v), want 0s", what, time.Since(t0), len(msgs) == 1)
		return
	}
	if xff := strings.Join(msgs[0].Get("X-Forwarded-For"), ","); xff != "203.0.113.9" {
		x.Failf("wrong-address", "%s: the other client's request carries X-Forwarded-For %q, want 203.0.113.9", what, xff)
	}
	org.Conns[conns[0]].Send([]byte("HTTP/1.1 200 OK\r\nContent-Length: 2\r\n\r\nok"))
	if rs := httpwire.ParseResponses(p.Recv(), []string{"GET"}, false); len(rs.Msgs) != 1 {
		x.Failf("probe/not-answered", "%s: the other client got %q", what, world.Clip(p.Recv()))
	}
	p.Close()
	world.Settle(headerTO + time.Millisecond)
	if st := c.C.Status(); !st.PeerClosed && !st.Reset {
		x.Failf("late-header-not-cut-off", "%s: still open %v after it connected (header timeout %v)", what, time.Since(t0), headerTO)
	}
	if m, _, _ := org.Next(); len(m) != 0 {
		x.Failf("stalled-connection-served", "%s: the origin received a request from it", what)
	}
	x.Outcome(fmt.Sprintf("part%d", part))
	c.Close()
	if err := w.Stop(); err != nil {
		x.Failf("shutdown", "%v", err)
	}
	org.Close()
	if l := world.Leaks(); l != "" {
		x.Failf("goroutine-leak", "%s", l)
	}
}

func TestC08(t *testing.T) {
	s := explore.NewSuite(t, "C08", "model_checking",
		"(parser) every header of a 70+ case alphabet (v1 TCP4/TCP6 with minimal..maximal addresses and ports, UNKNOWN bare and 107-byte, over-long lines, bad ports/addresses/signature; v2 every command nibble class x family/protocol byte x lengths 0 / exact / +TLV / 2048 / 2049, wrong version, wrong signature, non-header prefixes) x payload(4) x EVERY segmentation into 2 (quick) / 3 (thorough) segments at all cut positions plus byte-wise delivery, through the real proxyproto.Listener (with connfu) on the simulated network; (stall) every header x EVERY stall offset inside the header with the virtual clock moved to timeout-1ms / +1ms, the bytes before the stall delivered at once or in two parts 0.6 time-outs apart; (several) 2-3 connections with v2/v1 IPv6 and IPv4 headers (with and without TLVs) accepted by one listener and all kept open, addresses and payload of each re-read after the others were parsed, in both orders; (proxy) every header through the complete proxy with a PROXY-protocol listener: X-Forwarded-For at the origin, then a well-formed probe client; an independent grammar of the PROXY protocol specification classifies each header as valid / invalid / receiver's choice and gives the addresses; states = quiescent states after each delivered segment; (late-header-through-the-proxy, round 9) every valid header x {0, half, all but one} octets delivered before the client stalls: a well-formed client connecting meanwhile has its request at the origin without any virtual time passing, the stalled connection is closed by the header timeout and nothing of it reaches the origin")
	s.Assume = []string{"the reference grammar follows haproxy's proxy-protocol.txt; where the specification leaves the choice to the receiver both outcomes are allowed but an accepted connection must report the socket's own addresses", "(concurrent-callers) sync.Mutex/atomic.Bool and the go statement of proxyproto/net.go are redirected at build time to a cooperative scheduler: all interleavings of 2-3 callers of Read/Write/RemoteAddr/LocalAddr on one connection with at most 2 preemptions (2 callers quick, 2-3 callers thorough); unsynchronised accesses are outside this technique (race detector territory)"}
	run := func(f func(x *explore.X)) func(x *explore.X) {
		return func(x *explore.X) { world.Run(t, x, func() { f(x) }) }
	}
	s.Add(explore.Scenario{Name: "parser-quick", Remote: true, Tiers: []string{"quick"}, MaxDev: map[string]int{"quick": 1}, Run: run(func(x *explore.X) { parserScenario(x, 1, false) })})
	s.Add(explore.Scenario{Name: "parser-thorough", Remote: true, Tiers: []string{"thorough"}, MaxDev: map[string]int{"thorough": 2}, Run: run(func(x *explore.X) { parserScenario(x, 2, false) })})
	s.Add(explore.Scenario{Name: "stall", Remote: true, MaxDev: map[string]int{"quick": 0, "thorough": 0}, Run: run(func(x *explore.X) { parserScenario(x, 0, true) })})
	s.Add(explore.Scenario{Name: "late-header-through-the-proxy", Remote: true, Run: run(lateHeaderScenario)})
	s.Add(explore.Scenario{Name: "several-connections", Remote: true, Run: run(multiConnScenario)})
	s.Add(explore.Scenario{Name: "through-proxy", Remote: true, Run: run(proxyScenario)})
	s.Add(explore.Scenario{Name: "concurrent-callers-quick", Remote: true, Tiers: []string{"quick"}, MaxDev: map[string]int{"quick": 2},
		Run: func(x *explore.X) { concurrentScenario(t, x, 2) }})
	s.Add(explore.Scenario{Name: "concurrent-callers-thorough", Remote: true, Tiers: []string{"thorough"}, MaxDev: map[string]int{"thorough": 2},
		Run: func(x *explore.X) { concurrentScenario(t, x, 3) }})
	s.Main()
}
