//go:build verif

package forwarder

import (
	"time"

	"github.com/saucelabs/forwarder/internal/martian"
)

// VerifSetShutdown replaces the (unexported) shutdown configuration: no signal handling, given timeout.
func VerifSetShutdown(cfg *HTTPProxyConfig, timeout time.Duration) {
	cfg.shutdownConfig = shutdownConfig{ShutdownTimeout: timeout}
}

// VerifMartian exposes the martian proxy of an HTTPProxy to the harness.
func (hp *HTTPProxy) VerifMartian() *martian.Proxy { return hp.proxy }
