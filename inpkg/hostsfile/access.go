//go:build verif

package hostsfile

import "io"

// VerifReadLocalhostAliases gives the checks access to the reader behind LocalhostAliases (which opens the
// system's hosts file itself): the same function, any content.
func VerifReadLocalhostAliases(r io.Reader) ([]string, error) { return readLocalhostAliases(r) }
