// C07: MITM serves a valid certificate for the requested host and keeps origin verification.
// The suite combines the in-package cache-core scenarios (c07_test.go) with handshakes through the
// complete proxy on the simulated network.
package mitm_test

import (
	"crypto/rand"
	"crypto/rsa"
	"crypto/tls"
	"crypto/x509"
	"crypto/x509/pkix"
	"encoding/base64"
	"encoding/pem"
	"fmt"
	"github.com/saucelabs/forwarder"
	"math/big"
	"net"
	"strings"
	"sync"
	"testing"
	"time"

	"github.com/saucelabs/forwarder/internal/martian/mitm"
	"github.com/saucelabs/forwarder/internal/zzverif/explore"
	"github.com/saucelabs/forwarder/internal/zzverif/httpwire"
	"github.com/saucelabs/forwarder/internal/zzverif/world"
)

var authorities = []struct{ host, port string }{
	{"origin.test", "443"}, {"ORIGIN.TEST", "443"}, {"192.0.2.10", "443"}, {"2001:db8::10", "443"}, {"origin.test", "8443"},
	// legal host names that stricter name profiles (IDNA lookup) reject: an underscore, hyphens in the third and fourth
	// position of a label that is not an A-label, a run of hyphens
	{"my_service.origin.test", "443"}, {"ab--cd.origin.test", "443"}, {"r3---sn-4g5e6nsz.origin.test", "443"},
}

func bracket(h string) string {
	if strings.Contains(h, ":") {
		return "[" + h + "]"
	}
	return h
}

func proxyScenario(x *explore.X) {
	au := authorities[x.Choose("authority", len(authorities))]
	sniMode := x.Choose("sni", 3)                   // 0 same as host, 1 absent, 2 different
	originCert := x.Choose("origin-certificate", 4) // 0 valid, 1 expired, 2 wrong name, 3 untrusted CA
	insecure := x.Choose("insecure", 2) == 1
	domains := x.Choose("mitm-domains", 3)            // 0 none (everything is intercepted), 1 include list matches, 2 excluded
	tlsListener := x.Choose("proxy-listener", 2) == 1 // 0 plain, 1 the proxy itself is reached over TLS (--protocol https)
	pki := world.NewPKI("harness origin CA")
	other := world.NewPKI("untrusted CA")
	opts := world.Options{MITM: true, TransportCAPEM: pki.CAPEM, Insecure: insecure, TLSListener: tlsListener}
	// the certificate is valid when it is PRESENTED: a client may wait between the 200 and its hello for longer than
	// the configured validity (--mitm-validity 10m, hello 20 minutes later)
	lateHello := !tlsListener && x.Choose("client-hello-later-than-the-certificate-validity", 2) == 1
	if lateHello {
		mc := forwarder.DefaultMITMConfig()
		mc.Validity = 10 * time.Minute
		opts.MITMConfig = mc
	}
	// (round 9 rule: every option through the code's own plumbing) "chains to the CONFIGURED CA": the CA may be the one
	// the proxy generates for itself, or one the operator configured (--mitm-cacert-file / --mitm-cakey-file, here as
	// data: URIs; an ECDSA P-256 CA with a SEC 1 key, an RSA-2048 CA with a PKCS #8 key)
	var configuredCA *x509.Certificate
	if k := x.Choose("mitm-ca", 3); k > 0 {
		var certPEM, keyPEM []byte
		if k == 1 {
			p := world.NewPKI("configured MITM CA (ECDSA)")
			der, _ := x509.MarshalECPrivateKey(p.CAKey)
			configuredCA, certPEM, keyPEM = p.CA, p.CAPEM, pem.EncodeToMemory(&pem.Block{Type: "EC PRIVATE KEY", Bytes: der})
		} else {
			r := rsaCA()
			configuredCA, certPEM, keyPEM = r.cert, r.certPEM, r.keyPEM
		}
		if opts.MITMConfig == nil {
			opts.MITMConfig = forwarder.DefaultMITMConfig()
		}
		opts.MITMConfig.CACertFile = "data:base64," + base64.StdEncoding.EncodeToString(certPEM)
		opts.MITMConfig.CAKeyFile = "data:base64," + base64.StdEncoding.EncodeToString(keyPEM)
	}
	switch domains {
	case 1:
		opts.MITMDomains = []string{`(?i)(^|\.)origin\.test$`, `^192\.0\.2\.10$`, `^2001:db8::10$`}
	case 2:
		opts.MITMDomains = []string{`.*`, `-(?i)(^|\.)origin\.test$`, `-^192\.0\.2\.10$`, `-^2001:db8::10$`}
	}
	w, err := world.Start(opts)
	if err != nil {
		x.Failf("harness/start", "%v", err)
		return
	}
	authority := net.JoinHostPort(au.host, au.port)
	var leaf tls.Certificate
	switch originCert {
	case 0:
		leaf = pki.Leaf([]string{strings.ToLower(au.host)}, -time.Hour, time.Hour)
	case 1:
		leaf = pki.Leaf([]string{strings.ToLower(au.host)}, -3*time.Hour, -time.Hour)
	case 2:
		leaf = pki.Leaf([]string{"elsewhere.test"}, -time.Hour, time.Hour)
	case 3:
		leaf = other.Leaf([]string{strings.ToLower(au.host)}, -time.Hour, time.Hour)
	}
	org, _ := w.Hop(authority, &tls.Config{Certificates: []tls.Certificate{leaf}})
	raw, _ := w.Client()
	connectHead := "CONNECT " + bracket(au.host) + ":" + au.port + " HTTP/1.1\r\nHost: " + bracket(au.host) + ":" + au.port + "\r\n\r\n"
	if !tlsListener {
		raw.Send([]byte(connectHead))
		if got := string(raw.Recv()); got != "HTTP/1.1 200 OK\r\n\r\n" {
			x.Failf("connect-reply", "CONNECT %s answered %q", authority, got)
			return
		}
	}
	sni := ""
	switch sniMode {
	case 0:
		if net.ParseIP(au.host) == nil {
			sni = au.host
		}
	case 2:
		sni = "other.test"
	}
	asked := sni
	if asked == "" {
		asked = au.host
	}
	what := fmt.Sprintf("CONNECT %s, SNI %q, origin certificate %d, insecure=%v, mitm-domains=%d, tls-listener=%v, hello 20 min after the 200 with validity 10 min=%v", authority, sni, originCert, insecure, domains, tlsListener, lateHello)
	x.Logf("%s", what)
	var tc *world.TLSPeer
	if tlsListener {
		// the connection to the proxy is TLS itself (--protocol https); CONNECT and the intercepted session
		// both happen inside it
		var reply string
		var err error
		tc, reply, err = world.TLSClientThroughTLSProxy(raw, &tls.Config{InsecureSkipVerify: true}, connectHead, &tls.Config{ServerName: sni, InsecureSkipVerify: true})
		if tc == nil || reply != "HTTP/1.1 200 OK\r\n\r\n" {
			x.Failf("connect-reply", "%s: CONNECT over the TLS listener answered %q (%v)", what, reply, err)
			return
		}
	} else {
		if lateHello {
			world.Settle(20 * time.Minute)
		}
		tc = world.TLSClient(raw, &tls.Config{ServerName: sni, InsecureSkipVerify: true})
	}
	x.Check()
	if domains == 2 {
		// excluded host: the tunnel must be untouched - the client talks TLS to the origin itself
		org.Poll()
		done, herr := tc.Handshake()
		if !done || herr != nil {
			x.Failf("excluded-host/handshake", "%s: handshake through the untouched tunnel failed: done=%v err=%v", what, done, herr)
		} else if pc := tc.State().PeerCertificates; len(pc) == 0 || !pc[0].Equal(leaf.Leaf) {
			x.Failf("excluded-host-intercepted", "%s: the client did not receive the origin's own certificate (got subject %v)", what, pc[0].Subject)
		}
		x.Outcome("tunnelled")
		tc.Close()
		finish(x, w, org)
		return
	}
	done, herr := tc.Handshake()
	if !done || herr != nil {
		x.Failf("mitm-handshake-failed", "%s: TLS handshake with the interceptor failed: done=%v err=%v", what, done, herr)
		finish(x, w, org)
		return
	}
	// the certificate the client received must be valid for the name it asked for, chain to the CA, be in its validity period
	pcs := tc.State().PeerCertificates
	roots := x509.NewCertPool()
	if configuredCA != nil {
		roots.AddCert(configuredCA) // (what the operator configured, not what the proxy says its CA is)
		what += ", CA configured by the operator (" + configuredCA.Subject.CommonName + ")"
	} else {
		roots.AddCert(w.Proxy.MITMCACert())
	}
	inter := x509.NewCertPool()
	for _, c := range pcs[1:] {
		inter.AddCert(c)
	}
	if _, err := pcs[0].Verify(x509.VerifyOptions{DNSName: asked, Roots: roots, Intermediates: inter, CurrentTime: time.Now()}); err != nil {
		x.Failf("mitm-certificate-invalid", "%s: the certificate presented to the client does not verify for %q: %v (SANs dns=%v ip=%v)", what, asked, err, pcs[0].DNSNames, pcs[0].IPAddresses)
	}
	// a request inside the session is forwarded over TLS with origin verification
	tc.Send([]byte("GET /x HTTP/1.1\r\nHost: " + bracket(au.host) + map[bool]string{true: "", false: ":" + au.port}[au.port == "443"] + "\r\n\r\n"))
	world.Settle(5 * time.Second)
	msgs, conns, _ := org.Next()
	bad := originCert != 0
	rs := httpwire.ParseResponses(tc.Recv(), []string{"GET"}, false)
	if bad && !insecure {
		if len(msgs) != 0 {
			x.Failf("origin-verification-bypassed", "%s: the origin's certificate does not verify but it received the request %q", what, msgs[0].StartLine)
		}
		if len(rs.Msgs) != 1 || rs.Msgs[0].Status/100 != 5 || !rs.Msgs[0].Has("X-Forwarder-Error") {
			x.Failf("no-error-response", "%s: want an error response, client got %q", what, world.Clip(tc.Recv()))
		}
		x.Outcome("origin-rejected")
	} else {
		if len(msgs) != 1 {
			x.Failf("not-forwarded", "%s: the request was not forwarded; client got %q", what, world.Clip(tc.Recv()))
		} else {
			org.Conns[conns[0]].Send([]byte("HTTP/1.1 200 OK\r\nContent-Length: 2\r\n\r\nok"))
			if rs := httpwire.ParseResponses(tc.Recv(), []string{"GET"}, false); len(rs.Msgs) != 1 || rs.Msgs[0].Status != 200 {
				x.Failf("not-answered", "%s: client got %q", what, world.Clip(tc.Recv()))
			}
		}
		x.Outcome("forwarded")
	}
	tc.Close()
	finish(x, w, org)
}

// ---- sessions one after the other on ONE proxy ---------------------------------------------------------------------

var sessionKinds = []struct {
	name, host string
	mitm, bad  bool
}{
	{"tunnel(passthrough.test)", "passthrough.test", false, false},
	{"mitm(good.test)", "good.test", true, false},
	{"mitm(wrongname.test)", "wrongname.test", true, true},
	{"mitm(expired.test)", "expired.test", true, true},
	// another spelling of the excluded host: the exclusion rule is a regular expression matched against the host
	// as written, this spelling is not excluded - and says nothing about the spelling that is
	{"mitm(PASSTHROUGH.TEST)", "PASSTHROUGH.TEST", true, false},
}

// sessionsScenario: MITM with one excluded host, optionally behind an HTTP or HTTPS upstream proxy; every
// sequence of n sessions. What a session must look like does not depend on the sessions before it: an
// excluded host is tunnelled untouched, an intercepted session gets a certificate valid for its name, an
// origin whose certificate does not verify for the requested name receives no request.
func sessionsScenario(x *explore.X, n int) {
	upKind := x.ChooseFree("upstream", 3) // 0 none, 1 http proxy, 2 https proxy
	var seq []int
	for i := 0; i < n; i++ {
		seq = append(seq, x.ChooseFree(fmt.Sprintf("session-%d", i), len(sessionKinds)))
	}
	pki := world.NewPKI("harness origin CA")
	opts := world.Options{MITM: true, TransportCAPEM: pki.CAPEM, MITMDomains: []string{`.*`, `-^passthrough\.test$`}}
	upAddr := ""
	var outer *tls.Config
	switch upKind {
	case 1:
		opts.Upstream, upAddr = "http://up.test:8080", "up.test:8080"
	case 2:
		opts.Upstream, upAddr = "https://ups.test:8443", "ups.test:8443"
		outer = &tls.Config{Certificates: []tls.Certificate{pki.Leaf([]string{"ups.test"}, -time.Hour, time.Hour)}}
	}
	w, err := world.Start(opts)
	if err != nil {
		x.Failf("harness/start", "%v", err)
		return
	}
	leaves := map[string]tls.Certificate{
		"passthrough.test": pki.Leaf([]string{"passthrough.test"}, -time.Hour, time.Hour),
		"good.test":        pki.Leaf([]string{"good.test"}, -time.Hour, time.Hour),
		// valid, trusted, but for every OTHER name in play - never for wrongname.test
		"wrongname.test": pki.Leaf([]string{"ups.test", "up.test", "passthrough.test", "good.test", "expired.test", "elsewhere.test"}, -time.Hour, time.Hour),
		"expired.test":   pki.Leaf([]string{"expired.test"}, -3*time.Hour, -time.Hour),
	}
	cfgFor := func(authority string) *tls.Config {
		h, _, _ := net.SplitHostPort(authority)
		l, ok := leaves[strings.ToLower(h)]
		if !ok {
			return nil
		}
		return &tls.Config{Certificates: []tls.Certificate{l}}
	}
	servers := map[string]*world.Server{}
	addrs := []string{"passthrough.test:443", "good.test:443", "wrongname.test:443", "expired.test:443"}
	if upAddr != "" {
		addrs = append(addrs, upAddr)
	}
	for _, a := range addrs {
		sv, err := w.Server(a)
		if err != nil {
			x.Failf("harness/listen", "%v", err)
			return
		}
		servers[a] = sv
	}
	// origin returns the TLS session of the origin for host, if the proxy has opened a connection for it
	origin := func(host string) *world.TLSPeer {
		if upAddr != "" {
			p := servers[upAddr].Accept()
			if p == nil {
				return nil
			}
			return world.UpstreamProxyThenTLS(p, outer, cfgFor)
		}
		p := servers[strings.ToLower(host)+":443"].Accept()
		if p == nil {
			return nil
		}
		return world.TLSServer(p, cfgFor(host+":443"))
	}
	roots := x509.NewCertPool()
	roots.AddCert(w.Proxy.MITMCACert())
	var names, out []string
	var open []interface{ Close() }
	for _, k := range seq {
		sk := sessionKinds[k]
		names = append(names, sk.name)
		what := fmt.Sprintf("upstream %q, session %s after %v", opts.Upstream, sk.name, names[:len(names)-1])
		raw, _ := w.Client()
		open = append(open, raw)
		raw.Send([]byte("CONNECT " + sk.host + ":443 HTTP/1.1\r\nHost: " + sk.host + ":443\r\n\r\n"))
		world.Settle(time.Second)
		var org *world.TLSPeer
		if !sk.mitm {
			if org = origin(sk.host); org == nil {
				x.Failf("excluded-host/not-dialled", "%s: nobody was contacted for the tunnel; client got %q", what, world.Clip(raw.Recv()))
				return
			}
			open = append(open, org)
			world.Settle(time.Second)
		}
		if got := string(raw.Recv()); got != "HTTP/1.1 200 OK\r\n\r\n" {
			x.Failf("connect-reply", "%s: CONNECT answered %q", what, got)
			return
		}
		x.Check()
		if !sk.mitm {
			tc := world.TLSClient(raw, &tls.Config{ServerName: sk.host, RootCAs: pki.Pool()})
			open = append(open, tc)
			world.Settle(time.Second)
			if done, herr := tc.Handshake(); !done || herr != nil {
				x.Failf("excluded-host/handshake", "%s: handshake through the untouched tunnel failed: done=%v err=%v", what, done, herr)
				return
			}
			if pc := tc.State().PeerCertificates; len(pc) == 0 || !pc[0].Equal(leaves[sk.host].Leaf) {
				x.Failf("excluded-host-intercepted", "%s: the client did not receive the origin's own certificate", what)
				return
			}
			tc.Send([]byte("GET /t HTTP/1.1\r\nHost: " + sk.host + "\r\n\r\n"))
			if !strings.HasPrefix(string(org.Recv()), "GET /t ") {
				x.Failf("excluded-host/bytes", "%s: origin holds %q", what, world.Clip(org.Recv()))
				return
			}
			out = append(out, "tunnelled")
			continue
		}
		tc := world.TLSClient(raw, &tls.Config{ServerName: sk.host, InsecureSkipVerify: true})
		open = append(open, tc)
		if done, herr := tc.Handshake(); !done || herr != nil {
			x.Failf("mitm-handshake-failed", "%s: TLS handshake with the interceptor failed: done=%v err=%v", what, done, herr)
			return
		}
		pcs := tc.State().PeerCertificates
		inter := x509.NewCertPool()
		for _, c := range pcs[1:] {
			inter.AddCert(c)
		}
		if _, err := pcs[0].Verify(x509.VerifyOptions{DNSName: sk.host, Roots: roots, Intermediates: inter, CurrentTime: time.Now()}); err != nil {
			x.Failf("mitm-certificate-invalid", "%s: the certificate presented to the client does not verify for %q: %v", what, sk.host, err)
		}
		tc.Send([]byte("GET /x HTTP/1.1\r\nHost: " + sk.host + "\r\n\r\n"))
		world.Settle(time.Second)
		org = origin(sk.host)
		if org != nil {
			open = append(open, org)
			world.Settle(5 * time.Second)
		}
		var got []byte
		if org != nil {
			got = org.Recv()
		}
		if sk.bad {
			if len(got) != 0 {
				x.Failf("origin-verification-bypassed", "%s: the origin's certificate does not verify for %s but the origin received %q", what, sk.host, world.Clip(got))
				return
			}
			rs := httpwire.ParseResponses(tc.Recv(), []string{"GET"}, false)
			if len(rs.Msgs) != 1 || rs.Msgs[0].Status/100 != 5 || !rs.Msgs[0].Has("X-Forwarder-Error") {
				x.Failf("no-error-response", "%s: want an error response, client got %q", what, world.Clip(tc.Recv()))
				return
			}
			out = append(out, "origin-rejected")
		} else {
			if !strings.HasPrefix(string(got), "GET /x ") {
				hs := "no connection"
				if org != nil {
					_, e := org.Handshake()
					hs = fmt.Sprintf("origin handshake error %v, upstream CONNECT %q", e, org.Connect)
				}
				x.Failf("not-forwarded", "%s: the request did not reach the origin (%s); client got %q", what, hs, world.Clip(tc.Recv()))
				return
			}
			org.Send([]byte("HTTP/1.1 200 OK\r\nContent-Length: 2\r\nConnection: close\r\n\r\nok"))
			if rs := httpwire.ParseResponses(tc.Recv(), []string{"GET"}, false); len(rs.Msgs) != 1 || rs.Msgs[0].Status != 200 {
				x.Failf("not-answered", "%s: client got %q", what, world.Clip(tc.Recv()))
				return
			}
			out = append(out, "forwarded")
		}
	}
	x.Outcome(strings.Join(out, ","))
	for i := len(open) - 1; i >= 0; i-- {
		open[i].Close()
	}
	if err := w.Stop(); err != nil {
		x.Failf("shutdown", "%v", err)
	}
	for _, sv := range servers {
		sv.L.Close()
		for p := sv.Accept(); p != nil; p = sv.Accept() {
			p.Close()
		}
	}
	world.Settle(5 * time.Second)
	if l := world.Leaks(); l != "" {
		x.Failf("goroutine-leak", "%s", l)
	}
}

func finish(x *explore.X, w *world.World, org *world.Hop) {
	if err := w.Stop(); err != nil {
		x.Failf("shutdown", "%v", err)
	}
	org.Shutdown()
	world.Settle(5 * time.Second)
	if l := world.Leaks(); l != "" {
		x.Failf("goroutine-leak", "%s", l)
	}
}

func TestC07(t *testing.T) {
	s := explore.NewSuite(t, "C07", "model_checking",
		"(cache core, in-package) mitm.Config.cert on the virtual clock over a cache of capacity 1-2 with TTL 30 min / 3 h and validity 1 h: EVERY sequence of depth 3 (quick) / 4 (thorough) over {cert(name) for 15 names incl. DNS names of exactly 64, 65 and 253 octets, case variants, IPv4/IPv6 literals, host:port forms, an IDN and a wildcard-looking name; advance the clock by TTL/2, TTL+1min, validity+1min}; states = call/clock histories; every returned certificate is verified with crypto/x509 against the CA for the requested host at the current virtual time and its key is compared with the handshake key; TLSForHost with and without SNI; N=2-4 goroutines calling cert concurrently for colliding names over 1-2 rounds with expiry in between; 2-3 scheduler threads calling cert with every interleaving of their Get/verify/create/Add steps within the preemption bound; (proxy) CONNECT authority(5: name, upper case, IPv4, IPv6, non-default port) x SNI(same, absent, different) x origin certificate(valid, expired, wrong name, untrusted) x insecure x mitm-domains(none, include, exclude), deviation-bounded (D=3 quick, 5 thorough=full): the chain presented to the client must verify for the name it asked for; a non-verifying origin receives no request and the client an error response; excluded hosts are tunnelled (client sees the origin's own certificate); (sessions-on-one-proxy) ONE proxy with MITM and one excluded host, upstream {none, http proxy, https proxy}, EVERY sequence of 2 (quick) / 4 (thorough) sessions out of {tunnel to the excluded host, intercepted session to an origin with a valid / wrong-name (valid for every other name in play) / expired certificate}: each session is judged as if it were the first; (round 9) through-proxy x MITM CA {generated by the proxy, configured by the operator as data: URIs: ECDSA P-256 with a SEC 1 key, RSA-2048 with a PKCS #8 key}: the chain is verified against the CA that was configured")
	s.Assume = []string{"crypto/x509 and crypto/tls are the verifiers", "the cache-core harness builds mitm.Config field by field like NewConfigWithCache but reuses one RSA leaf key per process", "(interleaved-callers) scheduling points are inserted at build time before every cache Get/Add of mitm.Config.cert: all interleavings of 2-3 callers with at most 2 (quick) / 3 (thorough) preemptions; the cache itself (freelru) is locked internally and treated as atomic"}
	mitm.VerifAddCacheScenarios(t, s)
	s.Add(explore.Scenario{Name: "through-proxy", Remote: true, MaxDev: map[string]int{"quick": 3, "thorough": 5},
		Run: func(x *explore.X) { world.Run(t, x, func() { proxyScenario(x) }) }})
	s.Add(explore.Scenario{Name: "sessions-on-one-proxy-quick", Remote: true, Tiers: []string{"quick"},
		Run: func(x *explore.X) { world.Run(t, x, func() { sessionsScenario(x, 2) }) }})
	s.Add(explore.Scenario{Name: "sessions-on-one-proxy-thorough", Remote: true, Tiers: []string{"thorough"},
		Run: func(x *explore.X) { world.Run(t, x, func() { sessionsScenario(x, 4) }) }})
	s.Main()
}

type rsaAuthority struct {
	cert            *x509.Certificate
	certPEM, keyPEM []byte
}

// rsaCA: one RSA-2048 CA per process (key generation is slow), valid on the virtual clock and on the real one.
var rsaCA = sync.OnceValue(func() rsaAuthority {
	key, err := rsa.GenerateKey(rand.Reader, 2048)
	if err != nil {
		panic(err)
	}
	tmpl := &x509.Certificate{SerialNumber: big.NewInt(77), Subject: pkix.Name{CommonName: "configured MITM CA (RSA)"},
		NotBefore: time.Date(1990, 1, 1, 0, 0, 0, 0, time.UTC), NotAfter: time.Date(2100, 1, 1, 0, 0, 0, 0, time.UTC),
		KeyUsage: x509.KeyUsageCertSign | x509.KeyUsageDigitalSignature, BasicConstraintsValid: true, IsCA: true}
	der, err := x509.CreateCertificate(rand.Reader, tmpl, tmpl, &key.PublicKey, key)
	if err != nil {
		panic(err)
	}
	c, _ := x509.ParseCertificate(der)
	k8, _ := x509.MarshalPKCS8PrivateKey(key)
	return rsaAuthority{c, pem.EncodeToMemory(&pem.Block{Type: "CERTIFICATE", Bytes: der}), pem.EncodeToMemory(&pem.Block{Type: "PRIVATE KEY", Bytes: k8})}
})
