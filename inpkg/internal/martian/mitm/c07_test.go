// C07 (cache core): every certificate mitm.Config.cert returns is valid for the requested name,
// chains to the CA and is inside its validity period - for every sequence of cert(name) calls and
// clock advances over a tiny cache (capacity 1-2, TTL and validity shorter than the run).
// Explicit-state search in-package, on the virtual clock of a testing/synctest bubble.
package mitm

import (
	"context"
	"crypto/ecdsa"
	"crypto/elliptic"
	"crypto/rand"
	"crypto/rsa"
	"crypto/tls"
	"crypto/x509"
	"crypto/x509/pkix"
	"fmt"
	"math/big"
	"net"
	"reflect"
	"strings"
	"sync"
	"testing"
	"time"
	"unsafe"

	"github.com/saucelabs/forwarder/internal/zzverif/bubble"
	"github.com/saucelabs/forwarder/internal/zzverif/explore"
	"github.com/saucelabs/forwarder/internal/zzverif/tsched"
	"github.com/saucelabs/forwarder/internal/zzverif/vsync"
)

var (
	tmplOnce sync.Once
	tmplCfg  *Config
	tmplCA   *x509.Certificate
)

// newTestConfig returns a Config made by the package's own constructor. NewConfigWithCache generates an
// RSA-2048 key (~70 ms), so one template per process is built by the real constructor (with a CA valid from
// 1990, i.e. also at the bubble's virtual clock) and every execution works on a shallow copy whose cache is
// replaced by a fresh one. The cache field is set through reflection ("certs"): the harness names no other
// unexported field of Config, so refactorings of Config that still compile do not break this file.
func newTestConfig(capacity uint32, ttl, validity time.Duration) (*Config, *x509.Certificate) {
	tmplOnce.Do(func() {
		caKey, _ := ecdsa.GenerateKey(elliptic.P256(), rand.Reader)
		tmpl := &x509.Certificate{
			SerialNumber: big.NewInt(1), Subject: pkix.Name{CommonName: "harness MITM CA"},
			NotBefore: time.Date(1990, 1, 1, 0, 0, 0, 0, time.UTC), NotAfter: time.Date(2090, 1, 1, 0, 0, 0, 0, time.UTC),
			KeyUsage: x509.KeyUsageCertSign | x509.KeyUsageDigitalSignature, BasicConstraintsValid: true, IsCA: true,
		}
		raw, err := x509.CreateCertificate(rand.Reader, tmpl, tmpl, caKey.Public(), caKey)
		if err != nil {
			panic(err)
		}
		ca, _ := x509.ParseCertificate(raw)
		cache, _ := NewCache(CacheConfig{Capacity: 1, TTL: time.Hour})
		c, err := NewConfigWithCache(ca, caKey, cache)
		if err != nil {
			panic(err)
		}
		tmplCfg, tmplCA = c, ca
	})
	cache, err := NewCache(CacheConfig{Capacity: capacity, TTL: ttl})
	if err != nil {
		panic(err)
	}
	cp := *tmplCfg
	c := &cp
	f := reflect.ValueOf(c).Elem().FieldByName("certs")
	if !f.IsValid() {
		panic("harness: mitm.Config has no field named certs any more")
	}
	reflect.NewAt(f.Type(), unsafe.Pointer(f.UnsafeAddr())).Elem().Set(reflect.ValueOf(cache))
	c.SetValidity(validity)
	c.SetOrganization("harness")
	return c, tmplCA
}

// (name lengths: the last four are DNS names of exactly 64, 65 and 253 octets - a label may have 63 octets, a name
// 253 - and a 64-octet name with a port)
var names = []string{"a.test", "A.test", "b.test", "c.test", "127.0.0.1", "::1", "[::1]:443", "a.test:8443", "192.0.2.7:443", "xn--bcher-kva.test", "*.wild.test",
	longName(64), longName(65), longName(253), longName(64) + ":443"}

// longName returns a syntactically valid DNS name of exactly n octets ending in ".test".
func longName(n int) string {
	s := ".test"
	for len(s) < n {
		k := n - len(s)
		if k > 64 {
			k = 64
		}
		if len(s)+k == n {
			s = strings.Repeat("x", k) + s // the first label: no leading dot
		} else {
			s = "." + strings.Repeat("y", k-1) + s
		}
	}
	return s
}

// hostOf is the reference for "the name the client asked for": port and brackets removed.
func hostOf(n string) string {
	if h, _, err := net.SplitHostPort(n); err == nil {
		return h
	}
	return strings.Trim(n, "[]")
}

func checkCert(x *explore.X, c *tls.Certificate, ca *x509.Certificate, name, hist string) bool {
	x.Check()
	if c == nil || len(c.Certificate) == 0 {
		x.Failf("no-certificate", "after %s: cert(%q) returned no certificate", hist, name)
		return false
	}
	leaf, err := x509.ParseCertificate(c.Certificate[0])
	if err != nil {
		x.Failf("unparsable-certificate", "after %s: cert(%q): %v", hist, name, err)
		return false
	}
	roots := x509.NewCertPool()
	roots.AddCert(ca)
	host := hostOf(name)
	if _, err := leaf.Verify(x509.VerifyOptions{DNSName: host, Roots: roots, CurrentTime: time.Now()}); err != nil {
		sig := "certificate-does-not-verify"
		if strings.Contains(err.Error(), "expired") || strings.Contains(err.Error(), "not yet valid") {
			sig = "certificate-outside-validity"
		}
		x.Failf(sig, "after %s: the certificate returned for %q does not verify for %q at %s: %v (SANs dns=%v ip=%v, valid %s .. %s)", hist, name, host,
			time.Now().Format(time.RFC3339), err, leaf.DNSNames, leaf.IPAddresses, leaf.NotBefore.Format(time.RFC3339), leaf.NotAfter.Format(time.RFC3339))
		return false
	}
	pub, ok := leaf.PublicKey.(*rsa.PublicKey)
	priv, ok2 := c.PrivateKey.(*rsa.PrivateKey)
	if !ok || !ok2 || pub.N.Cmp(priv.N) != 0 {
		x.Failf("key-mismatch", "after %s: cert(%q): leaf public key does not match the private key of the tls.Certificate", hist, name)
		return false
	}
	if c.Leaf == nil || !c.Leaf.Equal(leaf) {
		x.Failf("leaf-mismatch", "after %s: cert(%q): tls.Certificate.Leaf is not the first certificate of the chain", hist, name)
		return false
	}
	return true
}

func cacheScenario(x *explore.X, depth int) {
	capacity := uint32(1 + x.ChooseFree("capacity-1", 2))
	ttl := []time.Duration{30 * time.Minute, 3 * time.Hour}[x.ChooseFree("ttl", 2)]
	validity := time.Hour
	c, ca := newTestConfig(capacity, ttl, validity)
	hist := fmt.Sprintf("capacity=%d ttl=%v validity=%v:", capacity, ttl, validity)
	var key []string
	for step := 0; step < depth; step++ {
		// canonical state: cache contents in order with remaining validity and age, current time bucket
		x.State(hist, 0)
		n := len(names) + 3
		ev := x.ChooseFree(fmt.Sprintf("op%d", step), n)
		if ev < len(names) {
			name := names[ev]
			hist += fmt.Sprintf(" cert(%s)", name)
			crt, err := c.cert(context.Background(), name)
			if err != nil {
				x.Failf("cert-error", "after %s: cert(%q) failed: %v", hist, name, err)
				return
			}
			if !checkCert(x, crt, ca, name, hist) {
				return
			}
			key = append(key, name)
		} else {
			d := []time.Duration{ttl / 2, ttl + time.Minute, validity + time.Minute}[ev-len(names)]
			hist += fmt.Sprintf(" +%v", d)
			time.Sleep(d)
		}
		x.Logf("%s", hist)
	}
	// the handshake path: TLSForHost must hand out a verifying certificate for SNI, or the CONNECT host without SNI
	for _, tc := range []struct{ connect, sni string }{{"a.test:443", ""}, {"a.test:443", "b.test"}, {"127.0.0.1:443", ""}, {"[::1]:8443", ""}, {"A.TEST:443", "a.test"}} {
		cfg := c.TLSForHost(context.Background(), tc.connect)
		crt, err := cfg.GetCertificate(&tls.ClientHelloInfo{ServerName: tc.sni})
		want := tc.sni
		if want == "" {
			want = tc.connect
		}
		if err != nil {
			x.Failf("cert-error", "after %s: TLSForHost(%q).GetCertificate(SNI %q): %v", hist, tc.connect, tc.sni, err)
			return
		}
		if !checkCert(x, crt, ca, want, hist+fmt.Sprintf(" TLSForHost(%s,sni=%s)", tc.connect, tc.sni)) {
			return
		}
	}
	x.Outcome(fmt.Sprintf("cap%d ttl%v n=%d", capacity, ttl, len(key)))
}

// concurrent handshakes: N goroutines call cert() for colliding names at the same virtual instant.
func concurrentScenario(x *explore.X) {
	capacity := uint32(1 + x.ChooseFree("capacity-1", 2))
	c, ca := newTestConfig(capacity, 30*time.Minute, time.Hour)
	n := 2 + x.ChooseFree("goroutines-2", 3)
	pick := make([]string, n)
	for i := range pick {
		pick[i] = []string{"a.test", "b.test", "127.0.0.1"}[x.ChooseFree(fmt.Sprintf("name%d", i), 3)]
	}
	rounds := 1 + x.ChooseFree("rounds-1", 2)
	for r := 0; r < rounds; r++ {
		res := make([]*tls.Certificate, n)
		errs := make([]error, n)
		var wg sync.WaitGroup
		for i := 0; i < n; i++ {
			wg.Add(1)
			go func(i int) {
				defer wg.Done()
				res[i], errs[i] = c.cert(context.Background(), pick[i])
			}(i)
		}
		wg.Wait()
		for i := 0; i < n; i++ {
			if errs[i] != nil {
				x.Failf("cert-error", "concurrent cert(%q): %v", pick[i], errs[i])
				return
			}
			if !checkCert(x, res[i], ca, pick[i], fmt.Sprintf("round %d, %d concurrent callers %v", r, n, pick)) {
				return
			}
		}
		time.Sleep(31 * time.Minute) // entries expire between the rounds
	}
	x.Outcome(fmt.Sprintf("conc n=%d", n))
}

// interleavedScenario (Engine T): 2-3 scheduler threads call cert() for colliding names over a cache of
// capacity 1; scheduling points sit before every c.certs.Get / c.certs.Add (inserted by tools/instr), so
// every interleaving of the check-then-act sequence Get -> verify -> create -> Add within the preemption
// bound is explored. Every caller must receive a certificate that verifies for its own name.
func interleavedScenario(t *testing.T, x *explore.X) {
	n := 2 + x.ChooseFree("threads-2", 2)
	pick := make([]string, n)
	for i := range pick {
		pick[i] = []string{"a.test", "b.test", "A.test", "127.0.0.1"}[x.ChooseFree(fmt.Sprintf("name%d", i), 4)]
	}
	warm := x.ChooseFree("warm-cache", 2) == 1
	var c *Config
	var ca *x509.Certificate
	res := make([]*tls.Certificate, n)
	errs := make([]error, n)
	tsched.Run(t, x, time.Second, false, func() {
		c, ca = newTestConfig(1, 30*time.Minute, time.Hour)
		if warm {
			c.cert(context.Background(), "a.test")
			time.Sleep(31 * time.Minute) // the entry is expired when the threads start
		}
		for i := 0; i < n; i++ {
			vsync.GoNamed(fmt.Sprintf("cert(%s)#%d", pick[i], i), func() {
				res[i], errs[i] = c.cert(context.Background(), pick[i])
			})
		}
	}, func(s *vsync.Scheduler) {
		for i := 0; i < n; i++ {
			if errs[i] != nil {
				x.Failf("cert-error", "interleaved cert(%q): %v", pick[i], errs[i])
				return
			}
			if !checkCert(x, res[i], ca, pick[i], fmt.Sprintf("interleaved callers %v, schedule %v", pick, s.Trace)) {
				return
			}
		}
		x.Outcome(fmt.Sprintf("interleaved n=%d", n))
	})
}

// VerifAddCacheScenarios lets the external test package (which may import the whole proxy) add the
// in-package scenarios to its suite.
var VerifAddCacheScenarios = addCacheScenarios

func addCacheScenarios(t *testing.T, s *explore.Suite) {
	run := func(f func(x *explore.X)) func(x *explore.X) {
		return func(x *explore.X) { bubble.Run(t, x, func() { f(x) }) }
	}
	s.Add(explore.Scenario{Name: "cache-quick", Remote: true, Tiers: []string{"quick"}, Run: run(func(x *explore.X) { cacheScenario(x, 3) })})
	s.Add(explore.Scenario{Name: "cache-thorough", Remote: true, Tiers: []string{"thorough"}, Run: run(func(x *explore.X) { cacheScenario(x, 4) })})
	s.Add(explore.Scenario{Name: "concurrent-callers", Remote: true, FreeRunning: true, Run: run(concurrentScenario)})
	s.Add(explore.Scenario{Name: "interleaved-callers", Remote: true, MaxDev: map[string]int{"quick": 2, "thorough": 3},
		Run: func(x *explore.X) { interleavedScenario(t, x) }})
}
