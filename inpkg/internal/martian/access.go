//go:build verif

package martian

// VerifOpenConns is the proxy's own count of connections being served.
func (p *Proxy) VerifOpenConns() int32 { return p.connsWg.Load() }

// VerifTracked is the number of connections registered for Close.
func (p *Proxy) VerifTracked() int {
	p.connsMu.Lock()
	defer p.connsMu.Unlock()
	return len(p.conns)
}

// VerifClosing reports whether shutdown has begun.
func (p *Proxy) VerifClosing() bool { p.init(); return p.closing() }
