// C09 + C10: the HTTP/2 relay respects peer windows and frame-size limits, returns all credit, and
// preserves every stream's headers, data, END_STREAM, order and delivery.
//
// Explicit-state search on a REAL relay pair (newRelay x2 wired as Config.Proxy does, relayFrames
// running) whose two connections are simulated-network pipes inside a testing/synctest bubble. The
// harness endpoints are raw http2.Framer peers with their own HPACK state and their own ledger of
// granted credit. After every event the bubble is brought to quiescence and all oracles run.
package h2

import (
	"bytes"
	"crypto/sha256"
	"fmt"
	"io"
	"net"
	"net/url"
	"os"
	"sort"
	"strings"
	"sync"
	"testing"
	"testing/synctest"

	"github.com/saucelabs/forwarder/internal/zzverif/bubble"
	"github.com/saucelabs/forwarder/internal/zzverif/explore"
	"github.com/saucelabs/forwarder/internal/zzverif/simnet"
	"github.com/saucelabs/forwarder/internal/zzverif/vsync"
	"golang.org/x/net/http2"
	"golang.org/x/net/http2/hpack"
)

type rframe struct {
	typ    http2.FrameType
	stream uint32
	flags  http2.Flags
	length int // payload length on the wire (incl. pad length byte and padding)
	data   []byte
	frag   []byte
	code   http2.ErrCode
	incr   uint32
	sets   []http2.Setting
	prom   uint32
	prio   http2.PriorityParam
	last   uint32
}

type ep struct {
	name string
	conn *simnet.Conn
	w    *http2.Framer
	encB bytes.Buffer
	enc  *hpack.Encoder
	dec  *hpack.Decoder

	mu      sync.Mutex
	recv    []rframe
	readErr error
	done    chan struct{}

	// as receiver: the credit this endpoint has granted
	iws          int
	wuConn       int
	wuStream     map[uint32]int
	gotConn      int
	gotStrm      map[uint32]int
	maxFrame     int
	maxFrameEver int // largest SETTINGS_MAX_FRAME_SIZE this endpoint ever announced
	checked      int
	// as sender
	sentConn int
	sentStrm map[uint32]int
	backConn int
	backStrm map[uint32]int
	padSent  int
	// fidelity
	sentEl   map[uint32][]string
	gotEl    map[uint32][]string
	connSent []string
	connGot  []string
	contBuf  []byte
	contHead *rframe
	// HPACK: table size the other side announced (relayed SETTINGS), applied to the encoder before the next
	// header block when prompt is set; otherwise the endpoint behaves as if its blocks were already in flight
	prompt       bool
	pendingTable int
	queuedAtLowering bool // the relay had frames queued towards this endpoint when it last lowered its MAX_FRAME_SIZE
}

func newEp(name string, c *simnet.Conn) *ep {
	e := newEpRW(name, c)
	e.conn = c
	return e
}

// newEpRW: an endpoint over any stream (a TLS connection, a segment-coalescing wrapper).
func newEpRW(name string, c io.ReadWriter) *ep {
	e := &ep{name: name, iws: 65535, maxFrame: 16384, maxFrameEver: 16384, done: make(chan struct{}), pendingTable: -1,
		wuStream: map[uint32]int{}, gotStrm: map[uint32]int{}, sentStrm: map[uint32]int{}, backStrm: map[uint32]int{},
		sentEl: map[uint32][]string{}, gotEl: map[uint32][]string{}}
	e.w = http2.NewFramer(c, nil)
	e.w.AllowIllegalWrites = true
	e.enc = hpack.NewEncoder(&e.encB)
	e.dec = hpack.NewDecoder(4096, nil)
	rd := http2.NewFramer(nil, c)
	rd.SetMaxReadFrameSize(1<<24 - 1)
	go func() {
		defer close(e.done)
		for {
			f, err := rd.ReadFrame()
			if err != nil {
				e.mu.Lock()
				e.readErr = err
				e.mu.Unlock()
				return
			}
			fh := f.Header()
			rf := rframe{typ: fh.Type, stream: fh.StreamID, flags: fh.Flags, length: int(fh.Length)}
			switch f := f.(type) {
			case *http2.DataFrame:
				rf.data = append([]byte(nil), f.Data()...)
			case *http2.HeadersFrame:
				rf.frag = append([]byte(nil), f.HeaderBlockFragment()...)
				rf.prio = f.Priority
			case *http2.ContinuationFrame:
				rf.frag = append([]byte(nil), f.HeaderBlockFragment()...)
			case *http2.PushPromiseFrame:
				rf.frag = append([]byte(nil), f.HeaderBlockFragment()...)
				rf.prom = f.PromiseID
			case *http2.RSTStreamFrame:
				rf.code = f.ErrCode
			case *http2.WindowUpdateFrame:
				rf.incr = f.Increment
			case *http2.SettingsFrame:
				f.ForeachSetting(func(s http2.Setting) error { rf.sets = append(rf.sets, s); return nil })
			case *http2.PingFrame:
				rf.data = append([]byte(nil), f.Data[:]...)
			case *http2.GoAwayFrame:
				rf.last, rf.code = f.LastStreamID, f.ErrCode
				rf.data = append([]byte(nil), f.DebugData()...)
			case *http2.PriorityFrame:
				rf.prio = f.PriorityParam
			}
			e.mu.Lock()
			e.recv = append(e.recv, rf)
			e.mu.Unlock()
		}
	}()
	return e
}

func fieldsStr(fs []hpack.HeaderField) string {
	var sb strings.Builder
	for _, f := range fs {
		v := f.Value
		if len(v) > 24 {
			h := sha256.Sum256([]byte(v))
			v = fmt.Sprintf("%s…%d:%x", v[:8], len(v), h[:4])
		}
		fmt.Fprintf(&sb, "%s=%s;", f.Name, v)
	}
	return sb.String()
}

func (e *ep) encode(fs []hpack.HeaderField) []byte {
	if e.prompt && e.pendingTable >= 0 {
		e.enc.SetMaxDynamicTableSizeLimit(uint32(e.pendingTable))
		e.enc.SetMaxDynamicTableSize(uint32(e.pendingTable))
		e.pendingTable = -1
	}
	e.encB.Reset()
	for _, f := range fs {
		e.enc.WriteField(f)
	}
	return append([]byte(nil), e.encB.Bytes()...)
}

func dataEl(b []byte) string { return "D:" + string(b) }

// appendEl appends an element, merging consecutive DATA.
func appendEl(l []string, el string) []string {
	if strings.HasPrefix(el, "D:") && len(l) > 0 && strings.HasPrefix(l[len(l)-1], "D:") {
		l[len(l)-1] += el[2:]
		return l
	}
	if el == "D:" {
		return l
	}
	return append(l, el)
}

// ---- sending -----------------------------------------------------------------------------------------

func (e *ep) sendHeaders(s uint32, fs []hpack.HeaderField, es bool, prio http2.PriorityParam, splitAt int) {
	blk := e.encode(fs)
	el := "H:" + fieldsStr(fs)
	if !prio.IsZero() {
		el += fmt.Sprintf("|prio=%d,%d,%v", prio.StreamDep, prio.Weight, prio.Exclusive)
	}
	e.sentEl[s] = appendEl(e.sentEl[s], el)
	if es {
		e.sentEl[s] = append(e.sentEl[s], "ES")
	}
	if splitAt <= 0 || splitAt >= len(blk) {
		e.w.WriteHeaders(http2.HeadersFrameParam{StreamID: s, BlockFragment: blk, EndStream: es, EndHeaders: true, Priority: prio})
		return
	}
	e.w.WriteHeaders(http2.HeadersFrameParam{StreamID: s, BlockFragment: blk[:splitAt], EndStream: es, EndHeaders: false, Priority: prio})
	e.w.WriteContinuation(s, true, blk[splitAt:])
}

func (e *ep) sendPushPromise(s, promised uint32, fs []hpack.HeaderField, splitAt int) {
	blk := e.encode(fs)
	e.sentEl[s] = append(e.sentEl[s], fmt.Sprintf("PP:%d:%s", promised, fieldsStr(fs)))
	if splitAt <= 0 || splitAt >= len(blk) {
		e.w.WritePushPromise(http2.PushPromiseParam{StreamID: s, PromiseID: promised, BlockFragment: blk, EndHeaders: true})
		return
	}
	e.w.WritePushPromise(http2.PushPromiseParam{StreamID: s, PromiseID: promised, BlockFragment: blk[:splitAt], EndHeaders: false})
	e.w.WriteContinuation(s, true, blk[splitAt:])
}

func (e *ep) sendData(s uint32, data []byte, pad int, es bool) {
	fc := len(data)
	if pad > 0 {
		e.w.WriteDataPadded(s, es, data, make([]byte, pad))
		fc += pad + 1
		e.padSent += pad + 1
	} else {
		e.w.WriteData(s, es, data)
	}
	e.sentConn += fc
	e.sentStrm[s] += fc
	e.sentEl[s] = appendEl(e.sentEl[s], dataEl(data))
	if es {
		e.sentEl[s] = append(e.sentEl[s], "ES")
	}
}

func (e *ep) sendRST(s uint32, code http2.ErrCode) {
	e.w.WriteRSTStream(s, code)
	e.sentEl[s] = append(e.sentEl[s], fmt.Sprintf("RST:%d", code))
}

func (e *ep) sendPriority(s uint32, p http2.PriorityParam) {
	e.w.WritePriority(s, p)
	e.sentEl[s] = append(e.sentEl[s], fmt.Sprintf("PRI:%d,%d,%v", p.StreamDep, p.Weight, p.Exclusive))
}

func (e *ep) sendWU(s uint32, n int) {
	e.w.WriteWindowUpdate(s, uint32(n))
	if s == 0 {
		e.wuConn += n
	} else {
		e.wuStream[s] += n
	}
}

func (e *ep) sendSettings(ss ...http2.Setting) {
	e.w.WriteSettings(ss...)
	var parts []string
	for _, s := range ss {
		parts = append(parts, fmt.Sprintf("%v=%d", s.ID, s.Val))
		switch s.ID {
		case http2.SettingInitialWindowSize:
			e.iws = int(s.Val)
		case http2.SettingMaxFrameSize:
			e.maxFrame = int(s.Val)
			e.maxFrameEver = max(e.maxFrameEver, e.maxFrame)
		case http2.SettingHeaderTableSize:
			e.dec.SetAllowedMaxDynamicTableSize(s.Val)
		}
	}
	e.connSent = append(e.connSent, "SETTINGS:"+strings.Join(parts, ","))
}

func (e *ep) sendSettingsAck() {
	e.w.WriteSettingsAck()
	e.connSent = append(e.connSent, "SETTINGS-ACK")
}

func (e *ep) sendPing(ack bool, b byte) {
	var d [8]byte
	d[0] = b
	e.w.WritePing(ack, d)
	e.connSent = append(e.connSent, fmt.Sprintf("PING:%v:%d", ack, b))
}

func (e *ep) sendGoAway(last uint32, code http2.ErrCode, dbg string) {
	e.w.WriteGoAway(last, code, []byte(dbg))
	e.connSent = append(e.connSent, fmt.Sprintf("GOAWAY:%d:%d:%s", last, code, dbg))
}

func (e *ep) streamWin(s uint32) int { return e.iws + e.wuStream[s] - e.gotStrm[s] }
func (e *ep) connWin() int           { return 65535 + e.wuConn - e.gotConn }

// ---- the system ---------------------------------------------------------------------------------------

type sys struct {
	x            *explore.X
	net          *simnet.Net
	c, s         *ep
	cToS, sToC   *relay
	closing      chan bool
	relayErr     [2]error
	relayDone    [2]chan struct{}
	dbg          bool
	focus        string // "C09" or "C10": which property's oracles report
	noRelayLoops bool
}

var focus = "C09"

func newSys(x *explore.X) *sys { return buildSys(x, false) }

func buildSys(x *explore.X, deferStart bool) *sys {
	y := &sys{x: x, net: simnet.New(), closing: make(chan bool), focus: focus}
	lc, _ := y.net.Listen("relay-c.test:1")
	ls, _ := y.net.Listen("relay-s.test:1")
	cEnd, _ := y.net.DialFrom("client.test", "relay-c.test:1")
	sEnd, _ := y.net.DialFrom("server.test", "relay-s.test:1")
	cc, sc := lc.TryAccept(), ls.TryAccept()
	lc.Close()
	ls.Close()
	u, _ := url.Parse("https://server.test")
	// wiring as in Config.Proxy (the connection preface is not part of this harness)
	cf, sf := http2.NewFramer(cc, cc), http2.NewFramer(sc, sc)
	cToS := newRelay(ClientToServer, "client", u.String(), cf, sf, &y.dbg)
	sToC := newRelay(ServerToClient, u.String(), "client", sf, cf, &y.dbg)
	cToS.peer, sToC.peer = sToC, cToS
	cToS.processors = &streamProcessors{
		create: func(id uint32) *Processors {
			return &Processors{cToS: &relayAdapter{id, cToS}, sToC: &relayAdapter{id, sToC}}
		},
	}
	sToC.processors = cToS.processors
	y.cToS, y.sToC = cToS, sToC
	y.c, y.s = newEp("client", cEnd), newEp("server", sEnd)
	if !deferStart {
		y.start(func(name string, f func()) { go f() })
		synctest.Wait()
	}
	return y
}

// start launches the two relayFrames loops with the given spawner (plain goroutines, or scheduler threads).
func (y *sys) start(spawn func(name string, f func())) {
	for i, r := range []*relay{y.cToS, y.sToC} {
		i, r := i, r
		y.relayDone[i] = make(chan struct{})
		spawn([]string{"relay-c2s", "relay-s2c"}[i], func() {
			defer close(y.relayDone[i])
			y.relayErr[i] = r.relayFrames(y.closing)
		})
	}
}

func (y *sys) stop() {
	close(y.closing)
	y.c.conn.Close()
	y.s.conn.Close()
	synctest.Wait()
	for _, c := range y.net.Conns() {
		c.Close()
	}
	<-y.relayDone[0]
	<-y.relayDone[1]
	<-y.c.done
	<-y.s.done
	if l := bubble.Leaks(); l != "" {
		y.x.Failf("goroutine-leak", "%s", l)
	}
}

// noteQueuedAtLowering is called right before e lowers its SETTINGS_MAX_FRAME_SIZE to v: it records whether the relay
// holds queued frames towards e at that moment (the known finding concerns exactly those frames, nothing sent later).
func (y *sys) noteQueuedAtLowering(e *ep, v int) {
	if v >= e.maxFrame {
		return
	}
	r := y.relayTo(e)
	r.flowMu.Lock()
	for _, ob := range r.outputBuffers {
		if ob.queue.Len() > 0 {
			e.queuedAtLowering = true
		}
	}
	r.flowMu.Unlock()
}

func (y *sys) other(e *ep) *ep {
	if e == y.c {
		return y.s
	}
	return y.c
}

// relayTo returns the relay that writes to endpoint e.
func (y *sys) relayTo(e *ep) *relay {
	if e == y.s {
		return y.cToS
	}
	return y.sToC
}

// oracle runs at quiescence. ev describes the last event (for messages).
func (y *sys) oracleNoRelayCheck(ev string) bool {
	y.noRelayLoops = true
	return y.oracle(ev)
}

func (y *sys) oracle(ev string) bool {
	x := y.x
	synctest.Wait()
	x.Check()
	for i, err := range y.relayErr {
		if y.noRelayLoops {
			break
		}
		select {
		case <-y.relayDone[i]:
			x.Failf("relay-terminated", "after %s: relay %d terminated: %v", ev, i, err)
			return false
		default:
		}
	}
	for _, e := range []*ep{y.c, y.s} {
		snd := y.other(e)
		e.mu.Lock()
		frames := e.recv[e.checked:]
		e.checked = len(e.recv)
		rerr := e.readErr
		e.mu.Unlock()
		if rerr != nil {
			x.Failf("endpoint-read-error", "after %s: %s cannot parse what the relay sent: %v", ev, e.name, rerr)
			return false
		}
		for _, f := range frames {
			if f.length > e.maxFrame { // since fix b24b29c C10 holds the relay to the current limit too (a receiver answers FRAME_SIZE_ERROR)
				sig := "frame-exceeds-max-frame-size"
				if f.length <= e.maxFrameEver && e.queuedAtLowering {
					// the frame was cut to the limit in force when the relay accepted it and queued; the receiver lowered its
					// limit since (only possible if something was waiting in the relay's queues towards e when it did so)
					sig = "frame-exceeds-max-frame-size/queued-before-the-limit-was-lowered"
				}
				if y.focus == "C10" {
					// a conforming receiver answers such a frame with FRAME_SIZE_ERROR: what it carries is never decoded
					// (until fix b24b29c frames cut before the receiver lowered its limit were filed under C09's known finding only)
					sig = "frame-undecodable/exceeds-max-frame-size"
				}
				x.Failf(sig, "after %s: %s received a %v frame with %d payload octets, its SETTINGS_MAX_FRAME_SIZE is %d", ev, e.name, f.typ, f.length, e.maxFrame)
				return false
			}
			s := f.stream
			switch f.typ {
			case http2.FrameData:
				if f.length > 0 && f.length > e.streamWin(s) && y.focus == "C09" { // (empty frames are not flow-controlled)
					x.Failf("window-exceeded/stream", "after %s: %s received DATA of %d flow-controlled octets on stream %d, the credit it has granted there is %d", ev, e.name, f.length, s, e.streamWin(s))
					return false
				}
				if f.length > 0 && f.length > e.connWin() && y.focus == "C09" {
					x.Failf("window-exceeded/connection", "after %s: %s received DATA of %d flow-controlled octets, the connection credit it has granted is %d", ev, e.name, f.length, e.connWin())
					return false
				}
				e.gotConn += f.length
				e.gotStrm[s] += f.length
				e.gotEl[s] = appendEl(e.gotEl[s], dataEl(f.data))
				if f.flags.Has(http2.FlagDataEndStream) {
					e.gotEl[s] = append(e.gotEl[s], "ES")
				}
			case http2.FrameHeaders, http2.FramePushPromise:
				ff := f
				e.contHead, e.contBuf = &ff, append([]byte(nil), f.frag...)
				if f.flags.Has(http2.FlagHeadersEndHeaders) {
					if !y.completeBlock(e, ev) {
						return false
					}
				}
			case http2.FrameContinuation:
				if e.contHead == nil || e.contHead.stream != s {
					x.Failf("continuation-out-of-place", "after %s: %s received CONTINUATION on stream %d without an open header block", ev, e.name, s)
					return false
				}
				e.contBuf = append(e.contBuf, f.frag...)
				if f.flags.Has(http2.FlagContinuationEndHeaders) {
					if !y.completeBlock(e, ev) {
						return false
					}
				}
			case http2.FrameRSTStream:
				e.gotEl[s] = append(e.gotEl[s], fmt.Sprintf("RST:%d", f.code))
			case http2.FramePriority:
				e.gotEl[s] = append(e.gotEl[s], fmt.Sprintf("PRI:%d,%d,%v", f.prio.StreamDep, f.prio.Weight, f.prio.Exclusive))
			case http2.FrameWindowUpdate:
				if s == 0 {
					e.backConn += int(f.incr)
				} else {
					e.backStrm[s] += int(f.incr)
				}
			case http2.FrameSettings:
				if f.flags.Has(http2.FlagSettingsAck) {
					e.connGot = append(e.connGot, "SETTINGS-ACK")
				} else {
					var parts []string
					for _, st := range f.sets {
						parts = append(parts, fmt.Sprintf("%v=%d", st.ID, st.Val))
						if st.ID == http2.SettingHeaderTableSize {
							e.pendingTable = int(st.Val)
						}
					}
					e.connGot = append(e.connGot, "SETTINGS:"+strings.Join(parts, ","))
				}
			case http2.FramePing:
				e.connGot = append(e.connGot, fmt.Sprintf("PING:%v:%d", f.flags.Has(http2.FlagPingAck), f.data[0]))
			case http2.FrameGoAway:
				e.connGot = append(e.connGot, fmt.Sprintf("GOAWAY:%d:%d:%s", f.last, f.code, f.data))
			}
			if e.contHead != nil && f.typ != http2.FrameHeaders && f.typ != http2.FramePushPromise && f.typ != http2.FrameContinuation {
				x.Failf("header-block-interrupted", "after %s: %s received a %v frame inside a header block", ev, e.name, f.typ)
				return false
			}
		}
		// fidelity: what e decoded is a prefix of what the other endpoint emitted, stream by stream
		for s, got := range e.gotEl {
			if y.focus != "C10" {
				break
			}
			want := snd.sentEl[s]
			if d := prefixDiff(got, want); d != "" {
				sig := "stream-fidelity"
				if strings.Contains(d, "END_STREAM") {
					sig = "stream-fidelity/end-stream"
				}
				x.Failf(sig, "after %s: stream %d towards %s: %s\n  sender emitted: %s\n  receiver decoded: %s", ev, s, e.name, d, clipEls(want), clipEls(got))
				return false
			}
		}
		if y.focus != "C10" {
			continue
		}
		if d := prefixDiff(e.connGot, snd.connSent); d != "" {
			x.Failf("connection-frames", "after %s: connection-level frames towards %s: %s\n  sent: %v\n  got: %v", ev, e.name, d, snd.connSent, e.connGot)
			return false
		}
		if len(e.connGot) != len(snd.connSent) {
			x.Failf("connection-frames/not-relayed", "after %s: %s received %d of the %d connection-level frames the other endpoint sent (%v)", ev, e.name, len(e.connGot), len(snd.connSent), snd.connSent)
			return false
		}
	}
	// credit return: every flow-controlled octet accepted from a sender is credited back on stream and connection
	for _, e := range []*ep{y.c, y.s} {
		if y.focus != "C09" {
			break
		}
		if e.backConn != e.sentConn {
			sig := "credit-not-returned/connection"
			if e.sentConn-e.backConn == e.padSent {
				sig = "credit-not-returned/padding"
			}
			x.Failf(sig, "after %s: %s has sent %d flow-controlled octets (%d of them padding), the relay has returned %d on the connection", ev, e.name, e.sentConn, e.padSent, e.backConn)
			return false
		}
		for s, n := range e.sentStrm {
			if e.backStrm[s] != n {
				sig := "credit-not-returned/stream"
				if e.sentConn-e.backConn == e.padSent || n-e.backStrm[s] <= e.padSent {
					sig = "credit-not-returned/padding"
				}
				x.Failf(sig, "after %s: %s has sent %d flow-controlled octets on stream %d, the relay has returned %d", ev, e.name, n, s, e.backStrm[s])
				return false
			}
		}
	}
	// no stranding: a queued frame whose size fits both windows of the receiver must have been sent
	for _, e := range []*ep{y.c, y.s} {
		if y.focus != "C10" || y.cToS == nil { // (config-proxy family: the relays are internal to Config.Proxy; final delivery is checked instead)
			break
		}
		r := y.relayTo(e)
		r.flowMu.Lock()
		if len(r.output) != 0 {
			x.Failf("output-not-drained", "after %s: %d frames sit in the relay's output channel at quiescence", ev, len(r.output))
		}
		for s, ob := range r.outputBuffers {
			fr := ob.queue.Front()
			if fr == nil {
				continue
			}
			q := fr.Value.(queuedFrame)
			fc := q.flowControlSize()
			sw, cw := e.streamWin(s), e.connWin()
			fits := fc <= sw && fc <= cw
			if fc == 0 {
				fits = true // frames without flow-controlled octets are never subject to flow control
			}
			if fits {
				sig := "stranded"
				if fc == 0 {
					sig = "stranded/zero-size-frame-behind-exhausted-window"
				}
				x.Failf(sig, "after %s: stream %d towards %s: the frame at the head of the relay's queue (%v, %d flow-controlled octets) fits the receiver's windows (stream %d, connection %d) but was not sent; %d frames queued", ev, s, e.name, q, fc, sw, cw, ob.queue.Len())
				r.flowMu.Unlock()
				return false
			}
		}
		r.flowMu.Unlock()
	}
	return true
}

func (y *sys) completeBlock(e *ep, ev string) bool {
	h := e.contHead
	fs, err := e.dec.DecodeFull(e.contBuf)
	e.contHead, e.contBuf = nil, nil
	if err != nil {
		y.x.Failf("header-block-undecodable", "after %s: %s cannot decode the header block on stream %d: %v", ev, e.name, h.stream, err)
		return false
	}
	s := h.stream
	if h.typ == http2.FramePushPromise {
		e.gotEl[s] = append(e.gotEl[s], fmt.Sprintf("PP:%d:%s", h.prom, fieldsStr(fs)))
		return true
	}
	el := "H:" + fieldsStr(fs)
	if !h.prio.IsZero() {
		el += fmt.Sprintf("|prio=%d,%d,%v", h.prio.StreamDep, h.prio.Weight, h.prio.Exclusive)
	}
	e.gotEl[s] = appendEl(e.gotEl[s], el)
	if h.flags.Has(http2.FlagHeadersEndStream) {
		e.gotEl[s] = append(e.gotEl[s], "ES")
	}
	return true
}

func clipEls(l []string) string {
	var out []string
	for _, e := range l {
		if len(e) > 60 {
			e = fmt.Sprintf("%s…(%d)", e[:40], len(e))
		}
		out = append(out, e)
	}
	return "[" + strings.Join(out, " | ") + "]"
}

// prefixDiff: got must be a prefix of want (a trailing DATA element of got may be a prefix of want's).
func prefixDiff(got, want []string) string {
	for i, g := range got {
		if i >= len(want) {
			if g == "ES" {
				return "END_STREAM delivered that the sender never set"
			}
			return fmt.Sprintf("element %d %q was never sent", i, clip1(g))
		}
		w := want[i]
		if g == w {
			continue
		}
		if i == len(got)-1 && strings.HasPrefix(g, "D:") && strings.HasPrefix(w, "D:") && strings.HasPrefix(w, g) {
			continue
		}
		if g == "ES" {
			return fmt.Sprintf("END_STREAM delivered at element %d where the sender emitted %q", i, clip1(w))
		}
		if w == "ES" {
			return fmt.Sprintf("END_STREAM of element %d lost: receiver has %q instead", i, clip1(g))
		}
		return fmt.Sprintf("element %d differs: got %q, sender emitted %q", i, clip1(g), clip1(w))
	}
	return ""
}

func clip1(s string) string {
	if len(s) > 50 {
		return fmt.Sprintf("%s…(%d)", s[:40], len(s))
	}
	return s
}

// stateKey: canonical form of everything a future transition or oracle can observe (flow family).
func (y *sys) stateKey(extra string) string {
	var sb strings.Builder
	sb.WriteString(extra)
	for _, r := range []*relay{y.cToS, y.sToC} {
		r.flowMu.Lock()
		fmt.Fprintf(&sb, "|R iws=%d cw=%d mf=%d", r.initialWindowSize, r.connectionWindowSize, r.maxFrameSize)
		var ids []int
		for s := range r.outputBuffers {
			ids = append(ids, int(s))
		}
		sort.Ints(ids)
		for _, s := range ids {
			ob := r.outputBuffers[uint32(s)]
			fmt.Fprintf(&sb, " s%d:w=%d[", s, ob.windowSize)
			for el := ob.queue.Front(); el != nil; el = el.Next() {
				q := el.Value.(queuedFrame)
				switch q := q.(type) {
				case *queuedDataFrame:
					h := sha256.Sum256(q.data)
					fmt.Fprintf(&sb, "D%d/%v/%x,", len(q.data), q.endStream, h[:3])
				default:
					fmt.Fprintf(&sb, "%T,", q)
				}
			}
			sb.WriteString("]")
		}
		r.flowMu.Unlock()
	}
	for _, e := range []*ep{y.c, y.s} {
		fmt.Fprintf(&sb, "|E%s iws=%d cw=%d mf=%d", e.name, e.iws, e.connWin(), e.maxFrame)
		var ids []int
		for s := range e.gotStrm {
			ids = append(ids, int(s))
		}
		for s := range e.wuStream {
			if _, ok := e.gotStrm[s]; !ok {
				ids = append(ids, int(s))
			}
		}
		sort.Ints(ids)
		for _, s := range ids {
			fmt.Fprintf(&sb, " s%d:%d", s, e.streamWin(uint32(s)))
		}
	}
	return sb.String()
}

func hdr(kv ...string) []hpack.HeaderField {
	var fs []hpack.HeaderField
	for i := 0; i+1 < len(kv); i += 2 {
		fs = append(fs, hpack.HeaderField{Name: kv[i], Value: kv[i+1]})
	}
	return fs
}

func reqHeaders(path string) []hpack.HeaderField {
	return hdr(":method", "POST", ":scheme", "https", ":authority", "server.test", ":path", path, "x-req", "r"+path)
}

// ---- family 1: flow control ---------------------------------------------------------------------------

func flowScenario(x *explore.X, depth int) { flowScenarioCfg(x, depth, false) }

// flowScenarioCfg: reduced = only the 8-octet window (the quick tier trades set-ups for one more step of
// depth: a window must go negative and be re-opened before it can be overrun; one stream must wait for its
// own window and another for the connection window before a connection-level update can strand one).
func flowScenarioCfg(x *explore.X, depth int, reduced bool) {
	// the order in which the relay visits its per-stream queues (a Go map) is an explored choice
	var y *sys
	vsync.MapOrder = func(label string, n int) int {
		// (called by the relay inside sendQueuedFramesUnderWindowSize, i.e. with flowMu held by the caller)
		// the visiting order is observable only when at least two streams have something queued
		queued := 0
		for _, r := range []*relay{y.cToS, y.sToC} {
			for _, ob := range r.outputBuffers {
				if ob.queue.Len() > 0 {
					queued++
				}
			}
		}
		if queued < 2 {
			return 0
		}
		return x.ChooseFree(label, n)
	}
	defer func() { vsync.MapOrder = nil }()
	y = newSys(x)
	defer y.stop()
	dir := x.ChooseFree("data-direction", 2) // 0: client -> server, 1: server -> client
	w, tight := 8, false
	if !reduced {
		w = []int{8, 16}[x.ChooseFree("window", 2)]
	}
	tight = x.ChooseFree("connection-window", 2) == 1 // connection window nearly exhausted by an earlier stream
	a, b := y.c, y.s
	if dir == 1 {
		a, b = y.s, y.c
	}
	// setup: the receiver announces a small initial window; streams 1 and 3 are opened
	// (one frame at a time, each followed by quiescence: the two relays must not race on the queue map
	// while the streams are being created, otherwise the number of map-order choice points would vary)
	b.sendSettings(http2.Setting{ID: http2.SettingInitialWindowSize, Val: uint32(w)})
	synctest.Wait()
	y.c.sendHeaders(1, reqHeaders("/1"), false, http2.PriorityParam{}, 0)
	synctest.Wait()
	y.c.sendHeaders(3, reqHeaders("/3"), false, http2.PriorityParam{}, 0)
	synctest.Wait()
	if dir == 1 {
		y.s.sendHeaders(1, hdr(":status", "200"), false, http2.PriorityParam{}, 0)
		synctest.Wait()
		y.s.sendHeaders(3, hdr(":status", "200"), false, http2.PriorityParam{}, 0)
		synctest.Wait()
		y.c.sendHeaders(7, reqHeaders("/7"), false, http2.PriorityParam{}, 0) // answered by the event A:HEADERS(s7,...)
	}
	opened7, resetByB := false, false
	if !y.oracle("setup") {
		return
	}
	if tight {
		// stream 5 consumes the connection window down to w+4 octets
		y.c.sendHeaders(5, reqHeaders("/5"), false, http2.PriorityParam{}, 0)
		synctest.Wait()
		if dir == 1 {
			y.s.sendHeaders(5, hdr(":status", "200"), false, http2.PriorityParam{}, 0)
			synctest.Wait()
		}
		b.sendWU(5, 70000)
		y.oracle("setup-5")
		left := 65535 - (w + 4)
		for left > 0 {
			n := min(left, 16000)
			a.sendData(5, bytes.Repeat([]byte{'z'}, n), 0, false)
			synctest.Wait()
			left -= n
		}
		if !y.oracle("setup-connection-window") {
			return
		}
	}
	ended := map[uint32]bool{}
	salt := byte(0)
	payload := func(n int) []byte {
		salt++
		p := make([]byte, n)
		for i := range p {
			p[i] = 'a' + (salt+byte(i))%26
		}
		return p
	}
	type event struct {
		name string
		do   func()
	}
	hist := ""
	for step := 0; step < depth; step++ {
		var evs []event
		for _, s := range []uint32{1, 3} {
			s := s
			if !ended[s] {
				for _, n := range []int{3, w, w + 1} {
					n := n
					evs = append(evs, event{fmt.Sprintf("A:DATA(s%d,%d)", s, n), func() { a.sendData(s, payload(n), 0, false) }})
				}
				evs = append(evs, event{fmt.Sprintf("A:DATA(s%d,0,ES)", s), func() { a.sendData(s, nil, 0, true); ended[s] = true }})
				evs = append(evs, event{fmt.Sprintf("A:DATA(s%d,3,ES)", s), func() { a.sendData(s, payload(3), 0, true); ended[s] = true }})
			}
		}
		if !ended[1] {
			evs = append(evs, event{"A:DATA(s1,3,pad3)", func() { a.sendData(1, payload(3), 3, false) }})
			evs = append(evs, event{"A:RST(s1)", func() { a.sendRST(1, http2.ErrCodeCancel); ended[1] = true }})
		}
		if !ended[3] {
			evs = append(evs, event{"A:TRAILERS(s3)", func() {
				a.sendHeaders(3, hdr("x-trailer", "t"), true, http2.PriorityParam{}, 0)
				ended[3] = true
			}})
		}
		if !resetByB {
			// the RECEIVER cancels stream 1; DATA the sender still had in flight keeps arriving at the relay: those
			// octets are flow-controlled on the connection and must be credited back like any others
			evs = append(evs, event{"B:RST(s1)", func() { b.sendRST(1, http2.ErrCodeCancel); resetByB = true }})
		}
		if !opened7 {
			// a header block on ANOTHER stream that shares a field with s3's trailers: header compression is
			// connection-wide, so the order in which blocks are encoded must be the order in which they are sent
			evs = append(evs, event{"A:HEADERS(s7,shares-a-field-with-the-trailers)", func() {
				if dir == 0 {
					a.sendHeaders(7, append(reqHeaders("/7"), hpack.HeaderField{Name: "x-trailer", Value: "t"}), false, http2.PriorityParam{}, 0)
				} else {
					a.sendHeaders(7, hdr(":status", "200", "x-trailer", "t"), false, http2.PriorityParam{}, 0)
				}
				opened7 = true
			}})
		}
		for _, s := range []uint32{1, 3} {
			s := s
			for _, n := range []int{1, w} {
				n := n
				evs = append(evs, event{fmt.Sprintf("B:WU(s%d,%d)", s, n), func() { b.sendWU(s, n) }})
			}
		}
		for _, n := range []int{1, w} {
			n := n
			evs = append(evs, event{fmt.Sprintf("B:WU(conn,%d)", n), func() { b.sendWU(0, n) }})
		}
		for _, v := range []int{w / 2, 2 * w, 0} {
			v := v
			if v != b.iws {
				evs = append(evs, event{fmt.Sprintf("B:SETTINGS(IWS=%d)", v), func() {
					b.sendSettings(http2.Setting{ID: http2.SettingInitialWindowSize, Val: uint32(v)})
				}})
			}
		}
		if b.iws != w/2 {
			// one SETTINGS frame naming the parameter twice: values are processed in the order they appear, the last one holds
			evs = append(evs, event{fmt.Sprintf("B:SETTINGS(IWS=%d,IWS=%d)", 1<<20, w/2), func() {
				b.sendSettings(http2.Setting{ID: http2.SettingInitialWindowSize, Val: 1 << 20}, http2.Setting{ID: http2.SettingInitialWindowSize, Val: uint32(w / 2)})
			}})
		}
		x.State(y.stateKey(fmt.Sprintf("flow d%d w%d t%v e%v%v o%v r%v", dir, w, tight, ended[1], ended[3], opened7, resetByB)), depth-step)
		ev := evs[x.ChooseFree(fmt.Sprintf("event%d", step), len(evs))]
		hist += ev.name + " "
		x.Logf("%s", ev.name)
		ev.do()
		if !y.oracle(hist) {
			return
		}
	}
	// finally open all windows: everything sent must arrive
	b.sendWU(0, 1<<20)
	b.sendSettings(http2.Setting{ID: http2.SettingInitialWindowSize, Val: 1 << 20})
	if !y.oracle(hist + "open-all-windows") {
		return
	}
	for _, s := range []uint32{1, 3, 5} {
		if y.focus != "C10" {
			break
		}
		if s == 1 && resetByB {
			continue // the receiver cancelled the stream: what was still on its way need not arrive
		}
		if d := prefixDiff(a.sentEl[s], b.gotEl[s]); d != "" || len(a.sentEl[s]) != len(b.gotEl[s]) {
			x.Failf("not-delivered-after-windows-opened", "after %s+open-all-windows: stream %d: sender emitted %s, receiver holds %s", hist, s, clipEls(a.sentEl[s]), clipEls(b.gotEl[s]))
			return
		}
	}
	x.Outcome(fmt.Sprintf("dir%d w%d tight=%v got=%d", dir, w, tight, b.gotConn))
}

// ---- family 1b: flow control while the receiver does not read ---------------------------------------------------

// stalledScenario: as the flow family on the 8-octet window with a nearly exhausted connection window, but at
// some step the receiver stops reading its socket (64-octet socket buffer) and zero-length DATA frames are
// sent until the relay's output channel towards it is full; the remaining events arrive while every emission
// has to wait for room in that channel; after the last event the receiver reads on. A relay may do whatever it
// likes while it waits - but what the receiver finally gets must still respect its windows, in order, and
// every octet must be credited back. (Reduced menu: DATA w / w+1 on two streams, WINDOW_UPDATE by 1 / w on
// both streams and the connection, SETTINGS_INITIAL_WINDOW_SIZE up.)
func stalledScenario(x *explore.X, depth int) {
	y := newSys(x)
	defer y.stop()
	dir := x.ChooseFree("data-direction", 2)
	stallAt := x.ChooseFree("receiver-stops-reading-before-step", depth)
	w := 8
	a, b := y.c, y.s
	if dir == 1 {
		a, b = y.s, y.c
	}
	b.sendSettings(http2.Setting{ID: http2.SettingInitialWindowSize, Val: uint32(w)})
	synctest.Wait()
	for _, s := range []uint32{1, 3, 5} {
		y.c.sendHeaders(s, reqHeaders(fmt.Sprintf("/%d", s)), false, http2.PriorityParam{}, 0)
		synctest.Wait()
		if dir == 1 {
			y.s.sendHeaders(s, hdr(":status", "200"), false, http2.PriorityParam{}, 0)
			synctest.Wait()
		}
	}
	b.sendWU(5, 70000)
	if !y.oracle("setup") {
		return
	}
	for left := 65535 - (w + 4); left > 0; {
		n := min(left, 16000)
		a.sendData(5, bytes.Repeat([]byte{'z'}, n), 0, false)
		synctest.Wait()
		left -= n
	}
	if !y.oracle("setup-connection-window") {
		return
	}
	salt := byte(0)
	payload := func(n int) []byte {
		salt++
		p := make([]byte, n)
		for i := range p {
			p[i] = 'a' + (salt+byte(i))%26
		}
		return p
	}
	type event struct {
		name string
		do   func()
	}
	var evs []event
	for _, s := range []uint32{1, 3} {
		s := s
		for _, n := range []int{w, w + 1} {
			n := n
			evs = append(evs, event{fmt.Sprintf("A:DATA(s%d,%d)", s, n), func() { a.sendData(s, payload(n), 0, false) }})
		}
		for _, n := range []int{1, w} {
			n := n
			evs = append(evs, event{fmt.Sprintf("B:WU(s%d,%d)", s, n), func() { b.sendWU(s, n) }})
		}
	}
	for _, n := range []int{1, w} {
		n := n
		evs = append(evs, event{fmt.Sprintf("B:WU(conn,%d)", n), func() { b.sendWU(0, n) }})
	}
	evs = append(evs, event{"B:SETTINGS(IWS=16)", func() { b.sendSettings(http2.Setting{ID: http2.SettingInitialWindowSize, Val: 16}) }})
	hist := ""
	stalled := false
	r := y.relayTo(b)
	for step := 0; step < depth; step++ {
		if step == stallAt {
			b.conn.SetPaused(true)
			b.conn.SetLimit(64)
			for i := 0; len(r.output) < cap(r.output); i++ {
				if i > 4*cap(r.output) {
					x.Failf("harness/fill", "the output channel towards the stalled receiver does not fill up (%d of %d after %d frames)", len(r.output), cap(r.output), i)
					return
				}
				a.sendData(5, nil, 0, false)
				synctest.Wait()
			}
			stalled = true
			hist += "[receiver stops reading, channel full] "
		}
		ev := evs[x.ChooseFree(fmt.Sprintf("event%d", step), len(evs))]
		hist += ev.name + " "
		x.Logf("%s", ev.name)
		ev.do()
		synctest.Wait()
		if !stalled && !y.oracle(hist) {
			return
		}
	}
	b.conn.SetPaused(false)
	b.conn.SetLimit(0)
	hist += "[receiver reads on] "
	if !y.oracle(hist) {
		return
	}
	b.sendWU(0, 1<<20)
	b.sendSettings(http2.Setting{ID: http2.SettingInitialWindowSize, Val: 1 << 20})
	if !y.oracle(hist + "open-all-windows") {
		return
	}
	for _, s := range []uint32{1, 3, 5} {
		if d := prefixDiff(a.sentEl[s], b.gotEl[s]); d != "" || len(a.sentEl[s]) != len(b.gotEl[s]) {
			x.Failf("not-delivered-after-windows-opened", "after %s+open-all-windows: stream %d: sender emitted %s, receiver holds %s", hist, s, clipEls(a.sentEl[s]), clipEls(b.gotEl[s]))
			return
		}
	}
	x.Outcome(fmt.Sprintf("dir%d stall@%d got=%d", dir, stallAt, b.gotConn))
}

// ---- family 2: fidelity of headers / data / END_STREAM / resets / push promises ------------------------------

func fidelityScenario(x *explore.X, depth int) {
	y := newSys(x)
	defer y.stop()
	// do the endpoints apply a relayed SETTINGS_HEADER_TABLE_SIZE before their next header block (prompt), or
	// are their next blocks already in flight (encoded with the old table)? Both timings are legal.
	prompt := x.ChooseFree("peers-apply-table-size-promptly", 2) == 1
	y.c.prompt, y.s.prompt = prompt, prompt
	big := strings.Repeat("~", 20000) // does not shrink under Huffman coding: forces the relay to split the block
	type event struct {
		name string
		do   func()
	}
	cOpen := map[uint32]bool{}
	cEnd := map[uint32]bool{}
	sOpen := map[uint32]bool{}
	sEnd := map[uint32]bool{}
	hist := ""
	for step := 0; step < depth; step++ {
		var evs []event
		for _, s := range []uint32{1, 3} {
			s := s
			if !cOpen[s] {
				evs = append(evs,
					event{fmt.Sprintf("C:HEADERS(s%d)", s), func() { y.c.sendHeaders(s, reqHeaders("/a"), false, http2.PriorityParam{}, 0); cOpen[s] = true }},
					event{fmt.Sprintf("C:HEADERS(s%d,ES)", s), func() {
						y.c.sendHeaders(s, reqHeaders("/b"), true, http2.PriorityParam{}, 0)
						cOpen[s], cEnd[s] = true, true
					}},
					event{fmt.Sprintf("C:HEADERS(s%d,prio)", s), func() {
						y.c.sendHeaders(s, reqHeaders("/c"), false, http2.PriorityParam{StreamDep: 0, Weight: 200, Exclusive: true}, 0)
						cOpen[s] = true
					}},
					event{fmt.Sprintf("C:HEADERS+CONT(s%d)", s), func() { y.c.sendHeaders(s, reqHeaders("/d"), false, http2.PriorityParam{}, 7); cOpen[s] = true }},
					event{fmt.Sprintf("C:HEADERS+CONT(s%d,ES)", s), func() {
						y.c.sendHeaders(s, reqHeaders("/e"), true, http2.PriorityParam{}, 1)
						cOpen[s], cEnd[s] = true, true
					}},
					event{fmt.Sprintf("C:HEADERS-20000(s%d)", s), func() {
						y.c.sendHeaders(s, append(reqHeaders("/f"), hpack.HeaderField{Name: "x-big", Value: big}), false, http2.PriorityParam{}, 16000)
						cOpen[s] = true
					}},
				)
			} else if !cEnd[s] {
				evs = append(evs,
					event{fmt.Sprintf("C:DATA(s%d,5)", s), func() { y.c.sendData(s, []byte("hello"), 0, false) }},
					event{fmt.Sprintf("C:DATA(s%d,5,pad,ES)", s), func() { y.c.sendData(s, []byte("world"), 4, true); cEnd[s] = true }},
					event{fmt.Sprintf("C:DATA(s%d,20000)", s), func() { y.c.sendData(s, bytes.Repeat([]byte("0123456789"), 2000), 0, false) }},
					event{fmt.Sprintf("C:DATA(s%d,0,ES)", s), func() { y.c.sendData(s, nil, 0, true); cEnd[s] = true }},
					event{fmt.Sprintf("C:TRAILERS+CONT(s%d)", s), func() {
						y.c.sendHeaders(s, hdr("x-trailer", "t", "x-t2", "u"), true, http2.PriorityParam{}, 3)
						cEnd[s] = true
					}},
					event{fmt.Sprintf("C:RST(s%d)", s), func() { y.c.sendRST(s, http2.ErrCodeCancel); cEnd[s] = true }},
				)
			}
			if cOpen[s] && !sEnd[s] {
				if !sOpen[s] {
					evs = append(evs,
						event{fmt.Sprintf("S:HEADERS(s%d)", s), func() {
							y.s.sendHeaders(s, hdr(":status", "200", "x-res", "1"), false, http2.PriorityParam{}, 0)
							sOpen[s] = true
						}},
						event{fmt.Sprintf("S:HEADERS+CONT(s%d)", s), func() {
							y.s.sendHeaders(s, hdr(":status", "200", "x-res", "2"), false, http2.PriorityParam{}, 2)
							sOpen[s] = true
						}},
						event{fmt.Sprintf("S:HEADERS(s%d,ES)", s), func() {
							y.s.sendHeaders(s, hdr(":status", "204"), true, http2.PriorityParam{}, 0)
							sOpen[s], sEnd[s] = true, true
						}},
						event{fmt.Sprintf("S:PUSH_PROMISE(s%d)", s), func() { y.s.sendPushPromise(s, 2, reqHeaders("/pushed"), 0) }},
					)
				} else {
					evs = append(evs,
						event{fmt.Sprintf("S:DATA(s%d,6)", s), func() { y.s.sendData(s, []byte("answer"), 0, false) }},
						event{fmt.Sprintf("S:DATA(s%d,20000,ES)", s), func() {
							y.s.sendData(s, bytes.Repeat([]byte("abcdefghij"), 2000), 0, true)
							sEnd[s] = true
						}},
						event{fmt.Sprintf("S:TRAILERS(s%d)", s), func() { y.s.sendHeaders(s, hdr("grpc-status", "0"), true, http2.PriorityParam{}, 0); sEnd[s] = true }},
						event{fmt.Sprintf("S:TRAILERS+CONT(s%d)", s), func() {
							y.s.sendHeaders(s, hdr("grpc-status", "0", "grpc-message", "ok"), true, http2.PriorityParam{}, 4)
							sEnd[s] = true
						}},
						event{fmt.Sprintf("S:RST(s%d)", s), func() { y.s.sendRST(s, http2.ErrCodeInternal); sEnd[s] = true }},
					)
				}
			}
		}
		evs = append(evs,
			event{"C:PRIORITY(s3)", func() { y.c.sendPriority(3, http2.PriorityParam{StreamDep: 1, Weight: 10}) }},
			event{"C:PING", func() { y.c.sendPing(false, 7) }},
			event{"S:PING-ACK", func() { y.s.sendPing(true, 7) }},
			event{"C:SETTINGS(table=0)", func() { y.c.sendSettings(http2.Setting{ID: http2.SettingHeaderTableSize, Val: 0}) }},
			event{"S:SETTINGS(table=0)", func() { y.s.sendSettings(http2.Setting{ID: http2.SettingHeaderTableSize, Val: 0}) }},
			event{"S:SETTINGS(table=4096,maxconc=9)", func() {
				y.s.sendSettings(http2.Setting{ID: http2.SettingHeaderTableSize, Val: 4096}, http2.Setting{ID: http2.SettingMaxConcurrentStreams, Val: 9})
			}},
			event{"C:SETTINGS-ACK", func() { y.c.sendSettingsAck() }},
			event{"S:GOAWAY", func() { y.s.sendGoAway(3, http2.ErrCodeNo, "bye") }},
		)
		ev := evs[x.ChooseFree(fmt.Sprintf("event%d", step), len(evs))]
		hist += ev.name + " "
		x.Logf("%s", ev.name)
		ev.do()
		if !y.oracle(hist) {
			return
		}
	}
	// at the end (windows are ample) everything emitted must have been decoded by the other side
	for _, pr := range [][2]*ep{{y.c, y.s}, {y.s, y.c}} {
		for s, want := range pr[0].sentEl {
			if got := pr[1].gotEl[s]; len(got) != len(want) || prefixDiff(got, want) != "" || (len(got) > 0 && got[len(got)-1] != want[len(want)-1]) {
				x.Failf("not-delivered", "after %s: stream %d from %s: emitted %s, decoded %s", hist, s, pr[0].name, clipEls(want), clipEls(got))
				return
			}
		}
	}
	x.Outcome(fmt.Sprintf("c=%d s=%d", len(y.c.sentEl[1])+len(y.c.sentEl[3]), len(y.s.sentEl[1])+len(y.s.sentEl[3])))
}

// ---- family 2b: fidelity while one endpoint does not read -------------------------------------------------------

// stalledFidelity: endpoint D stops reading before step k (64-octet socket buffer), so whatever the relay
// writes to it blocks half-way; the remaining events arrive meanwhile - header blocks that need CONTINUATION
// frames towards D, DATA from D (whose credit the relay returns to D with WINDOW_UPDATE frames of its own),
// PING and SETTINGS towards D (which the relay writes from another goroutine than the queued frames); then D
// reads on. A header block must reach D as HEADERS immediately followed by its CONTINUATION frames, whatever
// else was waiting to be written: the endpoint's frame reader reports anything else, and the fidelity oracles
// compare what it decoded.
func stalledFidelity(x *explore.X, depth int) {
	y := newSys(x)
	defer y.stop()
	dEnd := x.ChooseFree("stalled-endpoint", 2) // 0 server, 1 client
	stallAt := x.ChooseFree("stops-reading-before-step", depth)
	d, o := y.s, y.c
	if dEnd == 1 {
		d, o = y.c, y.s
	}
	for _, s := range []uint32{1, 3} {
		y.c.sendHeaders(s, reqHeaders(fmt.Sprintf("/%d", s)), false, http2.PriorityParam{}, 0)
		synctest.Wait()
	}
	y.s.sendHeaders(1, hdr(":status", "200"), false, http2.PriorityParam{}, 0)
	if !y.oracle("setup") {
		return
	}
	big := strings.Repeat("v", 20000)
	next := uint32(5)
	srvBig, srvTrailer := false, false
	type event struct {
		name string
		do   func()
	}
	hist := ""
	stalled := false
	for step := 0; step < depth; step++ {
		if step == stallAt {
			d.conn.SetPaused(true)
			d.conn.SetLimit(64)
			stalled = true
			hist += "[" + d.name + " stops reading] "
		}
		var evs []event
		// header blocks of 20000 octets towards D (sent by the other endpoint O)
		if o == y.c {
			evs = append(evs, event{"O:HEADERS-20000(new stream)", func() {
				y.c.sendHeaders(next, append(reqHeaders("/big"), hpack.HeaderField{Name: "x-big", Value: big}), false, http2.PriorityParam{}, 16000)
				next += 2
			}})
		} else {
			if !srvBig {
				evs = append(evs, event{"O:HEADERS-20000(s3 response)", func() {
					y.s.sendHeaders(3, append(hdr(":status", "200"), hpack.HeaderField{Name: "x-big", Value: big}), false, http2.PriorityParam{}, 16000)
					srvBig = true
				}})
			}
			if !srvTrailer {
				evs = append(evs, event{"O:TRAILERS-20000(s1)", func() {
					y.s.sendHeaders(1, hdr("x-trailer", big), true, http2.PriorityParam{}, 16000)
					srvTrailer = true
				}})
			}
		}
		if !(o == y.s && srvTrailer) {
			evs = append(evs, event{"O:DATA(s1,5)", func() { o.sendData(1, []byte("hello"), 0, false) }})
		}
		evs = append(evs,
			event{"D:DATA(s1,5)", func() { d.sendData(1, []byte("world"), 0, false) }},
			event{"D:DATA(s3,6)", func() { d.sendData(3, []byte("answer"), 0, false) }},
			event{"O:PING", func() { o.sendPing(false, 9) }},
			event{"O:SETTINGS(maxconc=9)", func() { o.sendSettings(http2.Setting{ID: http2.SettingMaxConcurrentStreams, Val: 9}) }},
			event{"D:WU(s1,5)", func() { d.sendWU(1, 5) }},
		)
		ev := evs[x.ChooseFree(fmt.Sprintf("event%d", step), len(evs))]
		hist += ev.name + " "
		x.Logf("%s", ev.name)
		ev.do()
		synctest.Wait()
		if !stalled && !y.oracle(hist) {
			return
		}
	}
	d.conn.SetPaused(false)
	d.conn.SetLimit(0)
	hist += "[" + d.name + " reads on] "
	if !y.oracle(hist) {
		return
	}
	for _, pr := range [][2]*ep{{y.c, y.s}, {y.s, y.c}} {
		for s, want := range pr[0].sentEl {
			if got := pr[1].gotEl[s]; len(got) != len(want) || prefixDiff(got, want) != "" {
				x.Failf("not-delivered", "after %s: stream %d from %s: emitted %s, decoded %s", hist, s, pr[0].name, clipEls(want), clipEls(got))
				return
			}
		}
	}
	x.Outcome(fmt.Sprintf("d=%s stall@%d c=%d s=%d", d.name, stallAt, len(y.c.sentEl[1])+len(y.c.sentEl[3]), len(y.s.sentEl[1])+len(y.s.sentEl[3])))
}

// ---- family 3: frame size limits --------------------------------------------------------------------------

func frameSizeScenario(x *explore.X, depth int) {
	y := newSys(x)
	defer y.stop()
	dir := x.ChooseFree("data-direction", 2)
	a, b := y.c, y.s
	if dir == 1 {
		a, b = y.s, y.c
	}
	iws := []int{1 << 20, 20000}[x.ChooseFree("receiver-window", 2)]
	b.sendSettings(http2.Setting{ID: http2.SettingInitialWindowSize, Val: uint32(iws)})
	b.sendWU(0, 1<<20)
	y.c.sendHeaders(1, reqHeaders("/1"), false, http2.PriorityParam{}, 0)
	if dir == 1 {
		y.s.sendHeaders(1, hdr(":status", "200"), false, http2.PriorityParam{}, 0)
	}
	if !y.oracle("setup") {
		return
	}
	type event struct {
		name string
		do   func()
	}
	hist := ""
	nstream := uint32(3)
	for step := 0; step < depth; step++ {
		var evs []event
		for _, mf := range []int{16384, 32768, 65536} {
			mf := mf
			if mf != b.maxFrame {
				evs = append(evs, event{fmt.Sprintf("B:SETTINGS(MAX_FRAME_SIZE=%d)", mf), func() {
					y.noteQueuedAtLowering(b, mf)
					b.sendSettings(http2.Setting{ID: http2.SettingMaxFrameSize, Val: uint32(mf)})
				}})
			}
			if mf != a.maxFrame {
				evs = append(evs, event{fmt.Sprintf("A:SETTINGS(MAX_FRAME_SIZE=%d)", mf), func() {
					y.noteQueuedAtLowering(a, mf)
					a.sendSettings(http2.Setting{ID: http2.SettingMaxFrameSize, Val: uint32(mf)})
				}})
			}
		}
		for _, n := range []int{16384, 16385, 32768, 40000} {
			n := n
			if n <= b.maxFrame { // the sender respects the limit it was told: the receiver's SETTINGS, which the relay passes on
				evs = append(evs, event{fmt.Sprintf("A:DATA(s1,%d)", n), func() { a.sendData(1, bytes.Repeat([]byte{'d'}, n), 0, false) }})
			}
		}
		if dir == 0 {
			for _, n := range []int{20000, 40000} {
				n := n
				evs = append(evs, event{fmt.Sprintf("C:HEADERS-%d(new stream)", n), func() {
					y.c.sendHeaders(nstream, append(reqHeaders("/n"), hpack.HeaderField{Name: "x-big", Value: strings.Repeat("~", n)}), false, http2.PriorityParam{StreamDep: 1, Weight: 3}, 16000)
					nstream += 2
				}})
			}
		} else {
			// (golang.org/x/net/http2.Framer does not accept CONTINUATION after PUSH_PROMISE on its read side,
			// so a promise larger than one frame cannot reach the relay at all: out of domain)
			evs = append(evs, event{"S:PUSH_PROMISE-12000", func() {
				y.s.sendPushPromise(1, 2*nstream, append(reqHeaders("/p"), hpack.HeaderField{Name: "x-big", Value: strings.Repeat("~", 12000)}), 0)
				nstream++
			}})
		}
		evs = append(evs, event{"B:WU(s1,40000)", func() { b.sendWU(1, 40000) }})
		ev := evs[x.ChooseFree(fmt.Sprintf("event%d", step), len(evs))]
		hist += ev.name + " "
		x.Logf("%s", ev.name)
		ev.do()
		if !y.oracle(hist) {
			return
		}
	}
	x.Outcome(fmt.Sprintf("dir%d iws%d max=%d/%d got=%d", dir, iws, a.maxFrame, b.maxFrame, b.gotConn))
}

// ---- family 3b: header blocks whose size is at the frame-size limit -----------------------------------------------

// headerBoundary: one header block whose encoded size sweeps, octet by octet, across the receiver's
// SETTINGS_MAX_FRAME_SIZE (16384): 16384-150 ... 16384+10 octets of literal value plus the rest of the list,
// with and without priority fields, as a request (client) or a response (server). The relay must cut it into
// HEADERS + CONTINUATION frames none of which exceeds the limit, and the receiver must decode the same list.
func headerBoundary(x *explore.X) {
	y := newSys(x)
	defer y.stop()
	n := 16384 - 150 + x.ChooseFree("value-length-16234+", 161)
	prio := x.ChooseFree("priority-fields", 2) == 1
	fromServer := x.ChooseFree("sender", 2) == 1
	// h2 debug logging (Config.EnableDebugLogs) prints every header list: what is printed must not become what is sent
	y.dbg = x.ChooseFree("debug-logs", 2) == 1
	val := strings.Repeat("~", n)
	pp := http2.PriorityParam{}
	if prio {
		pp = http2.PriorityParam{StreamDep: 0, Weight: 7, Exclusive: false}
		pp.StreamDep = 3
	}
	if fromServer {
		y.c.sendHeaders(1, reqHeaders("/1"), false, http2.PriorityParam{}, 0)
		if !y.oracle("setup") {
			return
		}
		y.s.sendHeaders(1, append(hdr(":status", "200"), hpack.HeaderField{Name: "x-big", Value: val}), false, http2.PriorityParam{}, 16000)
	} else {
		y.c.sendHeaders(1, append(reqHeaders("/b"), hpack.HeaderField{Name: "x-big", Value: val}), false, pp, 16000)
	}
	ev := fmt.Sprintf("HEADERS with a %d-octet value (priority fields: %v, from the server: %v, debug logs: %v)", n, prio, fromServer, y.dbg)
	if !y.oracle(ev) {
		return
	}
	a, b := y.c, y.s
	if fromServer {
		a, b = y.s, y.c
	}
	if d := prefixDiff(a.sentEl[1], b.gotEl[1]); d != "" || len(a.sentEl[1]) != len(b.gotEl[1]) {
		x.Failf("not-delivered", "after %s: emitted %s, decoded %s", ev, clipEls(a.sentEl[1]), clipEls(b.gotEl[1]))
		return
	}
	x.Outcome(fmt.Sprintf("prio=%v server=%v frames=%d", prio, fromServer, len(b.recv)))
}

func runBubble(t *testing.T, f func(x *explore.X)) func(x *explore.X) {
	return func(x *explore.X) { bubble.Run(t, x, func() { f(x) }) }
}

func testH2(t *testing.T, prop string) {
	focus = prop
	var s *explore.Suite
	if prop == "C09" {
		s = explore.NewSuite(t, "C09", "model_checking",
			"a real relay pair (newRelay x2, relayFrames running) between two raw-frame endpoints on simulated pipes; (flow) receiver window w in {8,16} x data direction x connection window {ample, w+4 left} then EVERY sequence of depth 3 (quick; depth 4 for the 8-octet window with both connection-window set-ups) / 5 (thorough) over the menu {DATA sizes 3/w/w+1 on 2 streams, padded DATA, empty and non-empty END_STREAM DATA, RST, trailers, WINDOW_UPDATE stream/connection by 1/w, SETTINGS_INITIAL_WINDOW_SIZE down (w/2, 0) and up (2w)} with explicit-state dedupe on (relay windows and queues, receiver ledger); (stalled-receiver) the receiver stops reading before step k (every k) and the relay's output channel towards it is filled, then EVERY sequence of the remaining events of a depth-3 (quick) / 4 (thorough) sequence over an 11-event menu arrives while emissions wait for room, then the receiver reads on; (header-block-at-frame-size-limit) one header block whose literal value grows octet by octet from 16234 to 16394 octets (across MAX_FRAME_SIZE 16384) x {with, without priority fields} x {request, response}; (frame-size) SETTINGS_MAX_FRAME_SIZE changes of both endpoints x DATA of 16384..40000 octets x header blocks of 20000/40000 octets x PUSH_PROMISE, depth 3/4; oracles at every quiescent state: every DATA frame fits the credit its receiver had granted on stream and connection, no frame exceeds the receiver's MAX_FRAME_SIZE, WINDOW_UPDATEs returned to a sender = flow-controlled octets (incl. padding) it sent on stream and connection, no queued frame that fits is held back; (config-proxy, round 9) the REAL entry point Config.Proxy (connection preface, TLS dial of the origin through a build-time seam, wiring of the relays) between a raw client and a raw TLS origin: client SETTINGS {none, INITIAL_WINDOW_SIZE 8 / 1000} x {MAX_FRAME_SIZE none / 20000} x {connection WINDOW_UPDATE none / 100000} x first-flight segmentation(6: every piece its own segment, preface | rest, preface+SETTINGS | rest, all in one segment, no waiting, the preface itself in two segments) then EVERY sequence of 2 (quick) / 3 (thorough) events out of 7 (DATA both ways, WINDOW_UPDATE, SETTINGS, an 18000-octet DATA frame, a pause of two minutes), the same ledger / frame-size / fidelity oracles plus final delivery once both receivers open their windows wide; (through-martian) the same through martian.Proxy: CONNECT intercepted (handleMITM), ALPN h2, idle timeout 30 s configured, client window {default, 8} x segmentation {pieces, one segment} x the same event sequences")
	} else {
		s = explore.NewSuite(t, "C10", "model_checking",
			"a real relay pair between two raw-frame endpoints with their own HPACK state; (fidelity) EVERY sequence of depth 3 (quick) / 4 (thorough) over a menu of ~25-40 enabled events on 2 streams in both directions {HEADERS plain / with priority / END_STREAM / split by the sender into HEADERS+CONTINUATION at several points / 20000-octet block, DATA small / padded / 20000 octets / empty END_STREAM, trailers (+CONTINUATION), RST_STREAM, PUSH_PROMISE, PRIORITY, PING, SETTINGS incl. HEADER_TABLE_SIZE 0/4096, SETTINGS ack, GOAWAY}; (stalled-fidelity) one endpoint stops reading before step k (every k), then EVERY sequence of the remaining events of a depth-3 (quick) / 4 (thorough) sequence over {20000-octet header blocks / trailers towards it, DATA both ways, PING, SETTINGS, WINDOW_UPDATE} arrives while the relay's writes to it are blocked, then it reads on: header blocks must arrive contiguous and everything decodes as sent; (flow) the flow family of C09 (w in {8,16} x direction x connection window {ample, w+4 left}, EVERY sequence of depth 3 quick - depth 4 for the 8-octet window - / 5 thorough, the visiting order of the per-stream queues explored) with its no-stranding and final-delivery oracles; (frame-size) the frame-size family of C09 (endpoints announcing different SETTINGS_MAX_FRAME_SIZE, header blocks of 20000/40000 octets, PUSH_PROMISE, large DATA; depth 3/4): a frame larger than any limit its receiver ever announced cannot be decoded by a conforming receiver; at every quiescent state the receiver's decoded element sequence per stream (header lists, concatenated DATA, END_STREAM position, RST code, PUSH_PROMISE) must be a prefix of what the sender emitted, connection-level frames must be relayed in order, and at the end everything emitted must have been decoded; (config-proxy, round 9) the REAL entry point Config.Proxy (connection preface, TLS dial of the origin through a build-time seam, wiring of the relays) between a raw client and a raw TLS origin: client SETTINGS {none, INITIAL_WINDOW_SIZE 8 / 1000} x {MAX_FRAME_SIZE none / 20000} x {connection WINDOW_UPDATE none / 100000} x first-flight segmentation(6: every piece its own segment, preface | rest, preface+SETTINGS | rest, all in one segment, no waiting, the preface itself in two segments) then EVERY sequence of 2 (quick) / 3 (thorough) events out of 7 (DATA both ways, WINDOW_UPDATE, SETTINGS, an 18000-octet DATA frame, a pause of two minutes), the same ledger / frame-size / fidelity oracles plus final delivery once both receivers open their windows wide; (through-martian) the same through martian.Proxy: CONNECT intercepted (handleMITM), ALPN h2, idle timeout 30 s configured, client window {default, 8} x segmentation {pieces, one segment} x the same event sequences")
	}
	s.Assume = []string{"the iteration order of the relay's per-stream queue map (Go leaves it unspecified) is owned by the harness through a build-time rewrite of the range statement: every rotation of the sorted stream ids is an explored choice", "the harness copies the relay wiring of Config.Proxy (which dials TLS itself and cannot run on the simulated network); the connection preface is outside the harness", "golang.org/x/net/http2.Framer and hpack are the endpoints' codecs", "(relay-interleavings) sync.Mutex / atomics / go statements of relay.go are redirected at build time to a cooperative scheduler: processFrame(client frames) || processFrame(server frames) || the two frame writers run as four scheduler threads over pre-loaded frames, all interleavings with at most 1 (quick) / 2 (thorough) preemptions; in the other families events are separated by quiescence"}
	q, th := 3, 5
	if v := os.Getenv("VERIF_H2_DEPTH"); v != "" {
		fmt.Sscan(v, &q)
		th = q
	}
	// the real entry point Config.Proxy (preface, first flight, TLS dial through the seam), both properties; registered
	// first so that the thorough tier's time limit never cuts it
	s.Add(explore.Scenario{Name: "config-proxy-quick", Remote: true, Tiers: []string{"quick"}, Run: runBubble(t, func(x *explore.X) { proxyEntryScenario(x, 2) })})
	s.Add(explore.Scenario{Name: "through-martian-quick", Remote: true, Tiers: []string{"quick"}, Run: runBubble(t, func(x *explore.X) { entryScenario(x, 2, true) })})
	s.Add(explore.Scenario{Name: "through-martian-thorough", Remote: true, Tiers: []string{"thorough"}, Run: runBubble(t, func(x *explore.X) { entryScenario(x, 3, true) })})
	s.Add(explore.Scenario{Name: "config-proxy-thorough", Remote: true, Tiers: []string{"thorough"}, Run: runBubble(t, func(x *explore.X) { proxyEntryScenario(x, 3) })})
	if prop == "C09" {
		s.Add(explore.Scenario{Name: "flow-quick", Remote: true, Tiers: []string{"quick"}, Run: runBubble(t, func(x *explore.X) { flowScenario(x, q) })})
		s.Add(explore.Scenario{Name: "flow-quick-deep", Remote: true, Tiers: []string{"quick"}, Run: runBubble(t, func(x *explore.X) { flowScenarioCfg(x, q+1, true) })})
		s.Add(explore.Scenario{Name: "stalled-receiver-quick", Remote: true, Tiers: []string{"quick"}, Run: runBubble(t, func(x *explore.X) { stalledScenario(x, 3) })})
		s.Add(explore.Scenario{Name: "stalled-receiver-thorough", Remote: true, Tiers: []string{"thorough"}, Run: runBubble(t, func(x *explore.X) { stalledScenario(x, 4) })})
		s.Add(explore.Scenario{Name: "relay-interleavings", Remote: true, MaxDev: map[string]int{"quick": 1, "thorough": 2}, Run: func(x *explore.X) { schedScenario(t, x) }})
		s.Add(explore.Scenario{Name: "frame-size-quick", Remote: true, Tiers: []string{"quick"}, Run: runBubble(t, func(x *explore.X) { frameSizeScenario(x, 3) })})
		s.Add(explore.Scenario{Name: "frame-size-thorough", Remote: true, Tiers: []string{"thorough"}, Run: runBubble(t, func(x *explore.X) { frameSizeScenario(x, 4) })})
		s.Add(explore.Scenario{Name: "header-block-at-frame-size-limit", Remote: true, Run: runBubble(t, headerBoundary)})
		s.Add(explore.Scenario{Name: "flow-thorough-one-step-less", Remote: true, Tiers: []string{"thorough"}, Run: runBubble(t, func(x *explore.X) { flowScenario(x, th-1) })})
		s.Add(explore.Scenario{Name: "flow-thorough", Remote: true, Tiers: []string{"thorough"}, Run: runBubble(t, func(x *explore.X) { flowScenario(x, th) })})
	} else {
		s.Add(explore.Scenario{Name: "relay-interleavings", Remote: true, MaxDev: map[string]int{"quick": 1, "thorough": 2}, Run: func(x *explore.X) { schedScenario(t, x) }})
		s.Add(explore.Scenario{Name: "fidelity-quick", Remote: true, Tiers: []string{"quick"}, Run: runBubble(t, func(x *explore.X) { fidelityScenario(x, 3) })})
		s.Add(explore.Scenario{Name: "fidelity-thorough", Remote: true, Tiers: []string{"thorough"}, Run: runBubble(t, func(x *explore.X) { fidelityScenario(x, 4) })})
		s.Add(explore.Scenario{Name: "stalled-fidelity-quick", Remote: true, Tiers: []string{"quick"}, Run: runBubble(t, func(x *explore.X) { stalledFidelity(x, 3) })})
		s.Add(explore.Scenario{Name: "stalled-fidelity-thorough", Remote: true, Tiers: []string{"thorough"}, Run: runBubble(t, func(x *explore.X) { stalledFidelity(x, 4) })})
		s.Add(explore.Scenario{Name: "flow-quick", Remote: true, Tiers: []string{"quick"}, Run: runBubble(t, func(x *explore.X) { flowScenario(x, q) })})
		s.Add(explore.Scenario{Name: "flow-quick-deep", Remote: true, Tiers: []string{"quick"}, Run: runBubble(t, func(x *explore.X) { flowScenarioCfg(x, q+1, true) })})
		s.Add(explore.Scenario{Name: "frame-size-quick", Remote: true, Tiers: []string{"quick"}, Run: runBubble(t, func(x *explore.X) { frameSizeScenario(x, 3) })})
		s.Add(explore.Scenario{Name: "frame-size-thorough", Remote: true, Tiers: []string{"thorough"}, Run: runBubble(t, func(x *explore.X) { frameSizeScenario(x, 4) })})
		s.Add(explore.Scenario{Name: "header-block-at-frame-size-limit", Remote: true, Run: runBubble(t, headerBoundary)})
		s.Add(explore.Scenario{Name: "stalled-receiver-quick", Remote: true, Tiers: []string{"quick"}, Run: runBubble(t, func(x *explore.X) { stalledScenario(x, 3) })})
		s.Add(explore.Scenario{Name: "stalled-receiver-thorough", Remote: true, Tiers: []string{"thorough"}, Run: runBubble(t, func(x *explore.X) { stalledScenario(x, 4) })})
		s.Add(explore.Scenario{Name: "flow-thorough-one-step-less", Remote: true, Tiers: []string{"thorough"}, Run: runBubble(t, func(x *explore.X) { flowScenario(x, th-1) })})
		s.Add(explore.Scenario{Name: "flow-thorough", Remote: true, Tiers: []string{"thorough"}, Run: runBubble(t, func(x *explore.X) { flowScenario(x, th) })})
	}
	s.Main()
}

func TestC09(t *testing.T) { testH2(t, "C09") }
func TestC10(t *testing.T) { testH2(t, "C10") }

var _ = net.IPv4
