// C09 + C10, family "config-proxy": the REAL entry point Config.Proxy - connection preface, TLS dial of the origin
// (through the build-time seam verifTLSDial), wiring of the two relays - between a raw-frame client and a raw-frame
// TLS origin on the simulated network. The other families wire the relay pair themselves and never see the preface
// or the first flight; here the client's first flight (preface, SETTINGS, WINDOW_UPDATE, HEADERS) is cut into
// segments in every way of a small menu, the settings it announces are a dimension, and every sequence of further
// events of a small menu follows. Oracles: the same ledger / frame-size / fidelity oracles as everywhere, plus final
// delivery (once both receivers have opened their windows wide everything emitted has arrived).
package h2

import (
	"context"
	"crypto/ecdsa"
	"crypto/elliptic"
	"crypto/rand"
	"crypto/tls"
	"crypto/x509"
	"crypto/x509/pkix"
	"errors"
	"fmt"
	"io"
	"math/big"
	"net"
	"net/url"
	"os"
	"reflect"
	"sync"
	"sync/atomic"
	"testing/synctest"
	"time"

	"github.com/saucelabs/forwarder/internal/zzverif/bubble"
	"github.com/saucelabs/forwarder/internal/zzverif/explore"
	"github.com/saucelabs/forwarder/internal/zzverif/simnet"
	"golang.org/x/net/http2"
)

type entryPKI struct {
	roots *x509.CertPool
	leaf  tls.Certificate
}

// one throw-away CA and a leaf for *.h2origin.test per process (validity spans the virtual clock's epoch)
var entryPKIOnce = sync.OnceValue(func() *entryPKI {
	caKey, _ := ecdsa.GenerateKey(elliptic.P256(), rand.Reader)
	nb, na := time.Date(1990, 1, 1, 0, 0, 0, 0, time.UTC), time.Date(2100, 1, 1, 0, 0, 0, 0, time.UTC)
	caT := &x509.Certificate{SerialNumber: big.NewInt(1), Subject: pkix.Name{CommonName: "verif h2 CA"}, NotBefore: nb, NotAfter: na,
		IsCA: true, BasicConstraintsValid: true, KeyUsage: x509.KeyUsageCertSign}
	caDER, _ := x509.CreateCertificate(rand.Reader, caT, caT, &caKey.PublicKey, caKey)
	ca, _ := x509.ParseCertificate(caDER)
	key, _ := ecdsa.GenerateKey(elliptic.P256(), rand.Reader)
	lt := &x509.Certificate{SerialNumber: big.NewInt(2), Subject: pkix.Name{CommonName: "origin"}, NotBefore: nb, NotAfter: na,
		DNSNames: []string{"*.h2origin.test"}, KeyUsage: x509.KeyUsageDigitalSignature, ExtKeyUsage: []x509.ExtKeyUsage{x509.ExtKeyUsageServerAuth}}
	der, _ := x509.CreateCertificate(rand.Reader, lt, ca, &key.PublicKey, caKey)
	p := &entryPKI{roots: x509.NewCertPool(), leaf: tls.Certificate{Certificate: [][]byte{der}, PrivateKey: key}}
	p.roots.AddCert(ca)
	return p
})

var (
	entryNets sync.Map // "oN.h2origin.test:443" -> *simnet.Net of the execution that owns the name
	entrySeq  atomic.Int64
)

func init() {
	VerifTLSDial = func(network, addr string, cfg *tls.Config) (*tls.Conn, error) {
		v, ok := entryNets.Load(addr)
		if !ok {
			return nil, errors.New("verif: no simulated network owns " + addr)
		}
		c, err := v.(*simnet.Net).Dial(context.Background(), network, addr)
		if err != nil {
			return nil, err
		}
		if cfg == nil {
			cfg = &tls.Config{}
		}
		if cfg.ServerName == "" { // as tls.Dial does
			host, _, _ := net.SplitHostPort(addr)
			cfg = cfg.Clone()
			cfg.ServerName = host
		}
		tc := tls.Client(c, cfg)
		if err := tc.Handshake(); err != nil {
			c.Close()
			return nil, err
		}
		return tc, nil
	}
}

// coalescer lets the scripted client decide where its first flight is cut into segments.
type coalescer struct {
	net.Conn
	hold bool
	buf  []byte
}

func (c *coalescer) Write(p []byte) (int, error) {
	if c.hold {
		c.buf = append(c.buf, p...)
		return len(p), nil
	}
	return c.Conn.Write(p)
}

// prefaceStripper: the origin consumes the 24 octets of the client connection preface (and insists on them) before
// it reads frames.
type prefaceStripper struct {
	net.Conn
	done bool
}

func (p *prefaceStripper) Read(b []byte) (int, error) {
	if !p.done {
		got := make([]byte, len(connectionPreface))
		if _, err := io.ReadFull(p.Conn, got); err != nil {
			return 0, err
		}
		if string(got) != string(connectionPreface) {
			return 0, fmt.Errorf("the origin did not receive the connection preface first but %q", got)
		}
		p.done = true
	}
	return p.Conn.Read(b)
}

func (c *coalescer) flush() {
	if len(c.buf) > 0 {
		b := c.buf
		c.buf = nil
		c.Conn.Write(b)
	}
}

// VerifMartianSession is set by the external test package (c10m_test.go, package h2_test, which may import martian):
// it serves an intercepting martian.Proxy with HTTP/2 relaying enabled on nw, sends a CONNECT for host through it,
// completes the TLS handshake with the interceptor (ALPN h2) and returns the client's end of that session.
var VerifMartianSession func(nw *simnet.Net, host string, roots *x509.CertPool, idleTimeout time.Duration) (net.Conn, func(), error)

func proxyEntryScenario(x *explore.X, depth int) { entryScenario(x, depth, false) }

// entryScenario: viaMartian = the session runs through martian.Proxy's CONNECT interception (handleMITM hands the
// decrypted connection to Config.Proxy) with an idle timeout of 30 s configured - which limits the wait for the NEXT
// REQUEST of an HTTP/1 session and has no say in how long an HTTP/2 session may be quiet.
func entryScenario(x *explore.X, depth int, viaMartian bool) {
	pki := entryPKIOnce()
	nw := simnet.New()
	host := fmt.Sprintf("o%d.h2origin.test:443", entrySeq.Add(1))
	entryNets.Store(host, nw)
	defer entryNets.Delete(host)
	ls, _ := nw.Listen(host)
	y := &sys{x: x, net: nw, closing: make(chan bool), focus: focus, noRelayLoops: true}
	proxyDone := make(chan error, 1)
	var cEnd net.Conn
	var stopMartian func()
	if !viaMartian {
		lc, _ := nw.Listen("relay-c.test:1")
		ce, _ := nw.DialFrom("client.test", "relay-c.test:1")
		cEnd = ce
		cc := lc.TryAccept()
		lc.Close()
		u, _ := url.Parse("https://" + host)
		cfg := &Config{RootCAs: pki.roots, AllowedHostsFilter: func(string) bool { return true }}
		go func() { proxyDone <- cfg.Proxy(y.closing, cc, u) }()
	} else {
		proxyDone <- nil
	}

	// the origin: accept, TLS handshake (ALPN h2), then a raw-frame endpoint
	var sconn *tls.Conn
	var hsErr error
	hsDone := make(chan struct{})
	go func() {
		defer close(hsDone)
		c, err := ls.Accept()
		if err != nil {
			hsErr = err
			return
		}
		sconn = tls.Server(c, &tls.Config{Certificates: []tls.Certificate{pki.leaf}, NextProtos: []string{"h2"}})
		hsErr = sconn.Handshake()
	}()
	if viaMartian {
		if VerifMartianSession == nil {
			x.Failf("harness/no-martian-session", "the external test package did not register VerifMartianSession")
			return
		}
		c, stop, err := VerifMartianSession(nw, host, pki.roots, 30*time.Second)
		if err != nil {
			x.Failf("harness/martian-session", "%v", err)
			return
		}
		cEnd, stopMartian = c, stop
	}
	synctest.Wait()
	select {
	case <-hsDone:
	default:
		x.Failf("harness/origin-not-dialled", "Config.Proxy did not dial and shake hands with the origin %s", host)
		return
	}
	if hsErr != nil {
		x.Failf("harness/origin-handshake", "origin handshake: %v", hsErr)
		return
	}
	ls.Close()
	cw := &coalescer{Conn: cEnd}
	y.c, y.s = newEpRW("client", cw), newEpRW("server", &prefaceStripper{Conn: sconn})
	defer func() {
		close(y.closing)
		cEnd.Close()
		sconn.Close()
		if stopMartian != nil {
			stopMartian()
		}
		synctest.Wait()
		for _, c := range nw.Conns() {
			c.Close()
		}
		<-proxyDone
		<-y.c.done
		<-y.s.done
		if l := bubble.Leaks(); l != "" {
			x.Failf("goroutine-leak", "%s", l)
		}
	}()

	// ---- the first flight -------------------------------------------------------------------------------
	iws, mfs, connWU := -1, -1, 0
	if viaMartian {
		iws = []int{-1, 8}[x.ChooseFree("client-initial-window", 2)]
	} else {
		iws = []int{-1, 8, 1000}[x.ChooseFree("client-initial-window", 3)]
		mfs = []int{-1, 20000}[x.ChooseFree("client-max-frame-size", 2)]
		connWU = []int{0, 100000}[x.ChooseFree("client-connection-window-update", 2)]
	}
	// where the flight is cut: 0 every piece its own segment with quiescence in between; 1 preface | rest;
	// 2 preface+SETTINGS | rest; 3 everything in one segment; 4 every piece its own segment, no waiting in between
	cut := 0
	if viaMartian {
		cut = []int{0, 3}[x.ChooseFree("first-flight-segmentation", 2)]
	} else {
		cut = x.ChooseFree("first-flight-segmentation", 6) // 5: as 0, and the 24 octets of the preface themselves arrive in two segments
	}
	var ss []http2.Setting
	if iws >= 0 {
		ss = append(ss, http2.Setting{ID: http2.SettingInitialWindowSize, Val: uint32(iws)})
	}
	if mfs >= 0 {
		ss = append(ss, http2.Setting{ID: http2.SettingMaxFrameSize, Val: uint32(mfs)})
	}
	pieces := []func(){
		func() {
			if cut == 5 {
				cw.Write(connectionPreface[:12])
				synctest.Wait()
				cw.Write(connectionPreface[12:])
				return
			}
			cw.Write(connectionPreface)
		},
		func() { y.c.sendSettings(ss...) },
		func() {
			if connWU > 0 {
				y.c.sendWU(0, connWU)
			}
		},
		func() { y.c.sendHeaders(1, reqHeaders("/1"), false, http2.PriorityParam{}, 0) },
	}
	for i, p := range pieces {
		switch cut {
		case 0, 5:
			p()
			synctest.Wait()
		case 1:
			cw.hold = i >= 1
			p()
			if i == 0 {
				synctest.Wait()
			}
		case 2:
			cw.hold = true
			p()
			if i == 1 {
				cw.flush()
				synctest.Wait()
			}
		case 3:
			cw.hold = true
			p()
		case 4:
			p()
		}
	}
	cw.hold = false
	cw.flush()
	// the origin's side of the handshake
	y.s.sendSettings()
	synctest.Wait()
	y.s.sendSettingsAck()
	y.c.sendSettingsAck()
	if os.Getenv("VERIF_DEBUG_ENTRY") != "" {
		synctest.Wait()
		y.s.mu.Lock()
		x.Logf("debug: server recv=%d readErr=%v; client recv=%d readErr=%v", len(y.s.recv), y.s.readErr, len(y.c.recv), y.c.readErr)
		y.s.mu.Unlock()
		for _, c := range nw.Conns() {
			x.Logf("debug: conn %v", c)
		}
	}
	if !y.oracle(fmt.Sprintf("first flight (cut %d)", cut)) {
		return
	}
	select {
	case err := <-proxyDone:
		proxyDone <- err
		if viaMartian {
			break // (nothing was started here: the interceptor runs Config.Proxy)
		}
		x.Failf("relay-terminated", "Config.Proxy returned after the first flight (cut %d): %v", cut, err)
		return
	default:
	}
	y.s.sendHeaders(1, hdr(":status", "200"), false, http2.PriorityParam{}, 0)
	if !y.oracle("response headers") {
		return
	}

	// ---- every sequence of further events ---------------------------------------------------------------
	type event struct {
		name string
		do   func()
	}
	hist := ""
	for step := 0; step < depth; step++ {
		evs := []event{
			{"S:DATA(s1,20)", func() { y.s.sendData(1, []byte("ssssssssssssssssssss"), 0, false) }},
			{"S:DATA(s1,5)", func() { y.s.sendData(1, []byte("sssss"), 0, false) }},
			{"C:DATA(s1,20)", func() { y.c.sendData(1, []byte("cccccccccccccccccccc"), 0, false) }},
			{"C:WU(s1,20)", func() { y.c.sendWU(1, 20) }},
			{"C:SETTINGS(IWS=16)", func() { y.c.sendSettings(http2.Setting{ID: http2.SettingInitialWindowSize, Val: 16}) }},
			{"S:DATA(s1,18000)", func() {
				if y.c.streamWin(1) >= 18000 { // a conforming origin sends what the client's window, which it was told, allows
					y.s.sendData(1, make([]byte, 18000), 0, false)
				} else {
					y.s.sendPing(false, 7)
				}
			}},
			{"pause(2m)", func() { time.Sleep(2 * time.Minute) }},
		}
		ev := evs[x.ChooseFree(fmt.Sprintf("event%d", step), len(evs))]
		hist += ev.name + " "
		x.Logf("%s", ev.name)
		ev.do()
		if !y.oracle(hist) {
			return
		}
	}
	// ---- final delivery ---------------------------------------------------------------------------------
	for _, e := range []*ep{y.c, y.s} {
		e.sendWU(0, 1<<20)
		e.sendWU(1, 1<<20)
	}
	if !y.oracle(hist + "windows opened wide") {
		return
	}
	for _, e := range []*ep{y.c, y.s} {
		snd := y.other(e)
		if focus == "C10" && !reflect.DeepEqual(e.gotEl[1], snd.sentEl[1]) {
			x.Failf("not-delivered", "after %s and both receivers opening their windows wide, stream 1 towards %s:\n  sender emitted: %s\n  receiver decoded: %s", hist, e.name, clipEls(snd.sentEl[1]), clipEls(e.gotEl[1]))
			return
		}
		if focus == "C09" && (snd.backConn != snd.sentConn || snd.backStrm[1] != snd.sentStrm[1]) {
			x.Failf("credit-not-returned/final", "after %s: %s sent %d flow-controlled octets, credited back: %d on the connection, %d on stream 1", hist, snd.name, snd.sentConn, snd.backConn, snd.backStrm[1])
			return
		}
	}
	x.Outcome(fmt.Sprintf("iws%d mfs%d wu%d cut%d c-got=%d s-got=%d", iws, mfs, connWU, cut, y.c.gotConn, y.s.gotConn))
}
