//go:build verif_no_t

package h2

import (
	"testing"

	"github.com/saucelabs/forwarder/internal/zzverif/explore"
)

// schedScenario (stub): the Engine T scenario does not build against this tree (unexported names it relies
// on have changed); the other families still decide the property.
func schedScenario(t *testing.T, x *explore.X) {
	x.Logf("relay-interleavings skipped: the thread-level harness does not build against this tree")
	x.Outcome("skipped")
}
