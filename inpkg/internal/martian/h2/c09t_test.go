//go:build !verif_no_t

// The Engine T scenario of the h2 relay lives in its own file because it re-creates the writer loop of
// relayFrames thread by thread and therefore names unexported fields (output, destMu, dest, src). When a
// refactoring renames them the check is rebuilt with the tag verif_no_t (see ./check): the scenario is then
// reported as skipped instead of making the whole check unbuildable.
package h2

import (
	"fmt"
	"testing"
	"time"

	"github.com/saucelabs/forwarder/internal/zzverif/explore"
	"github.com/saucelabs/forwarder/internal/zzverif/tsched"
	"github.com/saucelabs/forwarder/internal/zzverif/vsync"
	"golang.org/x/net/http2"
)

// ---- family 4 (Engine T): the two relays under a controlled scheduler ----------------------------------------

// schedScenario: the frames of both endpoints are already in the sockets. Four scheduler threads run
// processFrame(client frames) on the client-to-server relay, processFrame(server frames) on the
// server-to-client relay, and one writer per relay (the loop relayFrames runs: take a queued frame, lock the
// destination, send it). Every interleaving of their lock / atomic / channel hand-over operations within the
// preemption bound is explored; when all frames are processed and written every oracle of the property runs.
func schedScenario(t *testing.T, x *explore.X) {
	variant := x.ChooseFree("server-frames", 4)
	w := 8
	var y *sys
	var perr [2]error
	tsched.Run(t, x, time.Second, true, func() {
		y = buildSys(x, true)
		for i := range y.relayDone {
			y.relayDone[i] = make(chan struct{})
		}
		// server: small window, then credit arriving while the client's DATA is being queued
		y.s.sendSettings(http2.Setting{ID: http2.SettingInitialWindowSize, Val: uint32(w)})
		y.c.sendHeaders(1, reqHeaders("/1"), false, http2.PriorityParam{}, 0)
		y.c.sendData(1, []byte("12345678"), 0, false)
		y.c.sendData(1, []byte("abcdefgh"), 0, false)
		nServer := 2
		switch variant {
		case 0:
			y.s.sendWU(1, w)
		case 1:
			y.s.sendWU(1, w)
			y.s.sendWU(0, w)
			nServer = 3
		case 2:
			y.s.sendSettings(http2.Setting{ID: http2.SettingInitialWindowSize, Val: uint32(2 * w)})
		case 3:
			y.s.sendSettings(http2.Setting{ID: http2.SettingInitialWindowSize, Val: uint32(w / 2)})
			y.s.sendWU(1, 2*w)
			nServer = 3
		}
		y.c.sendData(1, nil, 0, true)
		for i, spec := range []struct {
			r *relay
			n int
		}{{y.cToS, 4}, {y.sToC, nServer}} {
			i, r, n := i, spec.r, spec.n
			vsync.GoNamed([]string{"process-client-frames", "process-server-frames"}[i], func() {
				for k := 0; k < n; k++ {
					f, err := r.src.ReadFrame()
					if err == nil {
						err = r.processFrame(f)
					}
					if err != nil {
						perr[i] = err
						return
					}
				}
			})
			vsync.GoNamed([]string{"writer-to-server", "writer-to-client"}[i], func() {
				for {
					select {
					case f := <-r.output:
						vsync.Point("writer: frame taken from the output channel")
						r.destMu.Lock()
						err := f.send(r.dest)
						r.destMu.Unlock()
						if err != nil {
							perr[i] = err
							return
						}
					case <-y.closing:
						return
					}
				}
			})
		}
	}, func(s *vsync.Scheduler) {
		for i, e := range perr {
			if e != nil {
				x.Failf("relay-terminated", "variant %d: thread of relay %d failed: %v\n  schedule: %v", variant, i, e, s.Trace)
			}
		}
		if !x.Failed() && y.oracleNoRelayCheck(fmt.Sprintf("scheduled run (variant %d): %v", variant, s.Trace)) && y.focus == "C10" {
			// everything the windows permit has arrived: with the credit of the variant all 16 octets and END_STREAM
			want, got := y.c.sentEl[1], y.s.gotEl[1]
			if len(got) != len(want) || prefixDiff(got, want) != "" {
				x.Failf("not-delivered", "variant %d: client emitted %s, server decoded %s\n  schedule: %v", variant, clipEls(want), clipEls(got), s.Trace)
			}
		}
		x.Outcome(fmt.Sprintf("sched v%d preemptions=%d", variant, s.Preempt))
		close(y.relayDone[0])
		close(y.relayDone[1])
		y.stop()
	})
}

