//go:build verif

package h2

import "crypto/tls"

// VerifTLSDial, when set, replaces tls.Dial in Config.Proxy (the call is redirected to verifTLSDial by the
// build-time rewrite in tools/rewrite.sh; without a harness it is tls.Dial).
var VerifTLSDial func(network, addr string, cfg *tls.Config) (*tls.Conn, error)

func verifTLSDial(network, addr string, cfg *tls.Config) (*tls.Conn, error) {
	if VerifTLSDial != nil {
		return VerifTLSDial(network, addr, cfg)
	}
	return tls.Dial(network, addr, cfg)
}
