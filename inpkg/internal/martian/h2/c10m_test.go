// C09 + C10, family "through-martian": the HTTP/2 relay as martian.Proxy reaches it - a CONNECT that is intercepted
// (handleMITM), ALPN h2 negotiated with the client, the decrypted connection handed to h2.Config.Proxy. This file is
// in the external test package (it imports martian, which imports h2); it registers the session constructor the
// scenarios of package h2 use (c09p_test.go).
package h2_test

import (
	"bufio"
	"crypto/tls"
	"crypto/x509"
	"fmt"
	"net"
	"net/http"
	"time"

	"github.com/saucelabs/forwarder/internal/martian"
	"github.com/saucelabs/forwarder/internal/martian/h2"
	"github.com/saucelabs/forwarder/internal/martian/mitm"
	"github.com/saucelabs/forwarder/internal/zzverif/simnet"
)

func init() {
	h2.VerifMartianSession = func(nw *simnet.Net, host string, roots *x509.CertPool, idleTimeout time.Duration) (net.Conn, func(), error) {
		ca, key, err := mitm.NewAuthority("verif interceptor", "verif", 24*time.Hour)
		if err != nil {
			return nil, nil, err
		}
		mc, err := mitm.NewConfig(ca, key)
		if err != nil {
			return nil, nil, err
		}
		mc.SetValidity(time.Hour)
		mc.SetH2Config(&h2.Config{AllowedHostsFilter: func(string) bool { return true }, RootCAs: roots})
		p := &martian.Proxy{
			MITMConfig:  mc,
			IdleTimeout: idleTimeout,
			RoundTripper: &http.Transport{
				DialContext:     nw.Dial,
				TLSClientConfig: &tls.Config{RootCAs: roots},
			},
		}
		l, err := nw.Listen("mproxy.test:3128")
		if err != nil {
			return nil, nil, err
		}
		served := make(chan struct{})
		go func() { defer close(served); p.Serve(l) }()
		stop := func() {
			l.Close()
			p.Close()
			<-served
		}
		c, err := nw.DialFrom("client.test", "mproxy.test:3128")
		if err != nil {
			stop()
			return nil, nil, err
		}
		fmt.Fprintf(c, "CONNECT %s HTTP/1.1\r\nHost: %s\r\n\r\n", host, host)
		res, err := http.ReadResponse(bufio.NewReaderSize(c, 1), &http.Request{Method: "CONNECT"})
		if err != nil || res.StatusCode != 200 {
			c.Close()
			stop()
			return nil, nil, fmt.Errorf("CONNECT through the intercepting proxy: %v %v", res, err)
		}
		pool := x509.NewCertPool()
		pool.AddCert(ca)
		sni, _, _ := net.SplitHostPort(host)
		tc := tls.Client(c, &tls.Config{RootCAs: pool, ServerName: sni, NextProtos: []string{"h2"}})
		if err := tc.Handshake(); err != nil {
			c.Close()
			stop()
			return nil, nil, fmt.Errorf("TLS handshake with the interceptor: %w", err)
		}
		if np := tc.ConnectionState().NegotiatedProtocol; np != "h2" {
			c.Close()
			stop()
			return nil, nil, fmt.Errorf("the interceptor negotiated %q, want h2", np)
		}
		return tc, stop, nil
	}
}
