// C14: PAC evaluation returns what the script specifies, also under concurrency.
// Engine E (in-package, so the DNS and interface seams of ProxyResolverConfig can be scripted):
// every helper x every argument tuple of its alphabet, every result type, every entry-point shape,
// generated decision-tree scripts x hosts, every result list up to 3 entries through pac.Proxies -
// all against a reference evaluator written here; plus concurrent evaluations through the pool
// with every release order of the blocked DNS lookups.
package pac

import (
	"context"
	"errors"
	"fmt"
	"net"
	"net/url"
	"sort"
	"strconv"
	"strings"
	"sync"
	"testing"
	"testing/synctest"
	"time"

	"github.com/saucelabs/forwarder/internal/zzverif/bubble"
	"github.com/saucelabs/forwarder/internal/zzverif/explore"
	"github.com/saucelabs/forwarder/internal/zzverif/tsched"
	"github.com/saucelabs/forwarder/internal/zzverif/vsync"
)

// ---- scripted environment -----------------------------------------------------------------------------

var dnsTable = map[string][]string{
	"a.b.test":    {"1.2.3.4"},
	"a":           {"10.0.0.7"},
	"multi.test":  {"9.9.9.9", "8.8.8.8", "2001:db8::9"},
	"v6only.test": {"2001:db8::1"},
	"1.2.3.4":     {"1.2.3.4"},
	"::1":         {"::1"},
}

func lookup(_ context.Context, network, host string) ([]net.IP, error) {
	var out []net.IP
	for _, s := range dnsTable[host] {
		ip := net.ParseIP(s)
		if network == "ip4" && ip.To4() == nil {
			continue
		}
		out = append(out, ip)
	}
	if len(out) == 0 {
		return nil, errors.New("no such host")
	}
	return out, nil
}

func jsStr(s string) string { return strconv.Quote(s) }

func newResolver(script string, myIP, myIPEx []net.IP, lk func(context.Context, string, string) ([]net.IP, error)) (*ProxyResolver, error) {
	if lk == nil {
		lk = lookup
	}
	if myIP == nil {
		myIP = []net.IP{}
	}
	if myIPEx == nil {
		myIPEx = []net.IP{}
	}
	return NewProxyResolver(&ProxyResolverConfig{Script: script, testingLookupIP: lk, testingMyIPAddress: myIP, testingMyIPAddressEx: myIPEx}, nil)
}

func evalExpr(expr string, myIP, myIPEx []net.IP) (string, error) {
	pr, err := newResolver("function FindProxyForURL(url, host) { var v = "+expr+"; return typeof v + ':' + String(v); }", myIP, myIPEx, nil)
	if err != nil {
		return "", err
	}
	return pr.FindProxyForURL(&url.URL{Scheme: "http", Host: "h.test", Path: "/"}, "")
}

// ---- reference helpers (Netscape text / Mozilla and Chromium behaviour on the agreed domain) -----------------

func refIsPlainHostName(h string) bool { return !strings.ContainsAny(h, ".:") }
func refDnsDomainIs(h, d string) bool  { return len(h) >= len(d) && strings.HasSuffix(h, d) }
func refLocalHostOrDomainIs(h, hd string) bool {
	return h == hd || strings.HasPrefix(hd, h+".")
}
func refDnsDomainLevels(h string) int { return strings.Count(h, ".") }

func refShExpMatch(s, p string) bool {
	// classic glob: '*' any run, '?' one character, everything else literal
	var m func(si, pi int) bool
	m = func(si, pi int) bool {
		for pi < len(p) {
			switch p[pi] {
			case '*':
				for k := si; k <= len(s); k++ {
					if m(k, pi+1) {
						return true
					}
				}
				return false
			case '?':
				if si >= len(s) {
					return false
				}
			default:
				if si >= len(s) || s[si] != p[pi] {
					return false
				}
			}
			si++
			pi++
		}
		return si == len(s)
	}
	return m(0, 0)
}

func refResolve4(h string) (string, bool) {
	if ip := net.ParseIP(h); ip != nil && ip.To4() != nil {
		return ip.String(), true
	}
	for _, s := range dnsTable[h] {
		if ip := net.ParseIP(s); ip.To4() != nil {
			return s, true
		}
	}
	return "", false
}

func refIsInNet(h, pat, mask string) bool {
	ip, ok := refResolve4(h)
	if !ok {
		return false
	}
	a, b, m := net.ParseIP(ip).To4(), net.ParseIP(pat).To4(), net.ParseIP(mask).To4()
	if a == nil || b == nil || m == nil {
		return false
	}
	for i := 0; i < 4; i++ {
		if a[i]&m[i] != b[i]&m[i] {
			return false
		}
	}
	return true
}

func refSortIPList(l string) string {
	var v6, v4 []net.IP
	orig := map[string]string{}
	for _, s := range strings.Split(l, ";") {
		s = strings.TrimSpace(s)
		if s == "" {
			continue
		}
		ip := net.ParseIP(s)
		if ip == nil {
			return "false"
		}
		orig[ip.String()] = s
		if ip.To4() != nil {
			v4 = append(v4, ip.To16())
		} else {
			v6 = append(v6, ip.To16())
		}
	}
	if len(v4)+len(v6) == 0 {
		return "false"
	}
	less := func(l []net.IP) func(i, j int) bool {
		return func(i, j int) bool { return string(l[i]) < string(l[j]) }
	}
	sort.SliceStable(v6, less(v6))
	sort.SliceStable(v4, less(v4))
	var out []string
	for _, ip := range append(v6, v4...) {
		out = append(out, orig[ip.String()])
	}
	return strings.Join(out, ";")
}

var hosts = []string{"a", "a.b.test", "A.B.Test", "1.2.3.4", "::1", "none.test", "multi.test", "v6only.test", "b.test", "x.a.b.test", "ab.test"}
var domains = []string{".test", ".b.test", "b.test", "test", ".Test", "a.b.test", "x.a.b.test", ""}
var hostdoms = []string{"a.b.test", "a", "a.c.test", "ab.test", "A.b.test"}
// (the list contains pairs in which one pattern is what a glob-to-regexp translation of the other looks like: a* / a.* , a? / a.)
var globs = []string{"*", "a*", "*.test", "a.?.test", "a.b.test", "?", "*.b.*", "a.b.tes", "*a*b*", "??????", "A.*", "*.test*", "a.b.test?", "", "a.*", "a?", "a.", "a.*test"}
var nets = [][2]string{{"1.2.0.0", "255.255.0.0"}, {"1.2.3.4", "255.255.255.255"}, {"0.0.0.0", "0.0.0.0"}, {"10.0.0.0", "255.0.0.0"}, {"1.2.3.5", "255.255.255.254"}, {"9.9.9.0", "255.255.255.0"}, {"1.2.3.4", "255.0.255.0"}}
var cidrs = []string{"1.2.0.0/16", "1.2.3.4/32", "0.0.0.0/0", "::/0", "::1/128", "2001:db8::/32", "10.0.0.0/8", "1.2.3.9/24", "::ffff:1.2.0.0/112", "garbage", "1.2.3.4", "10.0.0.0/08", "::ffff:10.0.0.0/104", "1.2.3.4/032"}
var ipsForEx = []string{"1.2.3.4", "::1", "2001:db8::5", "10.9.8.7", "a.b.test", "999.1.1.1", "", "::ffff:10.9.8.7", "::ffff:102:304", "0:0:0:0:0:0:0:1"}
var iplists = []string{"1.2.3.4", "10.0.0.1;1.2.3.4", "2001:db8::2;10.0.0.1;2001:db8::1;9.9.9.9", "1.2.3.4;;::1", " 3.3.3.3 ; 2.2.2.2 ", "1.2.3.4;nope", "", "::ffff:1.2.3.4;1.2.3.3", "10.0.0.10;10.0.0.9;10.0.0.100"}

type helperCase struct {
	expr string
	want string
}

func helperCases() []helperCase {
	var cs []helperCase
	b := func(v bool) string { return "boolean:" + strconv.FormatBool(v) }
	for _, h := range hosts {
		cs = append(cs, helperCase{"isPlainHostName(" + jsStr(h) + ")", b(refIsPlainHostName(h))})
		cs = append(cs, helperCase{"dnsDomainLevels(" + jsStr(h) + ")", "number:" + strconv.Itoa(refDnsDomainLevels(h))})
		for _, d := range domains {
			cs = append(cs, helperCase{"dnsDomainIs(" + jsStr(h) + "," + jsStr(d) + ")", b(refDnsDomainIs(h, d))})
		}
		for _, hd := range hostdoms {
			cs = append(cs, helperCase{"localHostOrDomainIs(" + jsStr(h) + "," + jsStr(hd) + ")", b(refLocalHostOrDomainIs(h, hd))})
		}
		for _, g := range globs {
			cs = append(cs, helperCase{"shExpMatch(" + jsStr(h) + "," + jsStr(g) + ")", b(refShExpMatch(h, g))})
		}
		for _, n := range nets {
			cs = append(cs, helperCase{"isInNet(" + jsStr(h) + "," + jsStr(n[0]) + "," + jsStr(n[1]) + ")", b(refIsInNet(h, n[0], n[1]))})
		}
		ip, ok := refResolve4(h)
		if net.ParseIP(h) != nil && net.ParseIP(h).To4() == nil {
			ok = false // dnsResolve of an IPv6 literal: no IPv4 address
		}
		cs = append(cs, helperCase{"isResolvable(" + jsStr(h) + ")", b(ok)})
		if ok {
			cs = append(cs, helperCase{"dnsResolve(" + jsStr(h) + ")", "string:" + ip})
		} else {
			cs = append(cs, helperCase{"dnsResolve(" + jsStr(h) + ")", "object:null"})
		}
		// Ex variants
		all := dnsTable[h]
		cs = append(cs, helperCase{"dnsResolveEx(" + jsStr(h) + ")", "string:" + strings.Join(all, ";")})
		cs = append(cs, helperCase{"isResolvableEx(" + jsStr(h) + ")", b(len(all) > 0)})
	}
	for _, ip := range ipsForEx {
		for _, c := range cidrs {
			want := false
			if a := net.ParseIP(ip); a != nil {
				if _, n, err := net.ParseCIDR(c); err == nil {
					want = n.Contains(a)
				}
			}
			cs = append(cs, helperCase{"isInNetEx(" + jsStr(ip) + "," + jsStr(c) + ")", b(want)})
		}
	}
	for _, l := range iplists {
		w := refSortIPList(l)
		if w == "false" {
			cs = append(cs, helperCase{"sortIpAddressList(" + jsStr(l) + ")", "boolean:false"})
		} else {
			cs = append(cs, helperCase{"sortIpAddressList(" + jsStr(l) + ")", "string:" + w})
		}
	}
	// url-level globbing as PAC files do it
	for _, g := range []string{"http://*", "*/x?*", "http://h.test/", "*.test/", "https:*"} {
		cs = append(cs, helperCase{"shExpMatch(url," + jsStr(g) + ")", b(refShExpMatch("http://h.test/", g))})
	}
	return cs
}

func helperScenario(x *explore.X) {
	cs := helperCases()
	c := cs[x.ChooseFree("case", len(cs))]
	x.Logf("%s", c.expr)
	got, err := evalExpr(c.expr, nil, nil)
	x.Check()
	if err != nil {
		x.Failf("helper-error/"+strings.SplitN(c.expr, "(", 2)[0], "%s: %v", c.expr, err)
		return
	}
	if got != c.want {
		x.Failf("helper-result/"+strings.SplitN(c.expr, "(", 2)[0], "%s = %s, the reference says %s", c.expr, got, c.want)
	}
	x.Outcome(strings.SplitN(c.expr, "(", 2)[0] + "=" + strings.SplitN(got, ":", 2)[0])
}

func myIPScenario(x *explore.X) {
	sets := [][]net.IP{{}, {net.ParseIP("10.1.2.3")}, {net.ParseIP("10.1.2.3"), net.ParseIP("192.168.0.9")}}
	setsEx := [][]net.IP{{}, {net.ParseIP("2001:db8::7")}, {net.ParseIP("10.1.2.3"), net.ParseIP("2001:db8::7")}}
	a := sets[x.ChooseFree("my-ip", len(sets))]
	b := setsEx[x.ChooseFree("my-ip-ex", len(setsEx))]
	x.Check()
	got, err := evalExpr("myIpAddress()", a, b)
	want := "string:127.0.0.1"
	if len(a) > 0 {
		want = "string:" + a[0].String()
	}
	if err != nil || got != want {
		x.Failf("helper-result/myIpAddress", "myIpAddress() = %q (%v), want %q", got, err, want)
	}
	var l []string
	for _, ip := range b {
		l = append(l, ip.String())
	}
	got, err = evalExpr("myIpAddressEx()", a, b)
	if want := "string:" + strings.Join(l, ";"); err != nil || got != want {
		x.Failf("helper-result/myIpAddressEx", "myIpAddressEx() = %q (%v), want %q", got, err, want)
	}
	x.Outcome(fmt.Sprintf("%d/%d", len(a), len(b)))
}

// ---- helpers are functions of their arguments: answers after other helper calls ---------------------------------

// dnsCases is the sub-alphabet of helper calls that consult the resolver environment (name lookups in
// either address family, own addresses); these are the ones whose answer could depend on what was asked
// before if the implementation kept state between calls.
func dnsCases() []helperCase {
	var out []helperCase
	for _, c := range helperCases() {
		name := strings.SplitN(c.expr, "(", 2)[0]
		// the pure string helpers take part with three hosts (their answers could depend on history if an
		// implementation memoised anything - compiled patterns, split names - under an incomplete key)
		pureHost := strings.Contains(c.expr, `("a",`) || strings.Contains(c.expr, `("a.b.test",`) || strings.Contains(c.expr, `("ab.test",`)
		switch name {
		case "dnsResolve", "dnsResolveEx", "isResolvable", "isResolvableEx":
		case "isInNet":
			if !strings.Contains(c.expr, `"255.255.0.0"`) && !strings.Contains(c.expr, `"255.0.0.0"`) && !strings.Contains(c.expr, `"255.255.255.0"`) {
				continue
			}
		case "shExpMatch", "dnsDomainIs", "localHostOrDomainIs":
			if !pureHost {
				continue
			}
			out = append(out, c)
			continue
		case "sortIpAddressList":
			out = append(out, c)
			continue
		default:
			continue
		}
		if strings.Contains(c.expr, `"A.B.Test"`) || strings.Contains(c.expr, `"x.a.b.test"`) || strings.Contains(c.expr, `"b.test"`) || strings.Contains(c.expr, `"ab.test"`) {
			continue
		}
		out = append(out, c)
	}
	return out
}

// sequenceScenario evaluates n helper calls one after the other - inside one FindProxyForURL evaluation,
// or in consecutive evaluations of one resolver - and demands of every call the answer the reference
// gives for that call alone.
func sequenceScenario(x *explore.X, n int) {
	cs := dnsCases()
	mode := x.ChooseFree("mode", 2) // 0: one evaluation, 1: consecutive evaluations on the same resolver
	var seq []helperCase
	for i := 0; i < n; i++ {
		seq = append(seq, cs[x.ChooseFree(fmt.Sprintf("call-%d", i), len(cs))])
	}
	x.Check()
	var b strings.Builder
	b.WriteString("var E = [")
	for i, c := range seq {
		if i > 0 {
			b.WriteString(",")
		}
		b.WriteString("function(){ return " + c.expr + "; }")
	}
	b.WriteString("];\nfunction one(k){ var v = E[k](); return typeof v + ':' + String(v); }\n")
	b.WriteString("function FindProxyForURL(url, host) { if (host != 'all') return one(parseInt(host)); var r = []; for (var k = 0; k < E.length; k++) r.push(one(k)); return r.join('|'); }")
	pr, err := newResolver(b.String(), nil, nil, nil)
	if err != nil {
		x.Failf("helper-error/sequence", "%v", err)
		return
	}
	var got []string
	if mode == 0 {
		r, err := pr.FindProxyForURL(&url.URL{Scheme: "http", Host: "h.test", Path: "/"}, "all")
		if err != nil {
			x.Failf("helper-error/sequence", "%v", err)
			return
		}
		got = strings.Split(r, "|")
	} else {
		for k := range seq {
			r, err := pr.FindProxyForURL(&url.URL{Scheme: "http", Host: "h.test", Path: "/"}, strconv.Itoa(k))
			if err != nil {
				x.Failf("helper-error/sequence", "%v", err)
				return
			}
			got = append(got, r)
		}
	}
	if len(got) != len(seq) {
		x.Failf("harness/sequence", "%d answers for %d calls: %q", len(got), len(seq), got)
		return
	}
	var names []string
	for k, c := range seq {
		name := strings.SplitN(c.expr, "(", 2)[0]
		names = append(names, name)
		if got[k] != c.want {
			var before []string
			for _, p := range seq[:k] {
				before = append(before, p.expr)
			}
			x.Failf("helper-result-depends-on-history/"+name, "%s = %s after %v (%s), the reference says %s", c.expr, got[k], before, []string{"same evaluation", "earlier evaluations of the same resolver"}[mode], c.want)
		}
	}
	x.Outcome(strings.Join(names, ",") + "=" + strings.Join(got, ","))
}

// ---- result types and entry points ------------------------------------------------------------------------

func resultScenario(x *explore.X) {
	type rc struct {
		ret  string
		want string
		err  bool
	}
	cases := []rc{
		{`"DIRECT"`, "DIRECT", false}, {`"PROXY a:1; DIRECT"`, "PROXY a:1; DIRECT", false}, {`""`, "", false},
		{`5`, "", true}, {`null`, "", true}, {`undefined`, "", true}, {`{}`, "", true}, {`["DIRECT"]`, "", true}, {`true`, "", true},
		{`"PROXY bücher.test:1"`, "", true}, {`"PROXY a:1\u00a0"`, "", true}, {`new String("DIRECT")`, "", true},
		{`"PROXY " + host + ":8080"`, "PROXY h.test:8080", false}, {`url`, "http://h.test/p?q=1", false},
	}
	c := cases[x.ChooseFree("return", len(cases))]
	ep := x.ChooseFree("entry-point", 6)
	var script string
	wantCtorErr := false
	body := "{ return " + c.ret + "; }"
	switch ep {
	case 0:
		script = "function FindProxyForURL(url, host) " + body
	case 1:
		script = "function FindProxyForURLEx(url, host) " + body
	case 2:
		script = "function FindProxyForURL(url, host) " + body + "\nfunction FindProxyForURLEx(url, host) " + body
		wantCtorErr = true
	case 3:
		script = "function SomethingElse(url, host) " + body
		wantCtorErr = true
	case 4:
		script = "var FindProxyForURL = 5;"
		wantCtorErr = true
	case 5:
		script = "var FindProxyForURL = function(url, host) " + body + ";"
	}
	x.Logf("%s", script)
	x.Check()
	pr, err := newResolver(script, nil, nil, nil)
	if wantCtorErr {
		if err == nil {
			x.Failf("entry-point-rule", "script %q was accepted, exactly one of FindProxyForURL / FindProxyForURLEx must be defined as a function", script)
		}
		x.Outcome("rejected-script")
		return
	}
	if err != nil {
		x.Failf("entry-point-rule", "script %q rejected: %v", script, err)
		return
	}
	got, err := pr.FindProxyForURL(&url.URL{Scheme: "http", Host: "h.test", Path: "/p", RawQuery: "q=1"}, "")
	if c.err {
		if err == nil {
			x.Failf("non-string-or-non-ascii-result-accepted", "script returning %s yielded %q without error", c.ret, got)
		}
		x.Outcome("result-error")
		return
	}
	if err != nil || got != c.want {
		x.Failf("result", "script returning %s yielded %q, %v; want %q", c.ret, got, err, c.want)
	}
	x.Outcome("result-ok")
}

// ---- generated decision trees ---------------------------------------------------------------------------------

type cond struct {
	js  string
	ref func(host string) bool
}

var conds = []cond{
	{`isPlainHostName(host)`, refIsPlainHostName},
	{`dnsDomainIs(host, ".b.test")`, func(h string) bool { return refDnsDomainIs(h, ".b.test") }},
	{`shExpMatch(host, "*.test")`, func(h string) bool { return refShExpMatch(h, "*.test") }},
	{`isInNet(host, "1.2.0.0", "255.255.0.0")`, func(h string) bool { return refIsInNet(h, "1.2.0.0", "255.255.0.0") }},
	{`isResolvable(host)`, func(h string) bool { _, ok := refResolve4(h); return ok && !(net.ParseIP(h) != nil && net.ParseIP(h).To4() == nil) }},
	{`localHostOrDomainIs(host, "a.b.test")`, func(h string) bool { return refLocalHostOrDomainIs(h, "a.b.test") }},
	{`dnsDomainLevels(host) > 1`, func(h string) bool { return refDnsDomainLevels(h) > 1 }},
	{`shExpMatch(url, "http://a*")`, func(h string) bool { return strings.HasPrefix(h, "a") }},
}

var leaves = []string{"DIRECT", "PROXY p1.test:8080", "HTTPS p2.test:8443; DIRECT", "SOCKS5 s.test:1080"}

func treeScenario(x *explore.X, allLeaves bool) {
	c1 := x.ChooseFree("cond1", len(conds))
	c2 := x.ChooseFree("cond2", len(conds))
	neg := x.ChooseFree("negate-inner", 2) == 1
	l := [3]int{0, 1, 2}
	if allLeaves {
		l = [3]int{x.ChooseFree("leaf1", len(leaves)), x.ChooseFree("leaf2", len(leaves)), x.ChooseFree("leaf3", len(leaves))}
	}
	inner := conds[c2].js
	if neg {
		inner = "!(" + inner + ")"
	}
	script := fmt.Sprintf("function FindProxyForURL(url, host) {\n if (%s) {\n  if (%s) return %s;\n  return %s;\n }\n return %s;\n}", conds[c1].js, inner, jsStr(leaves[l[0]]), jsStr(leaves[l[1]]), jsStr(leaves[l[2]]))
	pr, err := newResolver(script, nil, nil, nil)
	if err != nil {
		x.Failf("tree/script-rejected", "%v\n%s", err, script)
		return
	}
	out := ""
	for _, h := range hosts {
		want := leaves[l[2]]
		if conds[c1].ref(h) {
			v := conds[c2].ref(h)
			if neg {
				v = !v
			}
			if v {
				want = leaves[l[0]]
			} else {
				want = leaves[l[1]]
			}
		}
		x.Check()
		hostInURL := h
		if strings.Contains(h, ":") {
			hostInURL = "[" + h + "]"
		}
		got, err := pr.FindProxyForURL(&url.URL{Scheme: "http", Host: hostInURL, Path: "/"}, "")
		if err != nil || got != want {
			x.Failf("tree/result", "host %q: got %q (%v), want %q\n%s", h, got, err, want, script)
			return
		}
		out += string('0' + byte(strings.Index(strings.Join(leaves, "|"), want)%10))
	}
	x.Outcome(out)
}

// ---- result lists through pac.Proxies ---------------------------------------------------------------------------

type entryDef struct {
	s      string
	ok     bool
	mode   Mode
	host   string
	port   string
	scheme string
}

var entryDefs = []entryDef{
	{"DIRECT", true, DIRECT, "", "", ""},
	{"PROXY a.test:1", true, PROXY, "a.test", "1", "http"},
	{"HTTP a.test:80", true, HTTP, "a.test", "80", "http"},
	{"HTTPS a.test:443", true, HTTPS, "a.test", "443", "https"},
	{"SOCKS a.test:1080", true, SOCKS, "a.test", "1080", "socks"},
	{"SOCKS4 a.test:1080", true, SOCKS4, "a.test", "1080", "socks4"},
	{"SOCKS5 a.test:1080", true, SOCKS5, "a.test", "1080", "socks5"},
	{"PROXY [2001:db8::1]:8080", true, PROXY, "2001:db8::1", "8080", "http"},
	{"  PROXY a.test:1  ", true, PROXY, "a.test", "1", "http"},
	{"PROXY a.test", false, 0, "", "", ""},
	{"PROXY a.test:1:2", false, 0, "", "", ""},
	{"PROXY", false, 0, "", "", ""},
	{"PROXY :8080", false, 0, "", "", ""},
	{"PROXY a.test:", false, 0, "", "", ""},
	{"PROXY a.test:port", false, 0, "", "", ""},
	{"PROXY a.test:99999", false, 0, "", "", ""},
	// the ends of the port range
	{"PROXY a.test:65535", true, PROXY, "a.test", "65535", "http"},
	{"HTTPS a.test:65534", true, HTTPS, "a.test", "65534", "https"},
	{"PROXY a.test:65536", false, 0, "", "", ""},
	{"SOCKS5 a.test:1", true, SOCKS5, "a.test", "1", "socks5"},
	{"PROXY a.test:-1", false, 0, "", "", ""},
	{"PROXY a.test:+80", false, 0, "", "", ""},
}

func listScenario(x *explore.X, maxLen int) {
	n := 1 + x.ChooseFree("entries-1", maxLen)
	var parts []string
	var defs []entryDef
	for i := 0; i < n; i++ {
		d := entryDefs[x.ChooseFree(fmt.Sprintf("entry%d", i), len(entryDefs))]
		parts = append(parts, d.s)
		defs = append(defs, d)
	}
	list := strings.Join(parts, ";")
	x.Logf("%q", list)
	x.Check()
	all, err := Proxies(list).All()
	allOK := true
	for _, d := range defs {
		if !d.ok {
			allOK = false
		}
	}
	if allOK {
		if err != nil || len(all) != n {
			x.Failf("list/well-formed-rejected", "Proxies(%q).All() = %v, %v", list, all, err)
			return
		}
		for i, d := range defs {
			p := all[i]
			if p.Mode != d.mode || (d.mode != DIRECT && (p.Host != d.host || p.Port != d.port)) {
				x.Failf("list/entry", "Proxies(%q).All()[%d] = %+v, want mode %v host %q port %q", list, i, p, d.mode, d.host, d.port)
				return
			}
			u := p.URL()
			if d.mode == DIRECT {
				if u != nil {
					x.Failf("list/url", "DIRECT entry has URL %v", u)
				}
			} else if u == nil || u.Scheme != d.scheme || u.Hostname() != d.host || u.Port() != d.port {
				x.Failf("list/url", "entry %q maps to URL %v, want %s://%s:%s", d.s, u, d.scheme, d.host, d.port)
			}
		}
	} else if err == nil {
		sig := "list/malformed-entry-accepted"
		for _, d := range defs {
			if !d.ok {
				sig += "/" + strings.ReplaceAll(strings.TrimSpace(d.s), " ", "_")
				break
			}
		}
		x.Failf(sig, "Proxies(%q).All() accepted a list with a malformed entry: %+v", list, all)
		return
	}
	// First() looks only at the first entry
	first, ferr := Proxies(list).First()
	if defs[0].ok {
		if ferr != nil || first.Mode != defs[0].mode || (defs[0].mode != DIRECT && (first.Host != defs[0].host || first.Port != defs[0].port)) {
			x.Failf("list/first", "Proxies(%q).First() = %+v, %v; want the first entry %q", list, first, ferr, defs[0].s)
		}
	} else if ferr == nil {
		x.Failf("list/malformed-entry-accepted/first/"+strings.ReplaceAll(strings.TrimSpace(defs[0].s), " ", "_"), "Proxies(%q).First() accepted the malformed entry %q: %+v", list, defs[0].s, first)
	}
	x.Outcome(fmt.Sprintf("n%d ok=%v", n, allOK))
}

// ---- concurrency through the pool ------------------------------------------------------------------------------------

// ---- the two ways of loading a script agree ---------------------------------------------------------------------------

// PAC scripts are plain (sloppy-mode) JavaScript: assignments to undeclared variables, `this` as the global object,
// legacy octal literals and `with` are what real-world scripts use. The resolver built directly (forwarder pac eval)
// and the resolvers handed out by the pool (forwarder run --pac) must give the script the same language.
var entryScripts = []struct{ name, script, want string }{
	{"undeclared-assignment", `function FindProxyForURL(url, host) { proxy = "PROXY a.test:1"; return proxy; }`, "PROXY a.test:1"},
	{"undeclared-loop-variable", `function FindProxyForURL(url, host) { for (i = 0; i < 2; i++) {} return "PROXY b.test:" + i; }`, "PROXY b.test:2"},
	{"this-is-the-global-object", `var that = this; function FindProxyForURL(url, host) { return typeof that.FindProxyForURL == "function" ? "PROXY c.test:3" : "DIRECT"; }`, "PROXY c.test:3"},
	{"legacy-octal-literal", `function FindProxyForURL(url, host) { return "PROXY d.test:" + 010; }`, "PROXY d.test:8"},
	{"with-statement", `function FindProxyForURL(url, host) { var o = {p: "PROXY e.test:5"}; with (o) { return p; } }`, "PROXY e.test:5"},
	{"top-level-undeclared", `counter = 0; function FindProxyForURL(url, host) { counter++; return "PROXY f.test:6"; }`, "PROXY f.test:6"},
	{"declared-variables-only", `function FindProxyForURL(url, host) { var p = "PROXY g.test:7"; return p; }`, "PROXY g.test:7"},
	{"arguments-callee", `function FindProxyForURL(url, host) { return arguments.callee.name == "FindProxyForURL" ? "PROXY h.test:8" : "DIRECT"; }`, "PROXY h.test:8"},
}

func entryPointsScenario(x *explore.X) {
	sc := entryScripts[x.ChooseFree("script", len(entryScripts))]
	viaPool := x.ChooseFree("loaded-through", 2) == 1
	n := 1 + x.ChooseFree("evaluations-1", 3)
	cfg := &ProxyResolverConfig{Script: sc.script, testingLookupIP: lookup, testingMyIPAddress: []net.IP{}, testingMyIPAddressEx: []net.IP{}}
	eval := func(u *url.URL) (string, error) { return "", nil }
	if viaPool {
		pool, err := NewProxyResolverPool(cfg, nil)
		if err != nil {
			x.Failf("entry-points/pool-rejects-script", "script %s: NewProxyResolverPool: %v", sc.name, err)
			return
		}
		eval = func(u *url.URL) (string, error) { return pool.FindProxyForURL(u, "") }
	} else {
		r, err := NewProxyResolver(cfg, nil)
		if err != nil {
			x.Failf("entry-points/resolver-rejects-script", "script %s: NewProxyResolver: %v", sc.name, err)
			return
		}
		eval = func(u *url.URL) (string, error) { return r.FindProxyForURL(u, "") }
	}
	x.Check()
	for i := 0; i < n; i++ {
		got, err := eval(&url.URL{Scheme: "http", Host: "example.test", Path: "/"})
		if err != nil || got != sc.want {
			x.Failf("entry-points/result", "script %s loaded through the %s, evaluation %d: %q, %v; the script returns %q", sc.name, map[bool]string{true: "pool", false: "plain resolver"}[viaPool], i+1, got, err, sc.want)
			return
		}
	}
	x.Outcome(fmt.Sprintf("%s/%v", sc.name, viaPool))
}

// overrideScenario (round 9): a script may declare a function under the name of a predefined helper; under standard PAC
// semantics (one global scope) the script's definition is the one its entry point calls. Through the pool a resolver
// is used again and again: the n-th evaluation answers like the first, and like a plain resolver.
func overrideScenario(x *explore.X) {
	helpers := []struct{ name, decl, call, want string }{
		{"myIpAddress", `function myIpAddress() { return "198.51.100.7"; }`, `myIpAddress()`, "198.51.100.7"},
		{"dnsResolve", `function dnsResolve(h) { return "203.0.113." + h.length; }`, `dnsResolve(host)`, "203.0.113.6"},
		{"shExpMatch", `function shExpMatch(a, b) { return "mine"; }`, `shExpMatch(host, "*")`, "mine"},
		{"isInNet", `function isInNet(a, b, c) { return "mine-too"; }`, `isInNet(host, "1.2.3.4", "255.0.0.0")`, "mine-too"},
		{"dnsDomainIs", `function dnsDomainIs(a, b) { return "always"; }`, `dnsDomainIs(host, ".nowhere")`, "always"},
		{"isPlainHostName", `var isPlainHostName = function(h) { return "as-variable"; };`, `isPlainHostName(host)`, "as-variable"},
	}
	h := helpers[x.ChooseFree("overridden-helper", len(helpers))]
	evals := 1 + x.ChooseFree("evaluations-1", 3)
	viaPool := x.ChooseFree("through-the-pool", 2) == 1
	script := h.decl + "\nfunction FindProxyForURL(url, host) { return \"PROXY \" + " + h.call + " + \".test:1\"; }"
	cfg := &ProxyResolverConfig{Script: script, testingLookupIP: lookup, testingMyIPAddress: []net.IP{net.ParseIP("10.0.0.1")}, testingMyIPAddressEx: []net.IP{net.ParseIP("10.0.0.1")}}
	var find func(u *url.URL, hint string) (string, error)
	if viaPool {
		p, err := NewProxyResolverPool(cfg, nil)
		if err != nil {
			x.Failf("override/new", "%v\n%s", err, script)
			return
		}
		find = p.FindProxyForURL
	} else {
		r, err := NewProxyResolver(cfg, nil)
		if err != nil {
			x.Failf("override/new", "%v\n%s", err, script)
			return
		}
		find = r.FindProxyForURL
	}
	want := "PROXY " + h.want + ".test:1"
	for k := 1; k <= evals; k++ {
		got, err := find(&url.URL{Scheme: "http", Host: "a.test", Path: "/"}, "")
		x.Check()
		if err != nil || got != want {
			x.Failf("override/script-definition-not-used", "script declares its own %s; evaluation %d of %d (through the pool: %v) returned %q, %v; want %q", h.name, k, evals, viaPool, got, err, want)
			return
		}
	}
	x.Outcome(fmt.Sprintf("%s/%d/%v", h.name, evals, viaPool))
}

func poolScenario(x *explore.X) {
	ncall := 2 + x.ChooseFree("callers-2", 2)
	var mu sync.Mutex
	waiting := map[string]chan struct{}{}
	blockingLookup := func(ctx context.Context, network, host string) ([]net.IP, error) {
		ch := make(chan struct{})
		mu.Lock()
		waiting[host] = ch
		mu.Unlock()
		<-ch // the harness decides when this lookup completes
		return lookup(ctx, network, host)
	}
	script := `function FindProxyForURL(url, host) {
  if (host == "throw.test") throw new Error("boom");
  if (host == "num.test") return 5;
  if (host == "plain.test") return "DIRECT";
  var tag = "T-" + host;          // state kept in the VM across the blocking call
  var ip = dnsResolve(host);
  if (ip == null) return "DIRECT; " + tag;
  if (isInNet(ip, "1.2.0.0", "255.255.0.0")) return "PROXY in12.test:1; " + tag + " " + ip;
  return "PROXY other.test:2; " + tag + " " + ip;
}`
	pool, err := NewProxyResolverPool(&ProxyResolverConfig{Script: script, testingLookupIP: blockingLookup, testingMyIPAddress: []net.IP{}, testingMyIPAddressEx: []net.IP{}}, nil)
	if err != nil {
		x.Failf("pool/new", "%v", err)
		return
	}
	// what the pool has been through before the concurrent callers arrive (one or two earlier evaluations,
	// successful or failing): the pool must be in the same condition afterwards
	for k := 0; k < 2; k++ {
		earlier := []string{"", "plain.test", "throw.test", "num.test"}[x.ChooseFree(fmt.Sprintf("earlier-evaluation-%d", k), 4)]
		if earlier == "" {
			break
		}
		r, err := pool.FindProxyForURL(&url.URL{Scheme: "http", Host: earlier, Path: "/"}, "")
		if ok := earlier == "plain.test"; (err == nil) != ok || (ok && r != "DIRECT") {
			x.Failf("pool/earlier-evaluation", "evaluation for %s returned %q, %v", earlier, r, err)
			return
		}
	}
	callHosts := []string{"a.b.test", "multi.test", "none.test", "a"}[:ncall]
	if x.ChooseFree("same-host-twice", 2) == 1 {
		callHosts[1] = callHosts[0] + "" // two callers ask about the same host
		callHosts[1] = "a.b.test"
		callHosts[0] = "a.b.test."
		dnsTable["a.b.test."] = []string{"1.2.9.9"}
		defer delete(dnsTable, "a.b.test.")
	}
	want := map[string]string{"a.b.test": "PROXY in12.test:1; T-a.b.test 1.2.3.4", "multi.test": "PROXY other.test:2; T-multi.test 9.9.9.9",
		"none.test": "DIRECT; T-none.test", "a": "PROXY other.test:2; T-a 10.0.0.7", "a.b.test.": "PROXY in12.test:1; T-a.b.test. 1.2.9.9"}
	res := make([]string, ncall)
	errs := make([]error, ncall)
	var wg sync.WaitGroup
	for i, h := range callHosts {
		wg.Add(1)
		go func(i int, h string) {
			defer wg.Done()
			res[i], errs[i] = pool.FindProxyForURL(&url.URL{Scheme: "http", Host: h, Path: "/"}, "")
		}(i, h)
	}
	// all callers are now blocked inside dnsResolve; release them in every order
	remaining := append([]string{}, callHosts...)
	for len(remaining) > 0 {
		synctest.Wait()
		mu.Lock()
		var ready []string
		for _, h := range remaining {
			if _, ok := waiting[h]; ok {
				ready = append(ready, h)
			}
		}
		mu.Unlock()
		if len(ready) == 0 {
			x.Failf("pool/stuck", "callers %v never reached their DNS lookup", remaining)
			return
		}
		sort.Strings(ready)
		h := ready[x.ChooseFree(fmt.Sprintf("release%d", len(remaining)), len(ready))]
		mu.Lock()
		close(waiting[h])
		delete(waiting, h)
		mu.Unlock()
		for i, r := range remaining {
			if r == h {
				remaining = append(remaining[:i], remaining[i+1:]...)
				break
			}
		}
	}
	wg.Wait()
	x.Check()
	for i, h := range callHosts {
		if errs[i] != nil || res[i] != want[h] {
			x.Failf("pool/concurrent-answer-differs", "caller %d (host %s) got %q, %v; evaluated alone the script yields %q", i, h, res[i], errs[i], want[h])
		}
	}
	x.Outcome(fmt.Sprintf("callers=%d", ncall))
}

// schedScenario (Engine T): 2-3 scheduler threads evaluate through the pool; sync.Pool of pool.go is the
// deterministic shim (Get/Put are scheduling points) and the scripted DNS lookup is a scheduling point too,
// so every interleaving of "take a VM - start evaluating - resolve - finish - put back" within the preemption
// bound is explored. No VM may be inside two evaluations at once and every answer equals the sequential one.
func schedScenario(t *testing.T, x *explore.X) {
	ncall := 2 + x.ChooseFree("callers-2", 2)
	callHosts := []string{"a.b.test", "multi.test", "none.test"}[:ncall]
	want := map[string]string{"a.b.test": "PROXY in12.test:1; T-a.b.test 1.2.3.4", "multi.test": "PROXY other.test:2; T-multi.test 9.9.9.9", "none.test": "DIRECT; T-none.test"}
	script := `function FindProxyForURL(url, host) {
  var tag = "T-" + host;
  var ip = dnsResolve(host);
  if (ip == null) return "DIRECT; " + tag;
  if (isInNet(ip, "1.2.0.0", "255.255.0.0")) return "PROXY in12.test:1; " + tag + " " + ip;
  return "PROXY other.test:2; " + tag + " " + ip;
}`
	res := make([]string, ncall)
	errs := make([]error, ncall)
	tsched.Run(t, x, time.Second, false, func() {
		pool, err := NewProxyResolverPool(&ProxyResolverConfig{Script: script, testingMyIPAddress: []net.IP{}, testingMyIPAddressEx: []net.IP{},
			testingLookupIP: func(ctx context.Context, network, host string) ([]net.IP, error) {
				vsync.Point("dnsResolve(" + host + ")")
				return lookup(ctx, network, host)
			}}, nil)
		if err != nil {
			x.Failf("pool/new", "%v", err)
			return
		}
		rounds := 1 + x.ChooseFree("rounds-1", 2) // a second round re-uses the VMs put back by the first
		for i, h := range callHosts {
			vsync.GoNamed("caller-"+h, func() {
				for r := 0; r < rounds; r++ {
					func() {
						defer func() {
							if p := recover(); p != nil {
								errs[i] = fmt.Errorf("panic inside the evaluation: %v", p)
							}
						}()
						out, err := pool.FindProxyForURL(&url.URL{Scheme: "http", Host: h, Path: "/"}, "")
						if err != nil {
							errs[i] = err
						} else if r == 0 || out != res[i] {
							res[i] = out
						}
					}()
				}
			})
		}
	}, func(s *vsync.Scheduler) {
		x.Check()
		for i, h := range callHosts {
			if errs[i] != nil || res[i] != want[h] {
				x.Failf("pool/concurrent-answer-differs", "caller %d (host %s) got %q, %v; evaluated alone the script yields %q\n  schedule: %v", i, h, res[i], errs[i], want[h], s.Trace)
			}
		}
		x.Outcome(fmt.Sprintf("sched callers=%d", ncall))
	})
}

func TestC14(t *testing.T) {
	s := explore.NewSuite(t, "C14", "model_checking",
		"(helpers) every predefined helper x every argument tuple of its alphabet (11 hosts incl. case variants, IPv4/IPv6 literals, unresolvable and multi-address names; 8 domains; 5 host-domain pairs; 18 glob patterns of literals . * ?; 7 dotted net/mask pairs; 11 CIDRs x 7 addresses; 9 address lists) with scripted DNS and interface addresses, compared with a reference evaluator; (helper-sequences) every sequence of 2 helper calls (quick and thorough; thorough adds every sequence of 3 resolver-consulting calls) out of the resolver-consulting helpers (dnsResolve, dnsResolveEx, isResolvable, isResolvableEx, isInNet over 7 hosts incl. dual-stack and IPv6-only names) and the pure string helpers (shExpMatch over 18 patterns incl. pairs where one looks like the regexp translation of the other, dnsDomainIs, localHostOrDomainIs on 3 hosts, sortIpAddressList) inside ONE evaluation and in consecutive evaluations of one resolver, each answer compared with the reference for that call alone (helpers are functions of their arguments); (result) 14 return expressions x 6 entry-point shapes; (trees) every decision tree if(c1){if([!]c2) L1; L2} L3 over 8 conditions and 4 leaves (quick: leaves fixed per position) evaluated on 10 hosts; (lists) every result list of <= 2 (quick) / 3 (thorough) entries from 22 well-formed and malformed entries (incl. ports 1, 65534, 65535, 65536) through pac.Proxies.All/First/URL; (pool) after 0-2 earlier evaluations (successful, throwing, non-string result), 2-3 concurrent FindProxyForURL callers through ProxyResolverPool, each blocked inside dnsResolve, released in EVERY order (states = release histories), answers compared with the sequential ones; (pool-interleavings) sync.Pool of pool.go replaced at build time by a deterministic shim, 2-3 scheduler threads x 1-2 rounds, every interleaving of Get / evaluate / dnsResolve / Put with at most 2 (quick) / 3 (thorough) preemptions; (script-overrides-a-helper, round 9) scripts that declare a function under the name of a predefined helper (6 helpers, as function and as variable) evaluated 1-3 times through the pool and through a plain resolver: every evaluation uses the script's definition")
	s.Assume = []string{"reference helper semantics: Netscape PAC text / Mozilla ascii_pac_utils.js / Chromium on the domain where they agree (see DESIGN.md)", "goja executes the JavaScript; the harness scripts DNS through the package's testingLookupIP seam"}
	s.Add(explore.Scenario{Name: "helpers", Run: helperScenario})
	s.Add(explore.Scenario{Name: "my-ip", Run: myIPScenario})
	s.Add(explore.Scenario{Name: "script-overrides-a-helper", Run: overrideScenario})
	s.Add(explore.Scenario{Name: "helper-sequences-quick", Tiers: []string{"quick"}, Run: func(x *explore.X) { sequenceScenario(x, 2) }})
	s.Add(explore.Scenario{Name: "result-and-entry-point", Run: resultScenario})
	s.Add(explore.Scenario{Name: "trees-quick", Tiers: []string{"quick"}, Run: func(x *explore.X) { treeScenario(x, false) }})
	s.Add(explore.Scenario{Name: "trees-thorough", Tiers: []string{"thorough"}, Run: func(x *explore.X) { treeScenario(x, true) }})
	s.Add(explore.Scenario{Name: "lists-quick", Tiers: []string{"quick"}, Run: func(x *explore.X) { listScenario(x, 2) }})
	s.Add(explore.Scenario{Name: "lists-thorough", Tiers: []string{"thorough"}, Run: func(x *explore.X) { listScenario(x, 3) }})
	s.Add(explore.Scenario{Name: "pool-interleavings", Remote: true, MaxDev: map[string]int{"quick": 2, "thorough": 3},
		Run: func(x *explore.X) { schedScenario(t, x) }})
	s.Add(explore.Scenario{Name: "entry-points-agree", Run: entryPointsScenario})
	s.Add(explore.Scenario{Name: "pool", Remote: true, Run: func(x *explore.X) { bubble.Run(t, x, func() { poolScenario(x) }) }})
	s.Add(explore.Scenario{Name: "helper-sequences-thorough", Tiers: []string{"thorough"}, Run: func(x *explore.X) { sequenceScenario(x, 3) }})
	s.Main()
}

