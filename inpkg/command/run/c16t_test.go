package run

import (
	"fmt"
	"net/http"
	"sort"
	"strings"
	"testing"
	"time"

	"github.com/saucelabs/forwarder/header"
	"github.com/saucelabs/forwarder/internal/zzverif/explore"
	"github.com/saucelabs/forwarder/internal/zzverif/tsched"
	"github.com/saucelabs/forwarder/internal/zzverif/vsync"
)

var concRules = []string{"-X-*", "-Y-*", "%x-a", "Z-Add: 1", "-Z", "X-B;"}

func concMap() http.Header {
	return http.Header{"X-A": {"1"}, "X-B": {"2", "3"}, "Y-A": {"4"}, "Z": {"5"}, "y-b": {"6"}}
}

func showHeader(h http.Header) string {
	var ks []string
	for k, v := range h {
		ks = append(ks, fmt.Sprintf("%s=%q", k, v))
	}
	sort.Strings(ks)
	return strings.Join(ks, " ")
}

// concurrentRules (Engine T): two messages are processed at the same time, each by its own rule (the proxy
// applies --header, --response-header and --connect-header rules on every connection's goroutine);
// header/header.go is rebuilt with a scheduling point before every statement, so every interleaving of the
// two Apply calls within the preemption bound is explored. Each message must end up exactly as it does when
// its rule is applied alone.
func concurrentRules(t *testing.T, x *explore.X) {
	ri := [2]int{x.ChooseFree("rule-0", len(concRules)), x.ChooseFree("rule-1", len(concRules))}
	var got, want [2]http.Header
	ok := true
	tsched.Run(t, x, time.Second, false, func() {
		var rules [2]header.Header
		for i := 0; i < 2; i++ {
			r, err := header.ParseHeader(concRules[ri[i]])
			if err != nil {
				x.Failf("parse/rejected-valid", "%q: %v", concRules[ri[i]], err)
				ok = false
				return
			}
			rules[i] = r
			want[i] = concMap()
			ref := r
			(&ref).Apply(want[i]) // alone, before any thread exists
			got[i] = concMap()
		}
		for i := 0; i < 2; i++ {
			vsync.GoNamed(fmt.Sprintf("Apply(%s)#%d", concRules[ri[i]], i), func() { (&rules[i]).Apply(got[i]) })
		}
	}, func(s *vsync.Scheduler) {
		x.Check()
		if !ok {
			return
		}
		for i := 0; i < 2; i++ {
			if showHeader(got[i]) != showHeader(want[i]) {
				x.Failf("apply/concurrent-messages", "rule %q applied while rule %q was being applied to another message: message is %s, applied alone it is %s\n  schedule: %v", concRules[ri[i]], concRules[ri[1-i]], showHeader(got[i]), showHeader(want[i]), s.Trace)
				return
			}
		}
		x.Outcome(showHeader(got[0]) + " | " + showHeader(got[1]))
	})
}
