// C16: header rewrite rules do exactly what their syntax says.
// Engine E: exhaustive enumeration of rule strings, rule lists x header maps, and message kinds,
// against a reference model on a case-insensitive multimap. Lives in package run (through the
// build overlay) so that the real modifier wiring (configureHeadersModifiers) is what is driven.
package run

import (
	"context"
	"fmt"
	"github.com/saucelabs/forwarder/bind"
	"github.com/saucelabs/forwarder/internal/zzverif/world"
	"github.com/saucelabs/forwarder/utils/cobrautil"
	"github.com/spf13/pflag"
	"net/http"
	"net/url"
	"sort"
	"strings"
	"testing"
	"time"

	"github.com/saucelabs/forwarder"
	"github.com/saucelabs/forwarder/header"
	"github.com/saucelabs/forwarder/internal/zzverif/explore"
)

// ---- reference model ----------------------------------------------------------------------

type refGroup struct {
	spellings map[string]bool
	values    []string
	// unordered is set (and stays set) once the implementation held this name under more than one
	// spelling: Go maps define no order between different keys, so from then on only the multiset
	// of values is observable.
	unordered bool
}

type refMap map[string]*refGroup // key: lower-case name

func refFrom(h http.Header) refMap {
	r := refMap{}
	keys := make([]string, 0, len(h))
	for k := range h {
		keys = append(keys, k)
	}
	sort.Strings(keys)
	for _, k := range keys {
		g := r[strings.ToLower(k)]
		if g == nil {
			g = &refGroup{spellings: map[string]bool{}}
			r[strings.ToLower(k)] = g
		}
		g.spellings[k] = true
		g.values = append(g.values, h[k]...)
	}
	return r
}

type refRule struct {
	action header.Action
	name   string
	value  string
}

func (r refMap) apply(rule refRule) {
	l := strings.ToLower(rule.name)
	switch rule.action {
	case header.Add:
		g := r[l]
		if g == nil {
			g = &refGroup{spellings: map[string]bool{http.CanonicalHeaderKey(rule.name): true}}
			r[l] = g
		}
		g.values = append(g.values, rule.value)
	case header.Empty:
		g := r[l]
		if g == nil {
			g = &refGroup{spellings: map[string]bool{http.CanonicalHeaderKey(rule.name): true}}
			r[l] = g
		}
		g.values = []string{""}
	case header.Remove:
		delete(r, l)
	case header.RemoveByPrefix:
		for k := range r {
			if strings.HasPrefix(k, l) {
				delete(r, k)
			}
		}
	case header.RenameCase:
		if g := r[l]; g != nil {
			g.spellings = map[string]bool{rule.name: true}
		}
	}
}

// compare returns "" when the implementation's map agrees with the reference.
// Values are compared as a sequence when the implementation keeps the group under one key, as a
// multiset otherwise (Go maps define no order between different keys). Spelling is compared only
// when strictSpelling names the group (directly after a %name rule).
func (r refMap) compare(h http.Header, strictSpelling string) string {
	got := map[string][]string{}
	keysOf := map[string][]string{}
	hk := make([]string, 0, len(h))
	for k := range h {
		hk = append(hk, k)
	}
	sort.Strings(hk)
	for _, k := range hk {
		l := strings.ToLower(k)
		got[l] = append(got[l], h[k]...)
		keysOf[l] = append(keysOf[l], k)
	}
	for l, g := range r {
		gv, ok := got[l]
		if !ok {
			return fmt.Sprintf("field %q missing (want values %q)", l, g.values)
		}
		a, b := append([]string{}, gv...), append([]string{}, g.values...)
		if len(keysOf[l]) > 1 {
			g.unordered = true
		}
		if g.unordered {
			sort.Strings(a)
			sort.Strings(b)
		}
		if strings.Join(a, "\x00") != strings.Join(b, "\x00") || len(a) != len(b) {
			return fmt.Sprintf("field %q has values %q, want %q", l, gv, g.values)
		}
		if l == strictSpelling {
			for _, k := range keysOf[l] {
				if !g.spellings[k] {
					return fmt.Sprintf("field %q is spelt %q after the rename rule", l, k)
				}
			}
		}
	}
	for l := range got {
		if _, ok := r[l]; !ok {
			return fmt.Sprintf("unexpected field %q with values %q", l, got[l])
		}
	}
	return ""
}

func actionName(a header.Action) string {
	return [...]string{"remove", "remove-prefix", "empty", "add", "rename"}[a]
}

// ---- alphabets ------------------------------------------------------------------------------

var ruleStrings = []string{
	"X-A:1", "x-a: 2", "X-Ab:3", "Content-Type:t",
	"X-A;", "x-ab;",
	"-X-A", "-x-a", "-Content-Type",
	"-x-*", "-X-A*", "-c*",
	"%x-a", "%X-A", "%X-AB", "%content-type", "%Content-Type",
}

func initialMaps() []http.Header {
	return []http.Header{
		{},
		{"X-A": {"1"}},
		{"X-A": {"1", "2"}},
		{"X-A": {"1"}, "X-Ab": {"3"}},
		{"Content-Type": {"t"}, "X-A": {"1", "2"}, "X-Ab": {"3"}, "Y": {"y"}},
		{"x-a": {"1"}},                         // spelling left behind by an earlier %x-a
		{"x-a": {"1"}, "X-A": {"2"}},           // names differing only in case
		{"X-AB": {"3"}, "Content-Type": {"t"}}, // non-canonical upper-case spelling
	}
}

func isToken(s string) bool {
	if s == "" {
		return false
	}
	for _, c := range []byte(s) {
		ok := c > 0x20 && c < 0x7f && !strings.ContainsRune("()<>@,;:\\\"/[]?={} \t", rune(c))
		if !ok {
			return false
		}
	}
	return true
}

// (the last two are letters outside ASCII that Unicode case folding maps onto k and s: KELVIN SIGN, LATIN SMALL LETTER LONG S)
var charset = []string{"-", "%", "*", ";", ":", " ", "a", "B", "1", "\r", "\n", "\u212a", "\u017f"}

func TestC16(t *testing.T) {
	s := explore.NewSuite(t, "C16", "exploration",
		"(parse) every string of length <= L (5 quick, 6 thorough) over the 13-symbol alphabet {- % * ; : SP a B 1 CR LF U+212A U+017F} through header.ParseHeader: accepted rules must be legal (token name, no CR/LF in value), round-trip through String(), and strings of the strict rule grammar must be accepted with the documented meaning; "+
			"(apply) every ordered list of <= 3 (quick) / 4 (thorough) rules from a 17-rule alphabet applied to each of 8 header maps (repeated fields, names differing only in case), with rule objects parsed afresh and with rule objects that were already applied to another message, compared step by step with a reference on a case-insensitive multimap; (concurrent-messages, Engine T) two messages processed at once, each by one of 6 rules, header/header.go rebuilt with a scheduling point before every statement, every interleaving with at most 2 (quick) / 3 (thorough) preemptions, each message compared with the result of its rule applied alone; "+
			"(dispatch) every assignment of rule lists to --header/--connect-header/--response-header through the real modifier wiring of command/run x message kind; non-trivial = at least one comparison with the reference was made; (rules-through-the-flags, round 9) 1-2 rules {add, set-empty, remove} x names {Authorization, Proxy-Authorization, Cookie, Set-Cookie, X-Flag} given to --header / --connect-header / --response-header, parsed by package bind, {with, without} the configuration being described as runE does at start-up (3 describers), wired as the command wires them and applied: equal to the reference applied to the rules as written")
	s.Assume = []string{"net/http.CanonicalHeaderKey is trusted", "header maps are Go http.Header values; order between differently-spelt keys of one name is not observable"}

	// (parse)
	parse := func(maxLen int) func(x *explore.X) {
		return func(x *explore.X) {
			var sb strings.Builder
			for i := 0; i < maxLen; i++ {
				c := x.ChooseFree(fmt.Sprintf("ch%d", i), len(charset)+1)
				if c == 0 {
					break
				}
				sb.WriteString(charset[c-1])
			}
			str := sb.String()
			x.Logf("rule string %q", str)
			h, err := header.ParseHeader(str)
			// strict grammar reference (no CR/LF anywhere)
			var want *refRule
			name := func(s string) bool {
				if s == "" {
					return false
				}
				for _, c := range s {
					if !(c == '-' || c >= '0' && c <= '9' || c >= 'a' && c <= 'z' || c >= 'A' && c <= 'Z') {
						return false
					}
				}
				return true
			}
			if !strings.ContainsAny(str, "\r\n") {
				switch {
				case strings.HasPrefix(str, "-") && strings.HasSuffix(str, "*") && name(str[1:len(str)-1]):
					want = &refRule{header.RemoveByPrefix, str[1 : len(str)-1], ""}
				case strings.HasPrefix(str, "-") && name(str[1:]):
					want = &refRule{header.Remove, str[1:], ""}
				case strings.HasPrefix(str, "%") && name(str[1:]):
					want = &refRule{header.RenameCase, str[1:], ""}
				case strings.HasPrefix(str, "-"):
					// "-..." that is not a removal rule: a name starting with '-' would make the string
					// ambiguous between the forms; the documentation does not order them, so nothing is demanded.
				case strings.HasSuffix(str, ";") && name(str[:len(str)-1]):
					want = &refRule{header.Empty, str[:len(str)-1], ""}
				default:
					if i := strings.IndexByte(str, ':'); i > 0 && name(str[:i]) {
						want = &refRule{header.Add, str[:i], strings.TrimLeft(str[i+1:], " ")}
					}
				}
			}
			x.Check()
			if err != nil {
				if want != nil {
					x.Failf("parse/well-formed-rule-rejected", "ParseHeader(%q) = %v, want %s %q %q", str, err, actionName(want.action), want.name, want.value)
				}
				x.Outcome("rejected")
				return
			}
			val := ""
			if h.Value != nil {
				val = *h.Value
			}
			if !isToken(h.Name) {
				x.Failf("parse/accepted-name-not-token", "ParseHeader(%q) accepted name %q", str, h.Name)
			}
			if strings.ContainsAny(val, "\r\n") {
				x.Failf("parse/accepted-value-with-CR-or-LF", "ParseHeader(%q) accepted value %q", str, val)
			}
			if (h.Action == header.Add) != (h.Value != nil) {
				x.Failf("parse/value-presence", "ParseHeader(%q): action %s value %v", str, actionName(h.Action), h.Value)
			}
			if want != nil && (want.action != h.Action || want.name != h.Name || want.value != val) {
				x.Failf("parse/meaning", "ParseHeader(%q) = %s %q %q, want %s %q %q", str, actionName(h.Action), h.Name, val, actionName(want.action), want.name, want.value)
			}
			back := h.String()
			h2, err2 := header.ParseHeader(back)
			v2 := ""
			if h2.Value != nil {
				v2 = *h2.Value
			}
			if err2 != nil || h2.Action != h.Action || h2.Name != h.Name || v2 != val || (h2.Value == nil) != (h.Value == nil) {
				x.Failf("parse/roundtrip", "ParseHeader(%q).String() = %q which parses to (%s %q %q, %v)", str, back, actionName(h2.Action), h2.Name, v2, err2)
			}
			x.Outcome("accepted:" + actionName(h.Action))
		}
	}
	s.Add(explore.Scenario{Name: "parse<=5", Tiers: []string{"quick"}, Run: parse(5)})
	s.Add(explore.Scenario{Name: "parse<=6", Tiers: []string{"thorough"}, Run: parse(6)})

	// (apply)
	parsed := make([]header.Header, len(ruleStrings))
	refs := make([]refRule, len(ruleStrings))
	for i, rs := range ruleStrings {
		h, err := header.ParseHeader(rs)
		if err != nil {
			// a well-formed rule that does not parse is reported by the parse scenario; keep going without it
			t.Logf("rule %q does not parse: %v", rs, err)
			continue
		}
		parsed[i] = h
		v := ""
		if h.Value != nil {
			v = *h.Value
		}
		refs[i] = refRule{h.Action, h.Name, v}
	}
	apply := func(maxLen int) func(x *explore.X) {
		return func(x *explore.X) {
			maps := initialMaps()
			hm := maps[x.ChooseFree("map", len(maps))]
			n := 1 + x.ChooseFree("len-1", maxLen)
			// rule objects are parsed afresh for every execution; "used before": each rule object has already
			// been applied to another message (a rule must not remember anything from one message to the next)
			usedBefore := x.ChooseFree("rule-objects-used-before", 2) == 1
			other := initialMaps()[(len(hm)+3)%len(maps)]
			ref := refFrom(hm)
			x.Logf("initial map %v", hm)
			if d := ref.compare(hm, ""); d != "" {
				panic("reference does not agree with the initial map: " + d)
			}
			var applied []string
			for i := 0; i < n; i++ {
				ri := x.ChooseFree(fmt.Sprintf("rule%d", i), len(ruleStrings))
				r := refs[ri]
				l := strings.ToLower(r.name)
				// classification data for the failure signature: is a differently-spelt (non-canonical)
				// key of the targeted name(s) present before this step?
				nonCanon := false
				for k := range hm {
					lk := strings.ToLower(k)
					hit := lk == l || (r.action == header.RemoveByPrefix && strings.HasPrefix(lk, l))
					if hit && k != http.CanonicalHeaderKey(k) {
						nonCanon = true
					}
				}
				sameAsCanon := r.name == http.CanonicalHeaderKey(r.name)
				applied = append(applied, ruleStrings[ri])
				rule, err := header.ParseHeader(ruleStrings[ri])
				if err != nil {
					rule = parsed[ri]
				}
				if usedBefore {
					(&rule).Apply(other)
					applied[len(applied)-1] += " (object used before)"
				}
				(&rule).Apply(hm)
				ref.apply(r)
				x.Logf("after %q: %v", ruleStrings[ri], hm)
				x.Check()
				strict := ""
				if r.action == header.RenameCase {
					strict = l
				}
				if d := ref.compare(hm, strict); d != "" {
					sig := "apply/" + actionName(r.action)
					if nonCanon {
						sig += "/noncanonical-key-present"
					} else if r.action == header.RenameCase && sameAsCanon {
						sig += "/canonical-spelling"
					}
					x.Failf(sig, "rules %q on map: %s (map now %v)", applied, d, hm)
					return
				}
			}
			var ks []string
			for k, v := range hm {
				ks = append(ks, fmt.Sprintf("%s=%d", k, len(v)))
			}
			sort.Strings(ks)
			x.Outcome(strings.Join(ks, ","))
		}
	}
	s.Add(explore.Scenario{Name: "apply<=3", Tiers: []string{"quick"}, Run: apply(3)})
	s.Add(explore.Scenario{Name: "apply<=4", Tiers: []string{"thorough"}, Run: apply(4)})
	s.Add(explore.Scenario{Name: "concurrent-messages", Remote: true, MaxDev: map[string]int{"quick": 2, "thorough": 3},
		Run: func(x *explore.X) { concurrentRules(t, x) }})

	// (dispatch) through the real wiring in configureHeadersModifiers
	s.Add(explore.Scenario{Name: "dispatch", Run: func(x *explore.X) {
		pick := func(label string) ([]header.Header, []refRule) {
			var hs []header.Header
			var rs []refRule
			n := x.ChooseFree(label+"-len", 3)
			for i := 0; i < n; i++ {
				ri := []int{0, 4, 6, 9, 2, 12}[x.ChooseFree(fmt.Sprintf("%s-rule%d", label, i), 6)]
				hs = append(hs, parsed[ri])
				rs = append(rs, refs[ri])
			}
			return hs, rs
		}
		c := &command{httpProxyConfig: forwarder.DefaultHTTPProxyConfig(), kerberosConfig: &forwarder.KerberosConfig{}}
		var rq, rc, rr []refRule
		c.requestHeaders, rq = pick("request")
		c.connectHeaders, rc = pick("connect")
		c.responseHeaders, rr = pick("response")
		c.configureHeadersModifiers()
		kind := x.ChooseFree("kind", 6)
		base := func() http.Header { return http.Header{"X-A": {"0"}, "X-Ab": {"3"}} }
		hm := base()
		ref := refFrom(hm)
		var rules []refRule
		switch kind {
		case 5: // the header of the CONNECT this proxy itself sends to an upstream proxy: the connect rules on an empty header
			tr := &http.Transport{}
			c.configureTransportProxy(tr, nil)
			hm = http.Header{}
			ref = refFrom(hm)
			rules = rc
			if tr.GetProxyConnectHeader != nil {
				h, err := tr.GetProxyConnectHeader(context.Background(), &url.URL{Scheme: "http", Host: "up.test:8080"}, "origin.test:443")
				if err != nil {
					x.Failf("dispatch/error", "GetProxyConnectHeader: %v", err)
				}
				hm = h
			}
		case 0, 1: // request GET / CONNECT
			m := "GET"
			rules = rq
			if kind == 1 {
				m, rules = "CONNECT", rc
			}
			req := &http.Request{Method: m, Header: hm}
			for _, mod := range c.httpProxyConfig.RequestModifiers {
				if err := mod.ModifyRequest(req); err != nil {
					x.Failf("dispatch/error", "request modifier: %v", err)
				}
			}
		default: // response to GET / CONNECT / nil request
			var req *http.Request
			rules = rr
			if kind == 2 {
				req = &http.Request{Method: "GET"}
			} else if kind == 3 {
				req = &http.Request{Method: "CONNECT"}
				rules = nil
			}
			res := &http.Response{Header: hm, Request: req}
			for _, mod := range c.httpProxyConfig.ResponseModifiers {
				if err := mod.ModifyResponse(res); err != nil {
					x.Failf("dispatch/error", "response modifier: %v", err)
				}
			}
		}
		for _, r := range rules {
			ref.apply(r)
		}
		x.Check()
		if d := ref.compare(hm, ""); d != "" {
			x.Failf("dispatch/kind", "kind %d request-rules %v connect-rules %v response-rules %v: %s (map %v)", kind, rq, rc, rr, d, hm)
		}
		x.Outcome(fmt.Sprintf("kind%d/%d", kind, len(rules)))
	}})
	// (rules-through-the-flags, round 9) the rules as the command receives them: written on the command line, parsed by the
	// flags of package bind, then - as runE does at start-up - the configuration is described three times (for the log
	// and for /configz, where values are redacted); after that the rules are wired as the command wires them and applied.
	// The header set equals the reference applied to the rules AS WRITTEN: describing a configuration does not change it.
	flagNames := []string{"Authorization", "Proxy-Authorization", "Cookie", "Set-Cookie", "X-Flag"}
	flagForms := []func(n string) (string, refRule){
		func(n string) (string, refRule) {
			return n + ": Bearer s3cr3t-" + n, refRule{header.Add, n, "Bearer s3cr3t-" + n}
		},
		func(n string) (string, refRule) { return n + ";", refRule{header.Empty, n, ""} },
		func(n string) (string, refRule) { return "-" + n, refRule{header.Remove, n, ""} },
	}
	s.Add(explore.Scenario{Name: "rules-through-the-flags", Run: func(x *explore.X) {
		c := &command{httpProxyConfig: forwarder.DefaultHTTPProxyConfig(), kerberosConfig: &forwarder.KerberosConfig{}}
		fs := pflag.NewFlagSet("verif", pflag.ContinueOnError)
		bind.RequestHeaders(fs, &c.requestHeaders)
		bind.ResponseHeaders(fs, &c.responseHeaders)
		bind.ConnectHeaders(fs, &c.connectHeaders)
		kind := x.ChooseFree("kind", 3) // GET request, CONNECT request, response to a GET
		flag := []string{"--header", "--connect-header", "--response-header"}[kind]
		n := 1 + x.ChooseFree("rules-1", 2)
		var args []string
		var rules []refRule
		for i := 0; i < n; i++ {
			name := flagNames[x.ChooseFree(fmt.Sprintf("name%d", i), len(flagNames))]
			text, rr := flagForms[x.ChooseFree(fmt.Sprintf("form%d", i), len(flagForms))](name)
			args = append(args, flag, text)
			rules = append(rules, rr)
		}
		if err := fs.Parse(args); err != nil {
			x.Failf("flags/rejected", "%q: %v", args, err)
			return
		}
		described := x.ChooseFree("configuration-described-as-at-start-up", 2) == 1
		if described {
			for _, d := range []cobrautil.FlagsDescriber{
				{Format: cobrautil.OneLine, ShowChangedOnly: true, ShowHidden: true},
				{Format: cobrautil.OneLine, ShowChangedOnly: false, ShowHidden: true},
				{Format: cobrautil.Plain, ShowChangedOnly: false, ShowHidden: true},
			} {
				if _, err := d.DescribeFlags(fs); err != nil {
					x.Failf("flags/describe", "%q: %v", args, err)
					return
				}
			}
		}
		c.configureHeadersModifiers()
		hm := http.Header{"X-A": {"0"}, "Cookie": {"c=1"}}
		ref := refFrom(hm)
		switch kind {
		case 0, 1:
			req := &http.Request{Method: []string{"GET", "CONNECT"}[kind], Header: hm}
			for _, mod := range c.httpProxyConfig.RequestModifiers {
				if err := mod.ModifyRequest(req); err != nil {
					x.Failf("flags/error", "request modifier: %v", err)
				}
			}
		default:
			res := &http.Response{Header: hm, Request: &http.Request{Method: "GET"}}
			for _, mod := range c.httpProxyConfig.ResponseModifiers {
				if err := mod.ModifyResponse(res); err != nil {
					x.Failf("flags/error", "response modifier: %v", err)
				}
			}
		}
		for _, r := range rules {
			ref.apply(r)
		}
		x.Check()
		if d := ref.compare(hm, ""); d != "" {
			x.Failf("flags/rules-differ-from-what-was-written", "%q (configuration described first: %v): %s (map %v)", args, described, d, hm)
		}
		x.Outcome(fmt.Sprintf("kind%d/%d/%v", kind, n, described))
	}})
	// (connect-rules-at-the-upstream-proxy, Engine S) a client CONNECT relayed through an upstream HTTP proxy: the
	// CONNECT that proxy receives carries the client's fields with the --connect-header rules applied to them in
	// order - once. Wired exactly as command/run wires them (request modifier + GetProxyConnectHeader).
	connRules := []string{"X-Conn: 1", "-X-Conn", "X-Conn;", "%x-conn", "X-Other: o"}
	s.Add(explore.Scenario{Name: "connect-rules-at-the-upstream-proxy", Remote: true, Run: func(x *explore.X) {
		world.Run(t, x, func() {
			n := x.ChooseFree("rules", 3)
			var list []string
			for i := 0; i < n; i++ {
				list = append(list, connRules[x.ChooseFree(fmt.Sprintf("rule%d", i), len(connRules))])
			}
			clientField := x.ChooseFree("client-sends-x-conn", 2) == 1
			c := &command{httpProxyConfig: forwarder.DefaultHTTPProxyConfig(), kerberosConfig: &forwarder.KerberosConfig{}}
			var ref []refRule
			for _, r := range list {
				h, err := header.ParseHeader(r)
				if err != nil {
					x.Failf("harness/rule", "%q: %v", r, err)
					return
				}
				c.connectHeaders = append(c.connectHeaders, h)
				v := ""
				if h.Value != nil {
					v = *h.Value
				}
				ref = append(ref, refRule{h.Action, h.Name, v})
			}
			c.configureHeadersModifiers()
			w, err := world.Start(world.Options{Upstream: "http://up.test:8080", Tweak: func(cfg *forwarder.HTTPProxyConfig, tcfg *forwarder.HTTPTransportConfig) {
				cfg.RequestModifiers = c.httpProxyConfig.RequestModifiers
				cfg.ResponseModifiers = c.httpProxyConfig.ResponseModifiers
			}, TweakTransport: func(tr *http.Transport) { c.configureTransportProxy(tr, nil) }})
			if err != nil {
				x.Failf("harness/start", "%v", err)
				return
			}
			up, _ := w.Hop("up.test:8080", nil)
			cl, _ := w.Client()
			head := "CONNECT origin.test:443 HTTP/1.1\r\nHost: origin.test:443\r\n"
			sent := http.Header{}
			if clientField {
				head += "X-Conn: 0\r\n"
				sent["X-Conn"] = []string{"0"}
			}
			cl.Send([]byte(head + "\r\n"))
			world.Settle(time.Second)
			msgs, conns, _ := up.Next()
			x.Check()
			if len(msgs) != 1 || msgs[0].Method != "CONNECT" {
				x.Failf("connect-rules/not-forwarded", "rules %q: the upstream proxy received %d requests; client got %q", list, len(msgs), world.Clip(cl.Recv()))
			} else {
				got := http.Header{}
				for _, f := range msgs[0].Fields {
					if l := strings.ToLower(f.Name); l == "x-conn" || l == "x-other" {
						got[f.Name] = append(got[f.Name], f.Value)
					}
				}
				want := refFrom(sent)
				for _, r := range ref {
					want.apply(r)
				}
				if d := want.compare(got, ""); d != "" {
					x.Failf("connect-rules/at-the-upstream-proxy", "--connect-header %q, client sent X-Conn: %v: the CONNECT received by the upstream proxy: %s (fields %v)", list, clientField, d, got)
				}
				up.Conns[conns[0]].Send([]byte("HTTP/1.1 200 OK\r\n\r\n"))
			}
			x.Outcome(fmt.Sprintf("%d/%v", n, clientField))
			cl.Close()
			if err := w.Stop(); err != nil {
				x.Failf("shutdown", "%v", err)
			}
			up.Shutdown()
			world.Settle(5 * time.Second)
			if l := world.Leaks(); l != "" {
				x.Failf("goroutine-leak", "%s", l)
			}
		})
	}})
	s.Main()
}
