package tcore

import (
	"fmt"
	"testing"
	"time"

	"github.com/saucelabs/forwarder/internal/zzverif/explore"
	"github.com/saucelabs/forwarder/internal/zzverif/tsched"
	"github.com/saucelabs/forwarder/internal/zzverif/vsync"
	"github.com/saucelabs/forwarder/ruleset"
)

// ConcurrentDecisions (Engine T): the domain matcher of one configured list (deny-domains, direct-domains,
// mitm-domains) is consulted by the goroutines of all connections. Two or three threads ask it about hosts
// at the same time (ruleset/regexp.go is rebuilt with a scheduling point before every statement); every
// interleaving within the preemption bound is explored. Every caller, and every caller that comes later on
// its own, must get the verdict want(host).
func ConcurrentDecisions(t *testing.T, x *explore.X, rules, hosts []string, want func(string) bool, sig string) {
	n := 2 + x.ChooseFree("threads-2", 2)
	pick := make([]string, n)
	for i := range pick {
		pick[i] = hosts[x.ChooseFree(fmt.Sprintf("host-%d", i), len(hosts))]
	}
	warm := x.ChooseFree("asked-before", 1+len(hosts)) // 0: matcher unused so far; k: it was last asked about hosts[k-1]
	var m *ruleset.RegexpMatcher
	got := make([]bool, n)
	tsched.Run(t, x, time.Second, false, func() {
		var items []ruleset.RegexpListItem
		for _, s := range rules {
			it, err := ruleset.ParseRegexpListItem(s)
			if err != nil {
				x.Failf("harness/rule", "%q: %v", s, err)
				return
			}
			items = append(items, it)
		}
		var err error
		if m, err = ruleset.NewRegexpMatcherFromList(items); err != nil {
			x.Failf("harness/list", "%v", err)
			m = nil
			return
		}
		if warm > 0 {
			m.Match(hosts[warm-1])
		}
		for i := 0; i < n; i++ {
			vsync.GoNamed(fmt.Sprintf("Match(%s)#%d", pick[i], i), func() { got[i] = m.Match(pick[i]) })
		}
	}, func(s *vsync.Scheduler) {
		x.Check()
		if m == nil {
			return
		}
		for i := 0; i < n; i++ {
			if got[i] != want(pick[i]) {
				x.Failf(sig, "list %q: %d connections ask about %v at the same time (asked before: %d): the one asking about %q is told %v, the list says %v\n  schedule: %v", rules, n, pick, warm, pick[i], got[i], want(pick[i]), s.Trace)
				return
			}
		}
		for _, h := range hosts {
			if g := m.Match(h); g != want(h) {
				x.Failf(sig+"/afterwards", "list %q: after concurrent questions about %v, a single question about %q is answered %v, the list says %v\n  schedule: %v", rules, pick, h, g, want(h), s.Trace)
				return
			}
		}
		x.Outcome(fmt.Sprint(got))
	})
}
