package tcore

import (
	"fmt"
	"net/url"
	"testing"
	"time"

	"github.com/saucelabs/forwarder"
	"github.com/saucelabs/forwarder/internal/zzverif/explore"
	"github.com/saucelabs/forwarder/internal/zzverif/tsched"
	"github.com/saucelabs/forwarder/internal/zzverif/vsync"
	"github.com/saucelabs/forwarder/internal/zzverif/world"
)

// ConcurrentCredentials (Engine T): the credentials matcher of a proxy is consulted by the goroutines of all
// connections (site credentials per request, credentials of PAC-selected proxies). Two or three threads look
// up targets at the same time (credentials.go is rebuilt with a scheduling point before every statement);
// every interleaving within the preemption bound is explored. Every lookup, and every later lookup on its
// own, must return the credentials of its own target (want: "user:pass" or "").
func ConcurrentCredentials(t *testing.T, x *explore.X, table []string, targets []string, want func(hostport string) string) {
	n := 2 + x.ChooseFree("threads-2", 2)
	pick := make([]string, n)
	for i := range pick {
		pick[i] = targets[x.ChooseFree(fmt.Sprintf("target-%d", i), len(targets))]
	}
	warm := x.ChooseFree("looked-up-before", 1+len(targets))
	str := func(u *url.Userinfo) string {
		if u == nil {
			return ""
		}
		return u.String()
	}
	var m *forwarder.CredentialsMatcher
	got := make([]string, n)
	tsched.Run(t, x, time.Second, false, func() {
		var creds []*forwarder.HostPortUser
		for _, c := range table {
			hpu, err := forwarder.ParseHostPortUser(c)
			if err != nil {
				x.Failf("harness/credentials", "%q: %v", c, err)
				return
			}
			creds = append(creds, hpu)
		}
		var err error
		if m, err = forwarder.NewCredentialsMatcher(creds, (&world.MemLog{}).Named("credentials")); err != nil {
			x.Failf("harness/credentials", "%v", err)
			m = nil
			return
		}
		if warm > 0 {
			m.Match(targets[warm-1])
		}
		for i := 0; i < n; i++ {
			vsync.GoNamed(fmt.Sprintf("Match(%s)#%d", pick[i], i), func() { got[i] = str(m.Match(pick[i])) })
		}
	}, func(s *vsync.Scheduler) {
		x.Check()
		if m == nil {
			return
		}
		for i := 0; i < n; i++ {
			if got[i] != want(pick[i]) {
				x.Failf("credentials-of-another-target/concurrent", "table %v: %d connections look up %v at the same time (looked up before: %d): the lookup for %s returned %q, its entry is %q\n  schedule: %v", table, n, pick, warm, pick[i], got[i], want(pick[i]), s.Trace)
				return
			}
		}
		for _, h := range targets {
			if g := str(m.Match(h)); g != want(h) {
				x.Failf("credentials-of-another-target/afterwards", "table %v: after concurrent lookups of %v, a single lookup of %s returns %q, its entry is %q\n  schedule: %v", table, pick, h, g, want(h), s.Trace)
				return
			}
		}
		x.Outcome(fmt.Sprint(got))
	})
}
