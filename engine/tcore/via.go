// Package tcore holds thread-level (Engine T) scenarios of components that several properties depend on.
package tcore

import (
	"fmt"
	"net/http"
	"strings"
	"testing"
	"time"

	mheader "github.com/saucelabs/forwarder/internal/martian/header"
	"github.com/saucelabs/forwarder/internal/zzverif/explore"
	"github.com/saucelabs/forwarder/internal/zzverif/tsched"
	"github.com/saucelabs/forwarder/internal/zzverif/vsync"
)

// ConcurrentVia (Engine T): one proxy instance has ONE Via modifier, used by the goroutines of all its
// connections. Two requests with different Via chains / protocol versions pass through it at the same
// time; via_modifier.go is rebuilt with a scheduling point before every statement, so every interleaving of
// the two calls within the preemption bound is explored. Each request must be treated as if it were alone:
// refused iff its own chain contains this instance's element, otherwise its own chain plus one element.
func ConcurrentVia(t *testing.T, x *explore.X) {
	const name, boundary = "fwd", "0123456789abcdef0123"
	own := name + "-" + boundary
	chains := []struct {
		label string
		lines []string
		loop  bool
	}{
		{"none", nil, false},
		{"other", []string{"1.1 other.example"}, false},
		{"own", []string{"1.1 " + own}, true},
		{"other+own+later", []string{"1.0 a.example", "1.1 " + own + ", 1.1 later.example"}, true},
		{"same-name-other-instance", []string{"1.1 " + name + "-ffffffffffffffffffff"}, false},
	}
	ci := [2]int{x.ChooseFree("chain-0", len(chains)), x.ChooseFree("chain-1", len(chains))}
	minor := [2]int{x.ChooseFree("http-minor-0", 2), x.ChooseFree("http-minor-1", 2)}
	var reqs [2]*http.Request
	var errs [2]error
	tsched.Run(t, x, time.Second, false, func() {
		m := mheader.NewViaModifierWithBoundary(name, boundary)
		for i := 0; i < 2; i++ {
			r, _ := http.NewRequest("GET", "http://origin.test/", nil)
			r.ProtoMajor, r.ProtoMinor = 1, minor[i]
			for _, l := range chains[ci[i]].lines {
				r.Header.Add("Via", l)
			}
			reqs[i] = r
		}
		for i := 0; i < 2; i++ {
			vsync.GoNamed(fmt.Sprintf("ModifyRequest(%s)#%d", chains[ci[i]].label, i), func() { errs[i] = m.ModifyRequest(reqs[i]) })
		}
	}, func(s *vsync.Scheduler) {
		x.Check()
		for i := 0; i < 2; i++ {
			c := chains[ci[i]]
			what := fmt.Sprintf("request with Via chain %q (HTTP/1.%d) processed while a request with chain %q was", c.label, minor[i], chains[ci[1-i]].label)
			if c.loop {
				if errs[i] == nil {
					x.Failf("loop-not-refused/concurrent", "%s: not refused although its chain contains this instance's element; Via now %q\n  schedule: %v", what, reqs[i].Header.Values("Via"), s.Trace)
					return
				}
				continue
			}
			if errs[i] != nil {
				x.Failf("refused-without-loop/concurrent", "%s: refused (%v) although its chain does not contain this instance's element\n  schedule: %v", what, errs[i], s.Trace)
				return
			}
			want := strings.Join(append(append([]string{}, c.lines...), fmt.Sprintf("1.%d %s", minor[i], own)), ", ")
			if got := strings.Join(reqs[i].Header.Values("Via"), ", "); got != want {
				x.Failf("via-chain/concurrent", "%s: forwarded Via %q, want %q\n  schedule: %v", what, got, want, s.Trace)
				return
			}
		}
		x.Outcome(fmt.Sprintf("%v/%v", errs[0] != nil, errs[1] != nil))
	})
}
