// Package vpool is the adversarial model of sync.Pool used in every check build: a pool may hand an object
// to another goroutine the instant it was Put, so whatever the putter still reads from it afterwards is
// garbage. Put therefore overwrites byte storage ([]byte, *[]byte, *bytes.Buffer) with a poison pattern
// before pooling it, and re-targets a *bufio.Reader / *bufio.Writer (to an endless poison source / a sink). Code that honours the sync.Pool contract (no use after Put) cannot observe this; a
// use-after-Put, which the real pool would expose only under a particular interleaving of two goroutines,
// becomes a deterministic corruption that the byte-exact oracles of the checks report in every execution.
package vpool

import (
	"bufio"
	"bytes"
	"errors"
	"io"
	"sync"
)

// Poison is the byte written over released storage.
const Poison = 0xDB

// Pool is a deterministic last-in-first-out free list: the object released last is handed out next (the
// behaviour of a real pool that is most likely to expose sharing, and the same in every run).
type Pool struct {
	New   func() any
	mu    sync.Mutex
	items []any
}

func (p *Pool) Get() any {
	p.mu.Lock()
	if n := len(p.items); n > 0 {
		v := p.items[n-1]
		p.items = p.items[:n-1]
		p.mu.Unlock()
		return v
	}
	p.mu.Unlock()
	if p.New != nil {
		return p.New()
	}
	return nil
}

func (p *Pool) Put(v any) {
	Scribble(v)
	p.mu.Lock()
	p.items = append(p.items, v)
	p.mu.Unlock()
}

// Scribble overwrites the byte storage reachable from a pooled object.
func Scribble(v any) {
	fill := func(b []byte) {
		b = b[:cap(b)]
		for i := range b {
			b[i] = Poison
		}
	}
	switch t := v.(type) {
	case []byte:
		fill(t)
	case *[]byte:
		if t != nil {
			fill(*t)
		}
	case *bytes.Buffer:
		if t != nil {
			fill(t.Bytes())
		}
	case *bufio.Reader:
		// whoever still reads through a released reader reads what its next owner put there: poison for ever
		if t != nil {
			t.Reset(&poisonSource{left: 512})
		}
	case *bufio.Writer:
		// whatever is still written through a released writer goes to its next owner's destination: lost here
		if t != nil {
			t.Reset(io.Discard)
		}
	}
}

// poisonSource delivers a bounded amount of poison and then fails: an endless source would let a caller that
// reads "until the connection closes" fill the memory.
type poisonSource struct{ left int }

func (p *poisonSource) Read(b []byte) (int, error) {
	if p.left <= 0 {
		return 0, errUseAfterPut
	}
	n := min(len(b), p.left)
	for i := 0; i < n; i++ {
		b[i] = Poison
	}
	p.left -= n
	return n, nil
}

var errUseAfterPut = errors.New("read through a pooled reader after it was returned to its pool")
