// Package httpwire is an independent, strict HTTP/1.x message parser used as oracle on the byte
// streams scripted peers receive. It deliberately shares no code with net/http (which is part of
// the system under test).
package httpwire

import (
	"bytes"
	"fmt"
	"strconv"
	"strings"
)

type Field struct {
	Name  string // as spelt on the wire
	Value string // OWS trimmed
}

type Msg struct {
	IsResponse bool
	StartLine  string
	Method     string
	Target     string
	Proto      string
	Status     int
	Reason     string
	Fields     []Field
	Framing    string // none | cl | chunked | eof
	Body       []byte
	Chunks     []int // chunk sizes as received (chunked only)
	Trailers   []Field
	Raw        []byte
	HeadLen    int
}

// Get returns the values of a field (case-insensitive name), in wire order.
func (m *Msg) Get(name string) []string {
	var out []string
	for _, f := range m.Fields {
		if strings.EqualFold(f.Name, name) {
			out = append(out, f.Value)
		}
	}
	return out
}

func (m *Msg) Has(name string) bool { return len(m.Get(name)) > 0 }

// Elements splits all values of a list-valued field into its comma separated elements.
func (m *Msg) Elements(name string) []string {
	var out []string
	for _, v := range m.Get(name) {
		for _, e := range strings.Split(v, ",") {
			if e = strings.TrimSpace(e); e != "" {
				out = append(out, e)
			}
		}
	}
	return out
}

// Stream is the result of parsing a byte stream.
type Stream struct {
	Msgs []Msg
	// Rest holds the bytes after the last complete message.
	Rest []byte
	// State describes Rest: "" (nothing left), "partial-head", "partial-body", "partial-chunked",
	// "eof-body-open" (connection-delimited body still open) or "syntax" (Err is set).
	State string
	Err   string
}

func isTokenChar(c byte) bool {
	if c <= 0x20 || c >= 0x7f {
		return false
	}
	return !strings.ContainsRune("()<>@,;:\\\"/[]?={}", rune(c))
}

func isToken(s string) bool {
	if s == "" {
		return false
	}
	for i := 0; i < len(s); i++ {
		if !isTokenChar(s[i]) {
			return false
		}
	}
	return true
}

// parseHead parses start line + fields. It returns the head length (including the blank line),
// or 0 if the head is incomplete, or an error for a syntax violation.
func parseHead(data []byte, m *Msg) (int, error) {
	end := bytes.Index(data, []byte("\r\n\r\n"))
	if end < 0 {
		// A bare LF anywhere in a head is a syntax error we can report early only when complete lines exist.
		return 0, nil
	}
	head := string(data[:end])
	lines := strings.Split(head, "\r\n")
	m.StartLine = lines[0]
	if strings.ContainsAny(head, "\n\x00") && strings.Contains(strings.ReplaceAll(head, "\r\n", ""), "\n") {
		return 0, fmt.Errorf("bare LF inside head %q", head)
	}
	if strings.Contains(strings.ReplaceAll(head, "\r\n", ""), "\r") {
		return 0, fmt.Errorf("bare CR inside head %q", head)
	}
	sl := lines[0]
	if strings.HasPrefix(sl, "HTTP/") {
		m.IsResponse = true
		parts := strings.SplitN(sl, " ", 3)
		if len(parts) < 2 {
			return 0, fmt.Errorf("bad status line %q", sl)
		}
		m.Proto = parts[0]
		if len(m.Proto) != 8 || m.Proto[5] < '0' || m.Proto[5] > '9' || m.Proto[6] != '.' || m.Proto[7] < '0' || m.Proto[7] > '9' {
			return 0, fmt.Errorf("bad HTTP version in status line %q", sl)
		}
		if len(parts[1]) != 3 {
			return 0, fmt.Errorf("bad status code in %q", sl)
		}
		// status-code = 3DIGIT (RFC 9112): codes outside 100-599 are semantically invalid (a client treats them as 5xx)
		// but the message that carries one is well-formed
		n, err := strconv.Atoi(parts[1])
		if err != nil || strings.Trim(parts[1], "0123456789") != "" {
			return 0, fmt.Errorf("bad status code in %q", sl)
		}
		m.Status = n
		if len(parts) == 3 {
			m.Reason = parts[2]
		}
	} else {
		parts := strings.Split(sl, " ")
		if len(parts) != 3 {
			return 0, fmt.Errorf("bad request line %q", sl)
		}
		m.Method, m.Target, m.Proto = parts[0], parts[1], parts[2]
		if !isToken(m.Method) || m.Target == "" || !strings.HasPrefix(m.Proto, "HTTP/1.") || len(m.Proto) != 8 {
			return 0, fmt.Errorf("bad request line %q", sl)
		}
	}
	for _, l := range lines[1:] {
		i := strings.IndexByte(l, ':')
		if i <= 0 {
			return 0, fmt.Errorf("bad field line %q", l)
		}
		name := l[:i]
		if !isToken(name) {
			return 0, fmt.Errorf("bad field name %q", name)
		}
		m.Fields = append(m.Fields, Field{Name: name, Value: strings.Trim(l[i+1:], " \t")})
	}
	return end + 4, nil
}

func chunkedLast(m *Msg) bool {
	te := m.Elements("Transfer-Encoding")
	return len(te) > 0 && strings.EqualFold(te[len(te)-1], "chunked")
}

// parseBody determines framing and consumes the body. done=false means more bytes are needed.
func parseBody(data []byte, m *Msg, headOnly bool, atEOF bool) (n int, done bool, state string, err error) {
	if headOnly {
		m.Framing = "none"
		return 0, true, "", nil
	}
	if chunkedLast(m) {
		m.Framing = "chunked"
		pos := 0
		for {
			i := bytes.Index(data[pos:], []byte("\r\n"))
			if i < 0 {
				if len(data)-pos > 64 {
					return 0, false, "syntax", fmt.Errorf("chunk size line too long")
				}
				return 0, false, "partial-chunked", nil
			}
			line := string(data[pos : pos+i])
			szs := line
			if j := strings.IndexByte(line, ';'); j >= 0 {
				szs = line[:j]
			}
			szs = strings.TrimRight(szs, " \t")
			if szs == "" {
				return 0, false, "syntax", fmt.Errorf("empty chunk size line %q", line)
			}
			sz, perr := strconv.ParseUint(szs, 16, 32)
			if perr != nil {
				return 0, false, "syntax", fmt.Errorf("bad chunk size %q", line)
			}
			pos += i + 2
			if sz == 0 {
				// trailers
				for {
					k := bytes.Index(data[pos:], []byte("\r\n"))
					if k < 0 {
						return 0, false, "partial-chunked", nil
					}
					tl := string(data[pos : pos+k])
					pos += k + 2
					if tl == "" {
						return pos, true, "", nil
					}
					c := strings.IndexByte(tl, ':')
					if c <= 0 || !isToken(tl[:c]) {
						return 0, false, "syntax", fmt.Errorf("bad trailer line %q", tl)
					}
					m.Trailers = append(m.Trailers, Field{Name: tl[:c], Value: strings.Trim(tl[c+1:], " \t")})
				}
			}
			if len(data)-pos < int(sz)+2 {
				return 0, false, "partial-chunked", nil
			}
			m.Body = append(m.Body, data[pos:pos+int(sz)]...)
			m.Chunks = append(m.Chunks, int(sz))
			pos += int(sz)
			if data[pos] != '\r' || data[pos+1] != '\n' {
				return 0, false, "syntax", fmt.Errorf("chunk of size %d not followed by CRLF (got %q)", sz, data[pos:pos+2])
			}
			pos += 2
		}
	}
	if cls := m.Get("Content-Length"); len(cls) > 0 {
		for _, c := range cls[1:] {
			if c != cls[0] {
				return 0, false, "syntax", fmt.Errorf("conflicting Content-Length %q", cls)
			}
		}
		cl, perr := strconv.ParseUint(cls[0], 10, 40)
		if perr != nil {
			return 0, false, "syntax", fmt.Errorf("bad Content-Length %q", cls[0])
		}
		m.Framing = "cl"
		if uint64(len(data)) < cl {
			return 0, false, "partial-body", nil
		}
		m.Body = append([]byte(nil), data[:cl]...)
		return int(cl), true, "", nil
	}
	if !m.IsResponse {
		m.Framing = "none"
		return 0, true, "", nil
	}
	m.Framing = "eof"
	if !atEOF {
		return 0, false, "eof-body-open", nil
	}
	m.Body = append([]byte(nil), data...)
	return len(data), true, "", nil
}

// ParseRequests parses a stream of requests.
func ParseRequests(data []byte) Stream {
	var s Stream
	for len(data) > 0 {
		var m Msg
		hl, err := parseHead(data, &m)
		if err != nil {
			s.Rest, s.State, s.Err = data, "syntax", err.Error()
			return s
		}
		if hl == 0 {
			s.Rest, s.State = data, "partial-head"
			return s
		}
		m.HeadLen = hl
		bl, done, st, err := parseBody(data[hl:], &m, m.Method == "CONNECT", false)
		if err != nil {
			s.Rest, s.State, s.Err = data, "syntax", err.Error()
			return s
		}
		if !done {
			s.Rest, s.State = data, st
			return s
		}
		m.Raw = data[:hl+bl]
		s.Msgs = append(s.Msgs, m)
		data = data[hl+bl:]
		if m.Method == "CONNECT" {
			// whatever follows belongs to the tunnel
			s.Rest = data
			if len(data) > 0 {
				s.State = "tunnel"
			}
			return s
		}
	}
	return s
}

// ParseResponses parses a stream of responses; methods[i] is the method of the request the i-th
// final response answers (needed for HEAD and CONNECT). atEOF says the sender closed the stream.
// Interim 1xx responses (other than 101) are returned as messages of their own and do not consume a method.
func ParseResponses(data []byte, methods []string, atEOF bool) Stream {
	var s Stream
	k := 0
	for len(data) > 0 {
		var m Msg
		hl, err := parseHead(data, &m)
		if err != nil {
			s.Rest, s.State, s.Err = data, "syntax", err.Error()
			return s
		}
		if hl == 0 {
			s.Rest, s.State = data, "partial-head"
			return s
		}
		if !m.IsResponse {
			s.Rest, s.State, s.Err = data, "syntax", fmt.Sprintf("not a status line: %q", m.StartLine)
			return s
		}
		m.HeadLen = hl
		method := ""
		if k < len(methods) {
			method = methods[k]
		}
		headOnly := method == "HEAD" || m.Status/100 == 1 || m.Status == 204 || m.Status == 304 ||
			(method == "CONNECT" && m.Status/100 == 2)
		bl, done, st, err := parseBody(data[hl:], &m, headOnly, atEOF)
		if err != nil {
			s.Rest, s.State, s.Err = data, "syntax", err.Error()
			return s
		}
		if !done {
			s.Rest, s.State = data, st
			return s
		}
		m.Raw = data[:hl+bl]
		s.Msgs = append(s.Msgs, m)
		data = data[hl+bl:]
		if m.Status/100 != 1 || m.Status == 101 {
			k++
		}
		if (method == "CONNECT" && m.Status/100 == 2) || m.Status == 101 {
			s.Rest = data
			if len(data) > 0 {
				s.State = "tunnel"
			}
			return s
		}
	}
	return s
}
