// Package simnet is the environment model of Engine S: an in-memory network with TCP-like
// semantics whose every blocking point is durably blocking inside a testing/synctest bubble and
// whose every timer runs on the bubble's virtual clock.
//
// A connection is a pair of endpoints. Write never blocks (unless the receiving side was given a
// bounded buffer), Read returns at most one written segment, CloseWrite is a FIN, Close is a FIN
// plus local release, Abort is an RST. Scripted peers use the non-blocking Take/Status calls.
package simnet

import (
	"context"
	"errors"
	"fmt"
	"io"
	"net"
	"os"
	"strings"
	"sync"
	"syscall"
	"time"
)

type DialPlan int

const (
	Connect          DialPlan = iota // connect to the listener registered for the address (refuse if none)
	Refuse                           // ECONNREFUSED
	Blackhole                        // no answer: fails when the context ends or DialTimeout elapses
	Slow                             // as Connect, but the connection is established only after SlowDial of (virtual) time
	RefuseOnce                       // the first dial to the address is refused (ECONNREFUSED), later ones connect
	ResetAfterAccept                 // the connection is established and reset by the far side at once: the first write fails
)

type DialEvent struct {
	From    string // "" = dialled through the system-call seam (the proxy); otherwise the scripted peer's name
	Addr    string
	Outcome string // connected | refused | timeout | canceled
	At      time.Duration
}

type Net struct {
	mu          sync.Mutex
	lns         map[string]*Listener
	ips         map[string]net.IP
	Plan        map[string]DialPlan
	// FastPath: connections handed to the code under test (Dial, Accept) also implement io.ReaderFrom and
	// io.WriterTo, as *net.TCPConn does: code that type-asserts them takes the branch it takes on a real socket.
	// Off by default: the buffered copy paths are then the ones that run (both worlds are explored where it matters).
	FastPath bool
	DialTimeout time.Duration
	SlowDial    time.Duration // delay of a Slow dial (default 2 s)
	dials       []DialEvent
	conns       []*Conn
	nextIP      int
	nextPort    int
	t0          time.Time
}

func New() *Net {
	return &Net{lns: map[string]*Listener{}, ips: map[string]net.IP{}, Plan: map[string]DialPlan{}, nextIP: 10, nextPort: 40000, t0: time.Now()}
}

func normHost(h string) string { return strings.TrimSuffix(strings.ToLower(h), ".") }

func normAddr(addr string) string {
	h, p, err := net.SplitHostPort(addr)
	if err != nil {
		return strings.ToLower(addr)
	}
	return net.JoinHostPort(normHost(h), p)
}

// ipOf returns the (deterministically assigned) address of a host name.
func (n *Net) ipOf(host string) net.IP {
	host = normHost(host)
	if ip := net.ParseIP(host); ip != nil {
		return ip
	}
	if host == "" {
		return net.IPv4(10, 0, 0, 1)
	}
	if ip, ok := n.ips[host]; ok {
		return ip
	}
	ip := net.IPv4(10, 0, byte(n.nextIP>>8), byte(n.nextIP))
	n.nextIP++
	n.ips[host] = ip
	return ip
}

func (n *Net) tcpAddr(addr string) *net.TCPAddr {
	h, p, err := net.SplitHostPort(addr)
	if err != nil {
		return &net.TCPAddr{IP: net.IPv4(10, 0, 0, 1), Port: 0}
	}
	port, _ := net.LookupPort("tcp", p)
	return &net.TCPAddr{IP: n.ipOf(h), Port: port}
}

// Listen registers an in-memory listener for addr ("host:port").
func (n *Net) Listen(addr string) (*Listener, error) {
	n.mu.Lock()
	defer n.mu.Unlock()
	key := normAddr(addr)
	if _, ok := n.lns[key]; ok {
		return nil, &net.OpError{Op: "listen", Net: "tcp", Err: &os.SyscallError{Syscall: "bind", Err: syscall.EADDRINUSE}}
	}
	l := &Listener{n: n, key: key, addr: n.tcpAddr(addr)}
	l.cond = sync.NewCond(&l.mu)
	n.lns[key] = l
	return l, nil
}

// Dials returns the dials made through the system-call seam (i.e. by the proxy), in order.
func (n *Net) Dials() []DialEvent {
	n.mu.Lock()
	defer n.mu.Unlock()
	var out []DialEvent
	for _, d := range n.dials {
		if d.From == "" {
			out = append(out, d)
		}
	}
	return out
}

// Conns returns every endpoint ever created (both ends of every connection).
func (n *Net) Conns() []*Conn {
	n.mu.Lock()
	defer n.mu.Unlock()
	return append([]*Conn(nil), n.conns...)
}

type timeoutError struct{}

func (timeoutError) Error() string   { return "i/o timeout" }
func (timeoutError) Timeout() bool   { return true }
func (timeoutError) Temporary() bool { return true }

func (n *Net) logDial(from, addr, outcome string) {
	n.dials = append(n.dials, DialEvent{From: from, Addr: addr, Outcome: outcome, At: time.Since(n.t0)})
}

// Dial is the dial system call of the model.
func (n *Net) Dial(ctx context.Context, network, addr string) (net.Conn, error) {
	c, err := n.DialConn(ctx, network, addr, "")
	if err != nil {
		return nil, err
	}
	if n.FastPath {
		return TCPLike{c}, nil
	}
	return c, nil
}

// DialFrom is Dial with a chosen local host name (scripted clients).
func (n *Net) DialFrom(from, addr string) (*Conn, error) {
	return n.DialConn(context.Background(), "tcp", addr, from)
}

func (n *Net) DialConn(ctx context.Context, network, addr, from string) (*Conn, error) {
	n.mu.Lock()
	key := normAddr(addr)
	raddr := n.tcpAddr(addr)
	plan := n.Plan[key]
	l := n.lns[key]
	if l == nil {
		// IP literal or alias of a listener?
		for _, cand := range n.lns {
			if cand.addr.IP.Equal(raddr.IP) && cand.addr.Port == raddr.Port {
				l = cand
			}
		}
	}
	opErr := func(e error) error {
		return &net.OpError{Op: "dial", Net: network, Addr: raddr, Err: e}
	}
	if plan == Blackhole {
		dt := n.DialTimeout
		n.mu.Unlock()
		var tc <-chan time.Time
		if dt > 0 {
			t := time.NewTimer(dt)
			defer t.Stop()
			tc = t.C
		}
		select {
		case <-ctx.Done():
			n.mu.Lock()
			defer n.mu.Unlock()
			if errors.Is(ctx.Err(), context.DeadlineExceeded) {
				n.logDial(from, key, "timeout")
				return nil, opErr(timeoutError{})
			}
			n.logDial(from, key, "canceled")
			return nil, opErr(errors.New("operation was canceled"))
		case <-tc:
			n.mu.Lock()
			defer n.mu.Unlock()
			n.logDial(from, key, "timeout")
			return nil, opErr(timeoutError{})
		}
	}
	if plan == Slow {
		d := n.SlowDial
		if d <= 0 {
			d = 2 * time.Second
		}
		n.mu.Unlock()
		t := time.NewTimer(d)
		select {
		case <-ctx.Done():
		case <-t.C:
		}
		t.Stop()
		n.mu.Lock()
		l = n.lns[key]
	}
	defer n.mu.Unlock()
	if err := ctx.Err(); err != nil {
		n.logDial(from, key, "canceled")
		return nil, opErr(errors.New("operation was canceled"))
	}
	if plan == RefuseOnce {
		n.Plan[key] = Connect
		plan = Refuse
	}
	if plan == Refuse || l == nil || l.isClosed() {
		n.logDial(from, key, "refused")
		return nil, opErr(&os.SyscallError{Syscall: "connect", Err: syscall.ECONNREFUSED})
	}
	n.nextPort++
	lhost := from
	if lhost == "" {
		lhost = "proxy-out.test"
	}
	laddr := &net.TCPAddr{IP: n.ipOf(lhost), Port: n.nextPort}
	a, b := n.pair(laddr, l.addr, fmt.Sprintf("%s->%s", lhost, key))
	if plan == ResetAfterAccept {
		n.logDial(from, key, "connected")
		n.mu.Unlock()
		b.Abort()
		n.mu.Lock()
		return a, nil
	}
	l.mu.Lock()
	l.q = append(l.q, b)
	l.accepted++
	l.mu.Unlock()
	l.cond.Broadcast()
	n.logDial(from, key, "connected")
	return a, nil
}

func (n *Net) pair(laddr, raddr *net.TCPAddr, name string) (*Conn, *Conn) {
	mu := &sync.Mutex{}
	a := &Conn{n: n, mu: mu, laddr: laddr, raddr: raddr, Name: name + "/dialer"}
	b := &Conn{n: n, mu: mu, laddr: raddr, raddr: laddr, Name: name + "/acceptor"}
	a.peer, b.peer = b, a
	a.cond, b.cond = sync.NewCond(mu), sync.NewCond(mu)
	n.conns = append(n.conns, a, b)
	return a, b
}

// ---- Listener ---------------------------------------------------------------------------------

type Listener struct {
	n        *Net
	key      string
	addr     *net.TCPAddr
	mu       sync.Mutex
	cond     *sync.Cond
	q        []*Conn
	closed   bool
	accepted int
}

func (l *Listener) isClosed() bool {
	l.mu.Lock()
	defer l.mu.Unlock()
	return l.closed
}

func (l *Listener) Accept() (net.Conn, error) {
	l.mu.Lock()
	defer l.mu.Unlock()
	for len(l.q) == 0 && !l.closed {
		l.cond.Wait()
	}
	if l.closed {
		return nil, &net.OpError{Op: "accept", Net: "tcp", Addr: l.addr, Err: net.ErrClosed}
	}
	c := l.q[0]
	l.q = l.q[1:]
	if l.n.FastPath {
		return TCPLike{c}, nil
	}
	return c, nil
}

// TryAccept is the non-blocking accept of scripted servers.
func (l *Listener) TryAccept() *Conn {
	l.mu.Lock()
	defer l.mu.Unlock()
	if len(l.q) == 0 {
		return nil
	}
	c := l.q[0]
	l.q = l.q[1:]
	return c
}

// Backlog is the number of connections waiting to be accepted.
func (l *Listener) Backlog() int {
	l.mu.Lock()
	defer l.mu.Unlock()
	return len(l.q)
}

// Accepted is the number of connections ever queued on this listener.
func (l *Listener) Accepted() int {
	l.mu.Lock()
	defer l.mu.Unlock()
	return l.accepted
}

func (l *Listener) Close() error {
	l.mu.Lock()
	if l.closed {
		l.mu.Unlock()
		return &net.OpError{Op: "close", Net: "tcp", Addr: l.addr, Err: net.ErrClosed}
	}
	l.closed = true
	q := l.q
	l.q = nil
	l.mu.Unlock()
	l.cond.Broadcast()
	for _, c := range q {
		c.Abort() // connections never accepted are reset, as the kernel does
	}
	l.n.mu.Lock()
	delete(l.n.lns, l.key)
	l.n.mu.Unlock()
	return nil
}

func (l *Listener) Addr() net.Addr { return l.addr }

// ---- Conn -------------------------------------------------------------------------------------

type Conn struct {
	paused bool
	n      *Net
	Name   string
	peer   *Conn
	mu     *sync.Mutex // shared by both ends
	cond   *sync.Cond  // signalled on any change that may unblock this end
	laddr  *net.TCPAddr
	raddr  *net.TCPAddr

	in      [][]byte // inbound segments
	inBytes int
	eof     bool // peer's FIN is queued after in
	rst     bool // peer aborted
	closed  bool // this end closed
	wclosed bool // this end half-closed its sending side
	aborted bool
	limit   int // >0: at most that many inbound bytes are buffered, the writer blocks

	rdl, wdl   time.Time
	rtim, wtim *time.Timer

	waiting  int   // goroutines blocked in Read on this end
	written  int64 // bytes this end wrote
	consumed int64 // bytes this end read
	reads    int
	writes   int
	closes   int
	readFromCalls int
}

func (c *Conn) opErr(op string, e error) error {
	return &net.OpError{Op: op, Net: "tcp", Source: c.laddr, Addr: c.raddr, Err: e}
}

func (c *Conn) Read(p []byte) (int, error) {
	c.mu.Lock()
	defer c.mu.Unlock()
	for {
		if c.closed {
			return 0, c.opErr("read", net.ErrClosed)
		}
		if c.rst {
			return 0, c.opErr("read", &os.SyscallError{Syscall: "read", Err: syscall.ECONNRESET})
		}
		// (as with real sockets, an expired read deadline fails the call even when data is waiting)
		if !c.rdl.IsZero() && !time.Now().Before(c.rdl) {
			return 0, c.opErr("read", os.ErrDeadlineExceeded)
		}
		if c.paused {
			// the application at this end is not reading (SetPaused): data stays queued
			c.waiting++
			c.cond.Wait()
			c.waiting--
			continue
		}
		if len(c.in) > 0 {
			if len(p) == 0 {
				return 0, nil
			}
			seg := c.in[0]
			k := copy(p, seg)
			if k == len(seg) {
				c.in = c.in[1:]
			} else {
				c.in[0] = seg[k:]
			}
			c.inBytes -= k
			c.consumed += int64(k)
			c.reads++
			c.peer.cond.Broadcast() // writer blocked on a bounded buffer
			return k, nil
		}
		if c.eof {
			return 0, io.EOF
		}
		if !c.rdl.IsZero() && !time.Now().Before(c.rdl) {
			return 0, c.opErr("read", os.ErrDeadlineExceeded)
		}
		c.waiting++
		c.cond.Wait()
		c.waiting--
	}
}

func (c *Conn) Write(p []byte) (int, error) {
	c.mu.Lock()
	defer c.mu.Unlock()
	total := 0
	for {
		if c.closed {
			return total, c.opErr("write", net.ErrClosed)
		}
		if c.wclosed {
			return total, c.opErr("write", &os.SyscallError{Syscall: "write", Err: syscall.EPIPE})
		}
		if c.rst {
			return total, c.opErr("write", &os.SyscallError{Syscall: "write", Err: syscall.ECONNRESET})
		}
		if c.peer.closed {
			return total, c.opErr("write", &os.SyscallError{Syscall: "write", Err: syscall.EPIPE})
		}
		if !c.wdl.IsZero() && !time.Now().Before(c.wdl) {
			return total, c.opErr("write", os.ErrDeadlineExceeded)
		}
		if len(p) == 0 {
			return total, nil
		}
		room := len(p)
		if c.peer.limit > 0 {
			room = c.peer.limit - c.peer.inBytes
			if room <= 0 {
				c.cond.Wait()
				continue
			}
			if room > len(p) {
				room = len(p)
			}
		}
		seg := append([]byte(nil), p[:room]...)
		c.peer.in = append(c.peer.in, seg)
		c.peer.inBytes += room
		c.written += int64(room)
		c.writes++
		total += room
		p = p[room:]
		c.peer.cond.Broadcast()
		if len(p) == 0 {
			return total, nil
		}
	}
}

// Close releases this end; the peer observes end-of-stream after the queued data.
func (c *Conn) Close() error {
	c.mu.Lock()
	defer c.mu.Unlock()
	c.closes++
	if c.closed {
		return c.opErr("close", net.ErrClosed)
	}
	c.closed = true
	c.peer.eof = true
	c.stopTimers()
	c.cond.Broadcast()
	c.peer.cond.Broadcast()
	return nil
}

// TCPLike is what the code under test gets from Dial / Accept when Net.FastPath is set: the connection plus the
// ReadFrom / WriteTo methods of *net.TCPConn.
type TCPLike struct{ *Conn }

func (t TCPLike) ReadFrom(r io.Reader) (int64, error) { return t.Conn.readFrom(r) }
func (t TCPLike) WriteTo(w io.Writer) (int64, error)  { return t.Conn.writeTo(w) }

// readFrom and writeTo exist because *net.TCPConn has ReadFrom and WriteTo (sendfile / splice fast paths): code that type-asserts
// io.ReaderFrom / io.WriterTo on the raw connection takes the same branch here as on a real socket. They move the
// same bytes as a Write / Read loop would, and are counted so that a layer that must see every byte can be checked.
func (c *Conn) readFrom(r io.Reader) (int64, error) {
	c.mu.Lock()
	c.readFromCalls++
	c.mu.Unlock()
	buf := make([]byte, 32<<10)
	var total int64
	for {
		n, err := r.Read(buf)
		if n > 0 {
			m, werr := c.Write(buf[:n])
			total += int64(m)
			if werr != nil {
				return total, werr
			}
		}
		if err != nil {
			if err == io.EOF {
				err = nil
			}
			return total, err
		}
	}
}

func (c *Conn) writeTo(w io.Writer) (int64, error) {
	buf := make([]byte, 32<<10)
	var total int64
	for {
		n, err := c.Read(buf)
		if n > 0 {
			m, werr := w.Write(buf[:n])
			total += int64(m)
			if werr != nil {
				return total, werr
			}
		}
		if err != nil {
			if err == io.EOF {
				err = nil
			}
			return total, err
		}
	}
}

// CloseWrite half-closes the sending side (FIN).
func (c *Conn) CloseWrite() error {
	c.mu.Lock()
	defer c.mu.Unlock()
	if c.closed {
		return c.opErr("close", net.ErrClosed)
	}
	c.wclosed = true
	c.peer.eof = true
	c.peer.cond.Broadcast()
	return nil
}

// CloseRead shuts down the receiving side.
func (c *Conn) CloseRead() error {
	c.mu.Lock()
	defer c.mu.Unlock()
	if c.closed {
		return c.opErr("close", net.ErrClosed)
	}
	c.in, c.inBytes, c.eof = nil, 0, true
	c.cond.Broadcast()
	return nil
}

// Abort closes this end with an RST: the peer's reads and writes fail with ECONNRESET.
func (c *Conn) Abort() {
	c.mu.Lock()
	defer c.mu.Unlock()
	if c.closed {
		return
	}
	c.closed, c.aborted = true, true
	c.peer.rst = true
	c.peer.in, c.peer.inBytes = nil, 0
	c.stopTimers()
	c.cond.Broadcast()
	c.peer.cond.Broadcast()
}

func (c *Conn) stopTimers() {
	if c.rtim != nil {
		c.rtim.Stop()
	}
	if c.wtim != nil {
		c.wtim.Stop()
	}
}

func (c *Conn) LocalAddr() net.Addr  { return c.laddr }
func (c *Conn) RemoteAddr() net.Addr { return c.raddr }

func (c *Conn) SetDeadline(t time.Time) error {
	c.SetReadDeadline(t)
	return c.SetWriteDeadline(t)
}

func (c *Conn) SetReadDeadline(t time.Time) error {
	c.mu.Lock()
	defer c.mu.Unlock()
	if c.closed {
		return c.opErr("set", net.ErrClosed)
	}
	c.rdl = t
	if c.rtim != nil {
		c.rtim.Stop()
		c.rtim = nil
	}
	if !t.IsZero() {
		d := time.Until(t)
		if d <= 0 {
			c.cond.Broadcast()
		} else {
			c.rtim = time.AfterFunc(d, func() {
				c.mu.Lock()
				c.cond.Broadcast()
				c.mu.Unlock()
			})
		}
	}
	return nil
}

func (c *Conn) SetWriteDeadline(t time.Time) error {
	c.mu.Lock()
	defer c.mu.Unlock()
	if c.closed {
		return c.opErr("set", net.ErrClosed)
	}
	c.wdl = t
	if c.wtim != nil {
		c.wtim.Stop()
		c.wtim = nil
	}
	if !t.IsZero() {
		d := time.Until(t)
		if d <= 0 {
			c.cond.Broadcast()
		} else {
			c.wtim = time.AfterFunc(d, func() {
				c.mu.Lock()
				c.cond.Broadcast()
				c.mu.Unlock()
			})
		}
	}
	return nil
}

// ---- scripted-peer (non-blocking) interface ------------------------------------------------------

// SetPaused makes Read at this end wait even when data is queued (an application that has stopped
// reading its socket); combine with SetLimit to push back on the writer.
func (c *Conn) SetPaused(v bool) {
	c.mu.Lock()
	c.paused = v
	c.mu.Unlock()
	c.cond.Broadcast()
}

// SetLimit bounds the number of bytes buffered towards this end (models a full receive window).
func (c *Conn) SetLimit(n int) {
	c.mu.Lock()
	c.limit = n
	c.mu.Unlock()
	c.peer.cond.Broadcast()
}

// Take removes and returns everything queued towards this end.
func (c *Conn) Take() []byte {
	c.mu.Lock()
	defer c.mu.Unlock()
	var out []byte
	for _, s := range c.in {
		out = append(out, s...)
	}
	c.consumed += int64(len(out))
	c.in, c.inBytes = nil, 0
	c.peer.cond.Broadcast()
	return out
}

// TakeSegments is Take preserving the write boundaries of the sender.
func (c *Conn) TakeSegments() [][]byte {
	c.mu.Lock()
	defer c.mu.Unlock()
	out := c.in
	for _, s := range out {
		c.consumed += int64(len(s))
	}
	c.in, c.inBytes = nil, 0
	c.peer.cond.Broadcast()
	return out
}

type Status struct {
	Pending     int  // bytes queued towards this end
	EOF         bool // peer sent FIN (or closed); visible once Pending == 0
	Reset       bool // peer aborted
	PeerClosed  bool // peer released its end
	Closed      bool // this end released
	PeerWrote   int64
	PeerRead    int64
	PeerCloses  int
	PeerReading bool // a goroutine of the other side is blocked in Read
}

func (c *Conn) Status() Status {
	c.mu.Lock()
	defer c.mu.Unlock()
	return Status{Pending: c.inBytes, EOF: c.eof, Reset: c.rst, PeerClosed: c.peer.closed, Closed: c.closed,
		PeerWrote: c.peer.written, PeerRead: c.peer.consumed, PeerCloses: c.peer.closes, PeerReading: c.peer.waiting > 0}
}

// Peer returns the other end (harness use only).
func (c *Conn) Peer() *Conn { return c.peer }

// IsClosed reports whether this end has been released.
func (c *Conn) IsClosed() bool {
	c.mu.Lock()
	defer c.mu.Unlock()
	return c.closed
}

// Closes is the number of Close calls on this end.
func (c *Conn) Closes() int {
	c.mu.Lock()
	defer c.mu.Unlock()
	return c.closes
}

func (c *Conn) Written() int64 {
	c.mu.Lock()
	defer c.mu.Unlock()
	return c.written
}

func (c *Conn) Consumed() int64 {
	c.mu.Lock()
	defer c.mu.Unlock()
	return c.consumed
}
