// Package tsched connects the cooperative scheduler (vsync) with the explorer: every scheduling
// decision is a choice point; switching away from a thread that could continue costs one deviation,
// so the scenario's deviation bound is the preemption bound (iterative context bounding).
package tsched

import (
	"strings"
	"testing"
	"time"

	"github.com/saucelabs/forwarder/internal/zzverif/bubble"
	"github.com/saucelabs/forwarder/internal/zzverif/explore"
	"github.com/saucelabs/forwarder/internal/zzverif/vsync"
)

// Run executes one schedule of body inside a fresh bubble. setup runs before the scheduler is installed
// (plain goroutines), body starts the threads with vsync.Go / rewritten go statements, after returns the
// scheduler's verdict (deadlock, step limit) is reported and check runs on the final state.
func Run(t *testing.T, x *explore.X, horizon time.Duration, idleIsDone bool, body func(), check func(s *vsync.Scheduler)) {
	bubble.Run(t, x, func() {
		s := vsync.Explore(func(label string, n int, free bool) int {
			if free {
				return x.ChooseFree(label, n)
			}
			return x.Choose(label, n)
		}, horizon, idleIsDone, body)
		if x.Tracing() {
			x.Logf("schedule (%d steps, %d preemptions):\n  %s", s.Steps, s.Preempt, strings.Join(s.Trace, "\n  "))
		}
		if s.Err != "" {
			sig := "deadlock"
			if strings.HasPrefix(s.Err, "step limit") {
				sig = "livelock"
			}
			x.Failf(sig, "%s\n  schedule: %s", s.Err, strings.Join(s.Trace, " | "))
		}
		check(s)
	})
}
