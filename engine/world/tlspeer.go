package world

import (
	"bufio"
	"crypto/ecdsa"
	"crypto/elliptic"
	"crypto/rand"
	"crypto/tls"
	"crypto/x509"
	"crypto/x509/pkix"
	"encoding/pem"
	"fmt"
	"math/big"
	"net"
	"net/http"
	"sync"
	"testing/synctest"
	"time"
)

// PKI is a throw-away certificate authority for scripted TLS origins / upstream proxies. It must be
// created inside the bubble so that validity periods are relative to the virtual clock.
type PKI struct {
	CA     *x509.Certificate
	CAKey  *ecdsa.PrivateKey
	CAPEM  []byte
	serial int64
}

func NewPKI(cn string) *PKI {
	key, err := ecdsa.GenerateKey(elliptic.P256(), rand.Reader)
	if err != nil {
		panic(err)
	}
	tmpl := &x509.Certificate{
		SerialNumber:          big.NewInt(1),
		Subject:               pkix.Name{CommonName: cn},
		NotBefore:             time.Now().Add(-time.Hour),
		NotAfter:              time.Now().Add(24 * time.Hour),
		KeyUsage:              x509.KeyUsageCertSign | x509.KeyUsageDigitalSignature,
		BasicConstraintsValid: true,
		IsCA:                  true,
	}
	raw, err := x509.CreateCertificate(rand.Reader, tmpl, tmpl, key.Public(), key)
	if err != nil {
		panic(err)
	}
	ca, _ := x509.ParseCertificate(raw)
	return &PKI{CA: ca, CAKey: key, CAPEM: pem.EncodeToMemory(&pem.Block{Type: "CERTIFICATE", Bytes: raw}), serial: 1}
}

// Leaf issues a server certificate. notBefore/notAfter are offsets from the virtual now.
func (p *PKI) Leaf(names []string, notBefore, notAfter time.Duration) tls.Certificate {
	key, err := ecdsa.GenerateKey(elliptic.P256(), rand.Reader)
	if err != nil {
		panic(err)
	}
	p.serial++
	tmpl := &x509.Certificate{
		SerialNumber: big.NewInt(p.serial),
		Subject:      pkix.Name{CommonName: names[0]},
		NotBefore:    time.Now().Add(notBefore),
		NotAfter:     time.Now().Add(notAfter),
		KeyUsage:     x509.KeyUsageDigitalSignature,
		ExtKeyUsage:  []x509.ExtKeyUsage{x509.ExtKeyUsageServerAuth},
	}
	for _, n := range names {
		if ip := net.ParseIP(n); ip != nil {
			tmpl.IPAddresses = append(tmpl.IPAddresses, ip)
		} else {
			tmpl.DNSNames = append(tmpl.DNSNames, n)
		}
	}
	raw, err := x509.CreateCertificate(rand.Reader, tmpl, p.CA, key.Public(), p.CAKey)
	if err != nil {
		panic(err)
	}
	leaf, _ := x509.ParseCertificate(raw)
	return tls.Certificate{Certificate: [][]byte{raw}, PrivateKey: key, Leaf: leaf}
}

func (p *PKI) Pool() *x509.CertPool {
	pool := x509.NewCertPool()
	pool.AddCert(p.CA)
	return pool
}

// TLSPeer is a scripted TLS endpoint on top of a simnet connection: the handshake and all reads
// run in a pump goroutine inside the bubble; the scenario observes the accumulated plaintext after
// synctest.Wait().
type TLSPeer struct {
	T   *tls.Conn
	Raw *Peer

	mu      sync.Mutex
	buf     []byte
	hsDone  bool
	hsErr   error
	readErr error
	done    chan struct{}
	// Connect is the request line of the CONNECT an upstream-proxy peer received (UpstreamProxyThenTLS)
	Connect string
}

func startTLS(t *tls.Conn, raw *Peer) *TLSPeer {
	p := &TLSPeer{T: t, Raw: raw, done: make(chan struct{})}
	go func() {
		defer close(p.done)
		err := t.Handshake()
		p.mu.Lock()
		p.hsDone, p.hsErr = true, err
		p.mu.Unlock()
		if err != nil {
			return
		}
		b := make([]byte, 64<<10)
		for {
			n, err := t.Read(b)
			p.mu.Lock()
			scanPoison(raw.C.Name+" (TLS plaintext)", p.buf, b[:n])
			p.buf = append(p.buf, b[:n]...)
			if err != nil {
				p.readErr = err
				p.mu.Unlock()
				return
			}
			p.mu.Unlock()
		}
	}()
	synctest.Wait()
	return p
}

// TLSClient starts a TLS client handshake over raw.
func TLSClient(raw *Peer, cfg *tls.Config) *TLSPeer { return startTLS(tls.Client(raw.C, cfg), raw) }

// TLSServer starts a TLS server handshake over raw.
func TLSServer(raw *Peer, cfg *tls.Config) *TLSPeer { return startTLS(tls.Server(raw.C, cfg), raw) }

// Handshake reports whether the handshake finished and its error.
func (p *TLSPeer) Handshake() (done bool, err error) {
	p.mu.Lock()
	defer p.mu.Unlock()
	return p.hsDone, p.hsErr
}

func (p *TLSPeer) Send(b []byte) error {
	_, err := p.T.Write(b)
	synctest.Wait()
	return err
}

// Recv returns all plaintext received so far.
func (p *TLSPeer) Recv() []byte {
	p.mu.Lock()
	defer p.mu.Unlock()
	return append([]byte(nil), p.buf...)
}

// ReadErr is the error that ended the read pump (io.EOF after close_notify), or nil.
func (p *TLSPeer) ReadErr() error {
	p.mu.Lock()
	defer p.mu.Unlock()
	return p.readErr
}

// Close closes the TLS connection and the underlying simnet end and waits for the pump to finish.
func (p *TLSPeer) Close() {
	p.mu.Lock()
	t := p.T
	p.mu.Unlock()
	if t != nil {
		t.Close()
	}
	p.Raw.C.Close()
	<-p.done
	synctest.Wait()
}

// State returns the connection state (valid after a successful handshake).
func (p *TLSPeer) State() tls.ConnectionState { return p.T.ConnectionState() }

// CloseWrite sends close_notify (the TLS half-close).
func (p *TLSPeer) CloseWrite() { p.T.CloseWrite(); synctest.Wait() }

// SawEOF reports whether the peer's close_notify / FIN was read after all data.
func (p *TLSPeer) SawEOF() bool { return p.ReadErr() != nil }

// PeerReleased reports whether the other side released the underlying connection.
func (p *TLSPeer) PeerReleased() bool { return p.Raw.C.Status().PeerClosed }

// UpstreamProxyThenTLS plays an upstream HTTP (outer == nil) or HTTPS proxy on raw and then the TLS origin
// the CONNECT names: [outer TLS handshake,] read one CONNECT head, answer 200, then serve TLS with the
// configuration pick returns for the CONNECT authority (nil: answer 502 instead). The returned peer is
// the origin's TLS session; a failure in any earlier step is reported as its handshake error.
func UpstreamProxyThenTLS(raw *Peer, outer *tls.Config, pick func(authority string) *tls.Config) *TLSPeer {
	p := &TLSPeer{Raw: raw, done: make(chan struct{})}
	go func() {
		defer close(p.done)
		fail := func(err error) {
			p.mu.Lock()
			p.hsDone, p.hsErr = true, err
			p.mu.Unlock()
		}
		var conn net.Conn = raw.C
		if outer != nil {
			oc := tls.Server(conn, outer)
			if err := oc.Handshake(); err != nil {
				fail(fmt.Errorf("upstream proxy TLS handshake: %w", err))
				return
			}
			conn = oc
		}
		req, err := http.ReadRequest(bufio.NewReaderSize(conn, 1)) // (bufio enforces a minimum size; a CONNECT head is followed by nothing until it is answered)
		if err != nil {
			fail(fmt.Errorf("upstream proxy reading the request: %w", err))
			return
		}
		p.mu.Lock()
		p.Connect = req.Method + " " + req.RequestURI
		p.mu.Unlock()
		var cfg *tls.Config
		if req.Method == http.MethodConnect {
			cfg = pick(req.RequestURI)
		}
		if cfg == nil {
			conn.Write([]byte("HTTP/1.1 502 Bad Gateway\r\nContent-Length: 0\r\n\r\n"))
			fail(fmt.Errorf("upstream proxy: no origin for %q", p.Connect))
			return
		}
		conn.Write([]byte("HTTP/1.1 200 OK\r\n\r\n"))
		t := tls.Server(conn, cfg)
		p.mu.Lock()
		p.T = t
		p.mu.Unlock()
		err = t.Handshake()
		p.mu.Lock()
		p.hsDone, p.hsErr = true, err
		p.mu.Unlock()
		if err != nil {
			return
		}
		b := make([]byte, 64<<10)
		for {
			n, err := t.Read(b)
			p.mu.Lock()
			scanPoison(raw.C.Name+" (TLS plaintext)", p.buf, b[:n])
			p.buf = append(p.buf, b[:n]...)
			if err != nil {
				p.readErr = err
				p.mu.Unlock()
				return
			}
			p.mu.Unlock()
		}
	}()
	synctest.Wait()
	return p
}

// TLSClientThroughTLSProxy is the client of a proxy whose listener is TLS (--protocol https): outer TLS
// handshake with the proxy, one CONNECT head written inside it, the reply head read octet by octet, then
// the inner TLS session (cfg) starts inside the outer one. reply is the CONNECT reply head ("" when none
// arrived); when it is not a 2xx the inner session is not started and the returned peer is nil.
func TLSClientThroughTLSProxy(raw *Peer, outer *tls.Config, connectHead string, cfg *tls.Config) (p *TLSPeer, reply string, err error) {
	ot := tls.Client(raw.C, outer)
	var mu sync.Mutex
	var head []byte
	var herr error
	finished := false
	go func() {
		e := ot.Handshake()
		if e == nil {
			_, e = ot.Write([]byte(connectHead))
		}
		b := make([]byte, 1)
		for e == nil {
			var n int
			n, e = ot.Read(b)
			mu.Lock()
			head = append(head, b[:n]...)
			end := len(head) >= 4 && string(head[len(head)-4:]) == "\r\n\r\n"
			mu.Unlock()
			if end {
				break
			}
		}
		mu.Lock()
		herr, finished = e, true
		mu.Unlock()
	}()
	synctest.Wait()
	mu.Lock()
	reply, err = string(head), herr
	fin := finished
	mu.Unlock()
	if !fin {
		// the reader is still waiting for the rest of the head: release it
		raw.C.Close()
		synctest.Wait()
		return nil, reply, fmt.Errorf("no complete CONNECT reply from the TLS proxy")
	}
	if err != nil || len(reply) < 12 || reply[9] != '2' {
		return nil, reply, err
	}
	return startTLS(tls.Client(ot, cfg), raw), reply, nil
}
