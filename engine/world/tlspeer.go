package world

import (
	"crypto/ecdsa"
	"crypto/elliptic"
	"crypto/rand"
	"crypto/tls"
	"crypto/x509"
	"crypto/x509/pkix"
	"encoding/pem"
	"math/big"
	"net"
	"sync"
	"testing/synctest"
	"time"
)

// PKI is a throw-away certificate authority for scripted TLS origins / upstream proxies. It must be
// created inside the bubble so that validity periods are relative to the virtual clock.
type PKI struct {
	CA     *x509.Certificate
	CAKey  *ecdsa.PrivateKey
	CAPEM  []byte
	serial int64
}

func NewPKI(cn string) *PKI {
	key, err := ecdsa.GenerateKey(elliptic.P256(), rand.Reader)
	if err != nil {
		panic(err)
	}
	tmpl := &x509.Certificate{
		SerialNumber:          big.NewInt(1),
		Subject:               pkix.Name{CommonName: cn},
		NotBefore:             time.Now().Add(-time.Hour),
		NotAfter:              time.Now().Add(24 * time.Hour),
		KeyUsage:              x509.KeyUsageCertSign | x509.KeyUsageDigitalSignature,
		BasicConstraintsValid: true,
		IsCA:                  true,
	}
	raw, err := x509.CreateCertificate(rand.Reader, tmpl, tmpl, key.Public(), key)
	if err != nil {
		panic(err)
	}
	ca, _ := x509.ParseCertificate(raw)
	return &PKI{CA: ca, CAKey: key, CAPEM: pem.EncodeToMemory(&pem.Block{Type: "CERTIFICATE", Bytes: raw}), serial: 1}
}

// Leaf issues a server certificate. notBefore/notAfter are offsets from the virtual now.
func (p *PKI) Leaf(names []string, notBefore, notAfter time.Duration) tls.Certificate {
	key, err := ecdsa.GenerateKey(elliptic.P256(), rand.Reader)
	if err != nil {
		panic(err)
	}
	p.serial++
	tmpl := &x509.Certificate{
		SerialNumber: big.NewInt(p.serial),
		Subject:      pkix.Name{CommonName: names[0]},
		NotBefore:    time.Now().Add(notBefore),
		NotAfter:     time.Now().Add(notAfter),
		KeyUsage:     x509.KeyUsageDigitalSignature,
		ExtKeyUsage:  []x509.ExtKeyUsage{x509.ExtKeyUsageServerAuth},
	}
	for _, n := range names {
		if ip := net.ParseIP(n); ip != nil {
			tmpl.IPAddresses = append(tmpl.IPAddresses, ip)
		} else {
			tmpl.DNSNames = append(tmpl.DNSNames, n)
		}
	}
	raw, err := x509.CreateCertificate(rand.Reader, tmpl, p.CA, key.Public(), p.CAKey)
	if err != nil {
		panic(err)
	}
	leaf, _ := x509.ParseCertificate(raw)
	return tls.Certificate{Certificate: [][]byte{raw}, PrivateKey: key, Leaf: leaf}
}

func (p *PKI) Pool() *x509.CertPool {
	pool := x509.NewCertPool()
	pool.AddCert(p.CA)
	return pool
}

// TLSPeer is a scripted TLS endpoint on top of a simnet connection: the handshake and all reads
// run in a pump goroutine inside the bubble; the scenario observes the accumulated plaintext after
// synctest.Wait().
type TLSPeer struct {
	T   *tls.Conn
	Raw *Peer

	mu      sync.Mutex
	buf     []byte
	hsDone  bool
	hsErr   error
	readErr error
	done    chan struct{}
}

func startTLS(t *tls.Conn, raw *Peer) *TLSPeer {
	p := &TLSPeer{T: t, Raw: raw, done: make(chan struct{})}
	go func() {
		defer close(p.done)
		err := t.Handshake()
		p.mu.Lock()
		p.hsDone, p.hsErr = true, err
		p.mu.Unlock()
		if err != nil {
			return
		}
		b := make([]byte, 64<<10)
		for {
			n, err := t.Read(b)
			p.mu.Lock()
			p.buf = append(p.buf, b[:n]...)
			if err != nil {
				p.readErr = err
				p.mu.Unlock()
				return
			}
			p.mu.Unlock()
		}
	}()
	synctest.Wait()
	return p
}

// TLSClient starts a TLS client handshake over raw.
func TLSClient(raw *Peer, cfg *tls.Config) *TLSPeer { return startTLS(tls.Client(raw.C, cfg), raw) }

// TLSServer starts a TLS server handshake over raw.
func TLSServer(raw *Peer, cfg *tls.Config) *TLSPeer { return startTLS(tls.Server(raw.C, cfg), raw) }

// Handshake reports whether the handshake finished and its error.
func (p *TLSPeer) Handshake() (done bool, err error) {
	p.mu.Lock()
	defer p.mu.Unlock()
	return p.hsDone, p.hsErr
}

func (p *TLSPeer) Send(b []byte) error {
	_, err := p.T.Write(b)
	synctest.Wait()
	return err
}

// Recv returns all plaintext received so far.
func (p *TLSPeer) Recv() []byte {
	p.mu.Lock()
	defer p.mu.Unlock()
	return append([]byte(nil), p.buf...)
}

// ReadErr is the error that ended the read pump (io.EOF after close_notify), or nil.
func (p *TLSPeer) ReadErr() error {
	p.mu.Lock()
	defer p.mu.Unlock()
	return p.readErr
}

// Close closes the TLS connection and the underlying simnet end and waits for the pump to finish.
func (p *TLSPeer) Close() {
	p.T.Close()
	p.Raw.C.Close()
	<-p.done
	synctest.Wait()
}

// State returns the connection state (valid after a successful handshake).
func (p *TLSPeer) State() tls.ConnectionState { return p.T.ConnectionState() }

// CloseWrite sends close_notify (the TLS half-close).
func (p *TLSPeer) CloseWrite() { p.T.CloseWrite(); synctest.Wait() }

// SawEOF reports whether the peer's close_notify / FIN was read after all data.
func (p *TLSPeer) SawEOF() bool { return p.ReadErr() != nil }

// PeerReleased reports whether the other side released the underlying connection.
func (p *TLSPeer) PeerReleased() bool { return p.Raw.C.Status().PeerClosed }
