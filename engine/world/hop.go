package world

import (
	"crypto/tls"
	"fmt"

	"github.com/saucelabs/forwarder/internal/zzverif/httpwire"
)

// Stream is what Peer and TLSPeer have in common.
type Stream interface {
	Send([]byte) error
	Recv() []byte
	Close()
}

// Hop is a scripted next hop (origin or upstream proxy): a listener plus the connections accepted
// so far and, per connection, how many complete requests the scenario has already consumed.
type Hop struct {
	Srv   *Server
	TLS   *tls.Config // non-nil: the hop speaks TLS
	Conns []Stream
	Raw   []*Peer
	seen  []int
}

func (w *World) Hop(addr string, tlsCfg *tls.Config) (*Hop, error) {
	srv, err := w.Server(addr)
	if err != nil {
		return nil, err
	}
	return &Hop{Srv: srv, TLS: tlsCfg}, nil
}

// Poll accepts pending connections.
func (h *Hop) Poll() {
	for {
		p := h.Srv.Accept()
		if p == nil {
			return
		}
		h.Raw = append(h.Raw, p)
		if h.TLS != nil {
			h.Conns = append(h.Conns, TLSServer(p, h.TLS))
		} else {
			h.Conns = append(h.Conns, p)
		}
		h.seen = append(h.seen, 0)
	}
}

// Next returns the requests that became complete since the last call, with their connection index.
// problem is non-empty when a connection holds malformed or incomplete request bytes.
func (h *Hop) Next() (msgs []httpwire.Msg, conn []int, problem string) {
	h.Poll()
	for i, c := range h.Conns {
		st := httpwire.ParseRequests(c.Recv())
		if st.State == "syntax" {
			return nil, nil, fmt.Sprintf("next hop received a malformed request: %s (stream %q)", st.Err, Clip(c.Recv()))
		}
		for k := h.seen[i]; k < len(st.Msgs); k++ {
			msgs = append(msgs, st.Msgs[k])
			conn = append(conn, i)
		}
		h.seen[i] = len(st.Msgs)
		if st.State != "" && st.State != "tunnel" && len(st.Rest) > 0 {
			problem = fmt.Sprintf("next hop holds an incomplete request (%s): %q", st.State, Clip(st.Rest))
		}
	}
	return msgs, conn, problem
}

// TotalBytes is the number of bytes received on all connections of the hop.
func (h *Hop) TotalBytes() int {
	h.Poll()
	n := 0
	for _, c := range h.Conns {
		n += len(c.Recv())
	}
	return n
}

func (h *Hop) Close() {
	h.Poll()
	for _, c := range h.Conns {
		c.Close()
	}
}

// Shutdown stops listening (later dials are refused) and closes every connection, so that transparent
// retries of the proxy's transport cannot park a request on a connection nobody serves.
func (h *Hop) Shutdown() {
	h.Poll()
	h.Srv.L.Close()
	for _, c := range h.Conns {
		c.Close()
	}
}

// Clip shortens long byte strings for messages.
func Clip(b []byte) string {
	if len(b) > 600 {
		return string(b[:300]) + fmt.Sprintf("…(%d bytes)…", len(b)-600) + string(b[len(b)-300:])
	}
	return string(b)
}
