package world

import (
	"fmt"
	"net"
	"strconv"
)

// Socks5 is the state of a scripted SOCKS5 server on one connection. Step is called after every
// quiescence; it looks at everything received so far and answers what is due.
type Socks5 struct {
	state   int    // 0 greeting, 1 auth, 2 request, 3 established
	off     int    // bytes of the stream consumed by the handshake
	Offered []byte // methods offered by the client
	User    string
	Pass    string
	Target  string // host:port requested
	Err     string
}

// Step advances the handshake; it returns the payload bytes received after the handshake.
func (s *Socks5) Step(p *Peer) []byte {
	for {
		b := p.Recv()[s.off:]
		switch s.state {
		case 0:
			if len(b) < 2 || len(b) < 2+int(b[1]) {
				return nil
			}
			if b[0] != 5 {
				s.Err = fmt.Sprintf("not a SOCKS5 greeting: % x", b)
				return nil
			}
			s.Offered = append([]byte(nil), b[2:2+int(b[1])]...)
			s.off += 2 + int(b[1])
			method := byte(0)
			for _, m := range s.Offered {
				if m == 2 {
					method = 2
				}
			}
			p.Send([]byte{5, method})
			if method == 2 {
				s.state = 1
			} else {
				s.state = 2
			}
		case 1:
			if len(b) < 2 || len(b) < 2+int(b[1])+1 {
				return nil
			}
			ul := int(b[1])
			pl := int(b[2+ul])
			if len(b) < 3+ul+pl {
				return nil
			}
			s.User, s.Pass = string(b[2:2+ul]), string(b[3+ul:3+ul+pl])
			s.off += 3 + ul + pl
			p.Send([]byte{1, 0})
			s.state = 2
		case 2:
			if len(b) < 5 {
				return nil
			}
			var host string
			var n int
			switch b[3] {
			case 1:
				n = 4 + 4
				if len(b) < n+2 {
					return nil
				}
				host = net.IP(b[4:8]).String()
			case 4:
				n = 4 + 16
				if len(b) < n+2 {
					return nil
				}
				host = net.IP(b[4:20]).String()
			case 3:
				n = 5 + int(b[4])
				if len(b) < n+2 {
					return nil
				}
				host = string(b[5:n])
			default:
				s.Err = fmt.Sprintf("bad address type %d", b[3])
				return nil
			}
			port := int(b[n])<<8 | int(b[n+1])
			s.Target = net.JoinHostPort(host, strconv.Itoa(port))
			s.off += n + 2
			p.Send([]byte{5, 0, 0, 1, 0, 0, 0, 0, 0, 0})
			s.state = 3
		default:
			return b
		}
	}
}

func (s *Socks5) Established() bool { return s.state == 3 }
