// Package world closes the system around a real forwarder.HTTPProxy for Engine S: the proxy is
// built by the exported constructors exactly like command/run does, on top of simnet through the
// listen/dial seams, inside a testing/synctest bubble. Scripted peers are driven event by event;
// after every event the scenario waits for quiescence (synctest.Wait) and only then observes.
package world

import (
	"bytes"
	"context"
	"encoding/base64"
	"fmt"
	"net"
	"net/http"
	"net/url"
	"runtime"
	"sort"
	"strings"
	"sync"
	"testing"
	"testing/synctest"
	"time"

	"github.com/prometheus/client_golang/prometheus"
	dto "github.com/prometheus/client_model/go"
	"github.com/saucelabs/forwarder"
	"github.com/saucelabs/forwarder/bind"
	"github.com/saucelabs/forwarder/header"
	"github.com/saucelabs/forwarder/httplog"
	"github.com/saucelabs/forwarder/internal/zzverif/simnet"
	"github.com/saucelabs/forwarder/log"
	"github.com/saucelabs/forwarder/log/martianlog"
	"github.com/saucelabs/forwarder/pac"
	"github.com/saucelabs/forwarder/ruleset"
	"github.com/spf13/pflag"
)

const ProxyAddr = "proxy.test:3128"

// Options selects the configuration under test. Zero value = a plain direct proxy.
type Options struct {
	Name            string
	Upstream        string   // proxy URL, e.g. http://up.test:8080
	PAC             string   // PAC script
	Credentials     []string // user:pass@host:port entries
	BasicAuth       string   // user:pass
	DenyDomains     []string
	DirectDomains   []string
	MITMDomains     []string
	MITM            bool
	MITMConfig      *forwarder.MITMConfig
	ProxyLocalhost  forwarder.ProxyLocalhostMode
	ConnectTo       []string // src_host:src_port:dst_host:dst_port
	RequestHeaders  []string
	ResponseHeaders []string
	ConnectHeaders  []string
	AllowTimeFrame  []string
	ProxyProtocol   bool
	ProxyProtoTO    time.Duration
	ProxyProtoNoTO  bool // the PROXY header may take as long as it likes (timeout 0)
	TLSListener     bool
	ReadLimit       int64
	WriteLimit      int64
	HTTPHandler     bool
	NoProm          bool
	ConnectFunc     forwarder.ConnectFunc
	Tweak           func(cfg *forwarder.HTTPProxyConfig, tcfg *forwarder.HTTPTransportConfig)
	Flags           []string // command-line arguments of `forwarder run` applied to the configuration through the flags of package bind (HTTPProxyConfig, ProxyProtocol), as the command binds them
	FastPathSockets bool                     // the proxy's sockets offer ReadFrom / WriteTo like *net.TCPConn (simnet.Net.FastPath)
	TweakTransport  func(tr *http.Transport) // last word on the transport (e.g. the wiring of another package)
	TransportCAPEM  []byte // root CA the proxy's transport trusts (data: URI is built from it)
	Insecure        bool
	ShutdownTimeout time.Duration
	LogHTTP         string // --log-http mode: none, short-url, url, headers, body, errors (default)
	Net             *simnet.Net // share an existing network (several proxy instances in one bubble)
	Addr            string      // listen address (default ProxyAddr)
}

type World struct {
	Net        *simnet.Net
	Proxy      *forwarder.HTTPProxy
	Reg        *prometheus.Registry
	Log        *MemLog
	Cfg        *forwarder.HTTPProxyConfig
	Addr       string
	V6Clients  bool // Client() connects from an IPv6 source address
	cancel     context.CancelFunc
	runErr     chan error
	stopped    bool
	nclient    int
	servers    []*Server
	probeConns []*Peer
}

var initOnce sync.Once

// Start builds and runs the proxy. Must be called inside a synctest bubble.
func Start(o Options) (*World, error) {
	w := &World{Net: o.Net, Log: &MemLog{}, Addr: ProxyAddr}
	if w.Net == nil {
		w.Net = simnet.New()
	}
	if o.Addr != "" {
		w.Addr = o.Addr
	}
	if o.FastPathSockets {
		w.Net.FastPath = true
	}
	forwarder.VerifListen = func(addr string) (net.Listener, error) { return w.Net.Listen(addr) }
	forwarder.VerifDial = w.Net.Dial
	martianlog.SetLogger(w.Log.Named("martian"))

	tcfg := forwarder.DefaultHTTPTransportConfig()
	cfg := forwarder.DefaultHTTPProxyConfig()
	cfg.Address = w.Addr
	if !o.NoProm {
		w.Reg = prometheus.NewRegistry()
		cfg.PromRegistry = w.Reg
		cfg.PromNamespace = "forwarder"
		tcfg.PromRegistry = w.Reg
		tcfg.PromNamespace = "forwarder"
	}
	if o.Name != "" {
		cfg.Name = o.Name
	}
	w.Net.DialTimeout = tcfg.DialTimeout
	if len(o.ConnectTo) > 0 {
		var pairs []forwarder.HostPortPair
		for _, s := range o.ConnectTo {
			p, err := forwarder.ParseHostPortPair(s)
			if err != nil {
				return nil, fmt.Errorf("connect-to %q: %w", s, err)
			}
			pairs = append(pairs, p)
		}
		tcfg.RedirectFunc = forwarder.DialRedirectFromHostPortPairs(pairs)
	}
	if o.TransportCAPEM != nil {
		tcfg.CACertFiles = []string{"data:base64," + base64.StdEncoding.EncodeToString(o.TransportCAPEM)}
	}
	tcfg.Insecure = o.Insecure

	if o.Upstream != "" {
		u, err := forwarder.ParseProxyURL(o.Upstream)
		if err != nil {
			return nil, fmt.Errorf("upstream %q: %w", o.Upstream, err)
		}
		cfg.UpstreamProxy = u
	}
	var pr forwarder.PACResolver
	if o.PAC != "" {
		p, err := pac.NewProxyResolverPool(&pac.ProxyResolverConfig{Script: o.PAC}, nil)
		if err != nil {
			return nil, fmt.Errorf("pac: %w", err)
		}
		pr = &forwarder.LoggingPACResolver{Resolver: p, Logger: w.Log.Named("pac")}
	}
	var creds []*forwarder.HostPortUser
	for _, c := range o.Credentials {
		hpu, err := forwarder.ParseHostPortUser(c)
		if err != nil {
			return nil, fmt.Errorf("credentials %q: %w", c, err)
		}
		creds = append(creds, hpu)
	}
	cm, err := forwarder.NewCredentialsMatcher(creds, w.Log.Named("credentials"))
	if err != nil {
		return nil, err
	}
	if o.BasicAuth != "" {
		ui, err := forwarder.ParseUserinfo(o.BasicAuth)
		if err != nil {
			return nil, err
		}
		cfg.BasicAuth = ui
	}
	mk := func(l []string) (forwarder.Matcher, error) {
		var items []ruleset.RegexpListItem
		for _, s := range l {
			it, err := ruleset.ParseRegexpListItem(s)
			if err != nil {
				return nil, err
			}
			items = append(items, it)
		}
		return ruleset.NewRegexpMatcherFromList(items)
	}
	if len(o.DenyDomains) > 0 {
		if cfg.DenyDomains, err = mk(o.DenyDomains); err != nil {
			return nil, err
		}
	}
	if len(o.DirectDomains) > 0 {
		if cfg.DirectDomains, err = mk(o.DirectDomains); err != nil {
			return nil, err
		}
	}
	if o.MITM || len(o.MITMDomains) > 0 {
		cfg.MITM = forwarder.DefaultMITMConfig()
		if o.MITMConfig != nil {
			cfg.MITM = o.MITMConfig
		}
		if len(o.MITMDomains) > 0 {
			if cfg.MITMDomains, err = mk(o.MITMDomains); err != nil {
				return nil, err
			}
		}
	}
	if o.ProxyLocalhost != "" {
		cfg.ProxyLocalhost = o.ProxyLocalhost
	}
	for _, s := range o.AllowTimeFrame {
		e, err := ruleset.ParseTimeFrameEntry(s)
		if err != nil {
			return nil, err
		}
		cfg.AllowTimeFrame = append(cfg.AllowTimeFrame, e)
	}
	if o.ProxyProtocol {
		cfg.ProxyProtocolConfig = forwarder.DefaultProxyProtocolConfig()
		if o.ProxyProtoTO > 0 {
			cfg.ProxyProtocolConfig.ReadHeaderTimeout = o.ProxyProtoTO
		}
		if o.ProxyProtoNoTO {
			cfg.ProxyProtocolConfig.ReadHeaderTimeout = 0 // --proxy-protocol-read-header-timeout 0: no limit
		}
	}
	if o.TLSListener {
		cfg.Protocol = forwarder.HTTPSScheme
	}
	if o.LogHTTP != "" {
		cfg.LogHTTPMode = httplog.Mode(o.LogHTTP) // --log-http <mode>
	}
	cfg.ReadLimit = forwarder.SizeSuffix(o.ReadLimit)
	cfg.WriteLimit = forwarder.SizeSuffix(o.WriteLimit)
	cfg.TestingHTTPHandler = o.HTTPHandler
	cfg.ConnectFunc = o.ConnectFunc
	st := 3 * time.Second
	if o.ShutdownTimeout > 0 {
		st = o.ShutdownTimeout
	}
	forwarder.VerifSetShutdown(cfg, st)

	// header rules, wired as command/run does (C16 checks that wiring itself in package run)
	parse := func(l []string) (header.Headers, error) {
		var hs header.Headers
		for _, s := range l {
			h, err := header.ParseHeader(s)
			if err != nil {
				return nil, fmt.Errorf("header rule %q: %w", s, err)
			}
			hs = append(hs, h)
		}
		return hs, nil
	}
	reqH, err := parse(o.RequestHeaders)
	if err != nil {
		return nil, err
	}
	conH, err := parse(o.ConnectHeaders)
	if err != nil {
		return nil, err
	}
	resH, err := parse(o.ResponseHeaders)
	if err != nil {
		return nil, err
	}
	if len(reqH) > 0 || len(conH) > 0 {
		cfg.RequestModifiers = append(cfg.RequestModifiers, forwarder.RequestModifierFunc(func(req *http.Request) error {
			if req.Method == http.MethodConnect {
				return conH.ModifyRequest(req)
			}
			return reqH.ModifyRequest(req)
		}))
	}
	if len(resH) > 0 {
		cfg.ResponseModifiers = append(cfg.ResponseModifiers, forwarder.ResponseModifierFunc(func(res *http.Response) error {
			if req := res.Request; req != nil && req.Method == http.MethodConnect {
				return nil
			}
			return resH.ModifyResponse(res)
		}))
	}
	if len(o.Flags) > 0 {
		// options that reach the configuration the way an operator's do: through the command's own flag plumbing
		fs := pflag.NewFlagSet("world", pflag.ContinueOnError)
		bind.HTTPProxyConfig(fs, cfg, log.DefaultConfig())
		pp := cfg.ProxyProtocolConfig != nil
		ppc := cfg.ProxyProtocolConfig
		if ppc == nil {
			ppc = forwarder.DefaultProxyProtocolConfig()
		}
		bind.ProxyProtocol(fs, &pp, ppc)
		if err := fs.Parse(o.Flags); err != nil {
			return nil, fmt.Errorf("flags %q: %w", o.Flags, err)
		}
		if pp {
			cfg.ProxyProtocolConfig = ppc // (as command/run does)
		}
	}
	if o.Tweak != nil {
		o.Tweak(cfg, tcfg)
	}
	w.Net.DialTimeout = tcfg.DialTimeout

	rt, err := forwarder.NewHTTPTransport(tcfg)
	if err != nil {
		return nil, err
	}
	rt.DialContext = martianlog.LoggingDialContext(rt.DialContext)
	rt.GetProxyConnectHeader = func(ctx context.Context, proxyURL *url.URL, target string) (http.Header, error) {
		h := make(http.Header, len(conH))
		for _, ch := range conH {
			ch.Apply(h)
		}
		return h, nil
	}
	if o.TweakTransport != nil {
		o.TweakTransport(rt)
	}
	hp, err := forwarder.NewHTTPProxy(cfg, pr, cm, rt, w.Log.Named("proxy"), nil)
	if err != nil {
		return nil, err
	}
	w.Proxy, w.Cfg = hp, cfg
	ctx, cancel := context.WithCancel(context.Background())
	w.cancel = cancel
	w.runErr = make(chan error, 1)
	go func() { w.runErr <- hp.Run(ctx) }()
	synctest.Wait()
	return w, nil
}

// Shutdown cancels Run's context (graceful shutdown) without waiting.
func (w *World) Shutdown() { w.cancel() }

// Stop shuts the proxy down and waits (in virtual time) for Run to return.
func (w *World) Stop() error {
	if w.stopped {
		return nil
	}
	w.stopped = true
	w.cancel()
	select {
	case err := <-w.runErr:
		if err == context.Canceled {
			err = nil
		}
		return err
	case <-time.After(10 * time.Minute):
		return fmt.Errorf("proxy Run did not return within 10 virtual minutes after cancellation")
	}
}

// RunReturned reports (non-blocking) whether Run has returned.
func (w *World) RunReturned() (bool, error) {
	select {
	case err := <-w.runErr:
		w.runErr <- err
		return true, err
	default:
		return false, nil
	}
}

// ---- scripted peers ------------------------------------------------------------------------------

// Peer is one end of a simnet connection held by the scenario.
type Peer struct {
	C   *simnet.Conn
	buf []byte
	// Hold: the peer does not read (models a receiver that has stopped draining its socket); Recv then
	// returns only what was taken earlier. Combine with C.SetLimit to exert back-pressure on the writer.
	Hold bool
}

// Client connects a new scripted client to the proxy.
func (w *World) Client() (*Peer, error) {
	w.nclient++
	from := fmt.Sprintf("client%d.test", w.nclient)
	if w.V6Clients {
		from = fmt.Sprintf("2001:db8::c:%x", w.nclient) // clients reach the proxy from IPv6 addresses
	}
	c, err := w.Net.DialFrom(from, w.Addr)
	if err != nil {
		return nil, err
	}
	synctest.Wait()
	return &Peer{C: c}, nil
}

// Send writes one segment and waits for quiescence.
func (p *Peer) Send(b []byte) error {
	_, err := p.C.Write(b)
	synctest.Wait()
	return err
}

// SendNoWait writes one segment.
func (p *Peer) SendNoWait(b []byte) error {
	_, err := p.C.Write(b)
	return err
}

// Recv returns everything received so far (cumulative).
func (p *Peer) Recv() []byte {
	if !p.Hold {
		nb := p.C.Take()
		scanPoison(p.C.Name, p.buf, nb)
		p.buf = append(p.buf, nb...)
	}
	return p.buf
}

// ---- pool poison (engine/vpool, vsync.Pool): storage released to a sync.Pool is overwritten with 0xDB;
// bytes of that pattern arriving at a scripted peer prove that the proxy sent memory it had already released.

var (
	poisonMu   sync.Mutex
	poisonSeen string
)

const poisonRun = 8

func scanPoison(where string, old, nb []byte) {
	if len(nb) == 0 {
		return
	}
	// include the tail of what was received before so that a run split across segments is seen
	k := len(old) - (poisonRun - 1)
	if k < 0 {
		k = 0
	}
	b := append(append([]byte{}, old[k:]...), nb...)
	run := 0
	for i, c := range b {
		if c == 0xDB {
			run++
			if run >= poisonRun {
				poisonMu.Lock()
				if poisonSeen == "" {
					poisonSeen = fmt.Sprintf("%s received released pool memory (a run of 0x%X bytes) at stream offset %d", where, 0xDB, k+i-poisonRun+1)
				}
				poisonMu.Unlock()
				return
			}
		} else {
			run = 0
		}
	}
}

// Poisoned reports the first sighting of pool poison at a scripted peer in this process since the last
// call (and clears it).
func Poisoned() string {
	poisonMu.Lock()
	defer poisonMu.Unlock()
	s := poisonSeen
	poisonSeen = ""
	return s
}

// RecvNew returns only the bytes that arrived since the last call to Recv/RecvNew.
func (p *Peer) RecvNew() []byte {
	n := len(p.buf)
	p.Recv()
	return p.buf[n:]
}

// EOF: the other side has finished sending and everything was taken.
func (p *Peer) EOF() bool {
	st := p.C.Status()
	return st.EOF && st.Pending == 0
}

func (p *Peer) Reset() bool { return p.C.Status().Reset }

func (p *Peer) CloseWrite() { p.C.CloseWrite(); synctest.Wait() }
func (p *Peer) Close()      { p.C.Close(); synctest.Wait() }
func (p *Peer) Abort()      { p.C.Abort(); synctest.Wait() }

// Server is a scripted listener (origin or upstream proxy).
type Server struct {
	L    *simnet.Listener
	Addr string
}

func (w *World) Server(addr string) (*Server, error) {
	l, err := w.Net.Listen(addr)
	if err != nil {
		return nil, err
	}
	sv := &Server{L: l, Addr: addr}
	w.servers = append(w.servers, sv)
	return sv, nil
}

// AnswerPlainRequests accepts on every scripted server and answers each complete plain HTTP request
// found on a fresh connection with 200 (used by probes that do not care about the route).
func (w *World) AnswerPlainRequests() int {
	for _, sv := range w.servers {
		for {
			p := sv.Accept()
			if p == nil {
				break
			}
			w.probeConns = append(w.probeConns, p)
		}
	}
	n := 0
	for _, p := range w.probeConns {
		if bytes.HasSuffix(p.Recv(), []byte("\r\n\r\n")) && bytes.HasPrefix(p.Recv(), []byte("GET ")) && len(p.C.Take()) == 0 && p.C.Written() == 0 {
			p.Send([]byte("HTTP/1.1 200 OK\r\nContent-Length: 2\r\n\r\nok"))
			n++
		}
	}
	return n
}

// CloseProbeConns releases the connections AnswerPlainRequests accepted.
func (w *World) CloseProbeConns() {
	for _, p := range w.probeConns {
		p.Close()
	}
}

// Accept returns the next pending connection or nil.
func (s *Server) Accept() *Peer {
	c := s.L.TryAccept()
	if c == nil {
		return nil
	}
	return &Peer{C: c}
}

// ---- metrics ---------------------------------------------------------------------------------------

// Gauges gathers the registry and returns name{labels} -> value for gauges and counters.
func (w *World) Metrics() (map[string]float64, error) {
	out := map[string]float64{}
	if w.Reg == nil {
		return out, nil
	}
	mfs, err := w.Reg.Gather()
	if err != nil {
		return nil, err
	}
	for _, mf := range mfs {
		for _, m := range mf.GetMetric() {
			var ls []string
			for _, l := range m.GetLabel() {
				ls = append(ls, l.GetName()+"="+l.GetValue())
			}
			sort.Strings(ls)
			key := mf.GetName() + "{" + strings.Join(ls, ",") + "}"
			switch mf.GetType() {
			case dto.MetricType_GAUGE:
				out[key] = m.GetGauge().GetValue()
			case dto.MetricType_COUNTER:
				out[key] = m.GetCounter().GetValue()
			case dto.MetricType_HISTOGRAM:
				out[key+"#count"] = float64(m.GetHistogram().GetSampleCount())
			}
		}
	}
	return out, nil
}

// ---- in-memory logger ------------------------------------------------------------------------------

type MemLog struct {
	mu    sync.Mutex
	lines []string
}

type memLogger struct {
	m    *MemLog
	name string
	with []any
}

func (m *MemLog) Named(name string) *memLogger { return &memLogger{m: m, name: name} }

func (m *MemLog) Lines() []string {
	m.mu.Lock()
	defer m.mu.Unlock()
	return append([]string(nil), m.lines...)
}

func (l *memLogger) add(level, msg string, args []any) {
	l.m.mu.Lock()
	defer l.m.mu.Unlock()
	if len(l.m.lines) > 5000 {
		return
	}
	l.m.lines = append(l.m.lines, fmt.Sprintf("%s [%s] %s %v %v", level, l.name, msg, l.with, args))
}

func (l *memLogger) Error(msg string, args ...any) { l.add("ERROR", msg, args) }
func (l *memLogger) Warn(msg string, args ...any)  { l.add("WARN", msg, args) }
func (l *memLogger) Info(msg string, args ...any)  { l.add("INFO", msg, args) }
func (l *memLogger) Debug(msg string, args ...any) { l.add("DEBUG", msg, args) }
func (l *memLogger) ErrorContext(_ context.Context, msg string, args ...any) {
	l.add("ERROR", msg, args)
}
func (l *memLogger) WarnContext(_ context.Context, msg string, args ...any) { l.add("WARN", msg, args) }
func (l *memLogger) InfoContext(_ context.Context, msg string, args ...any) { l.add("INFO", msg, args) }
func (l *memLogger) DebugContext(_ context.Context, msg string, args ...any) {
	l.add("DEBUG", msg, args)
}
func (l *memLogger) With(args ...any) log.StructuredLogger {
	return &memLogger{m: l.m, name: l.name, with: append(append([]any{}, l.with...), args...)}
}

// Bubble runs fn as the root of a synctest bubble and converts a panic of the root function (or the
// bubble's "blocked goroutines remain" deadlock report) into return values instead of killing the process.
func Bubble(t interface {
	Helper()
}, run func(f func()), fn func()) (panicVal any) {
	defer func() {
		if r := recover(); r != nil {
			panicVal = r
		}
	}()
	var inner any
	run(func() {
		defer func() {
			if r := recover(); r != nil {
				inner = r
			}
		}()
		fn()
	})
	return inner
}

// Leaks waits for quiescence and returns the stacks of all other goroutines still alive in the
// current bubble ("" if none). Call it as the last statement of a scenario.
func Leaks() string {
	synctest.Wait()
	buf := make([]byte, 1<<20)
	buf = buf[:runtime.Stack(buf, true)]
	var out []string
	mine := ""
	for i, g := range strings.Split(string(buf), "\n\n") {
		head, _, _ := strings.Cut(g, "\n")
		if i == 0 {
			// the calling goroutine: remember which bubble this is (goroutines leaked by earlier
			// executions of the same worker process belong to other bubbles)
			if j := strings.Index(head, "synctest bubble "); j >= 0 {
				mine = strings.TrimRight(head[j:], "]:")
			}
			continue
		}
		if mine != "" && !strings.Contains(head, mine+"]") {
			continue
		}
		if !strings.Contains(head, "synctest bubble") || strings.Contains(head, "synctest.Run") || strings.Contains(g, "testing/synctest.testingSynctestTest(") {
			continue
		}
		lines := strings.Split(g, "\n")
		if len(lines) > 14 {
			lines = lines[:14]
		}
		out = append(out, strings.Join(lines, "\n"))
	}
	return strings.Join(out, "\n\n")
}

type failer interface {
	Failf(sig, format string, a ...any)
	Failed() bool
}

// Repanic handles the value returned by Bubble: the bubble's leak report becomes an oracle failure
// (unless the scenario already reported one), anything else is re-raised for the explorer.
func Repanic(x failer, p any) {
	if s := fmt.Sprint(p); strings.HasPrefix(s, "deadlock: main bubble goroutine has exited") {
		if !x.Failed() {
			x.Failf("goroutine-leak", "%s", s)
		}
		return
	}
	panic(p)
}

// Run executes scenario f(x) inside a fresh synctest bubble (helper shared by all Engine S checks).
func Run(t *testing.T, x failer, f func()) {
	Poisoned()
	if p := Bubble(t, func(g func()) { synctest.Test(t, func(*testing.T) { g() }) }, f); p != nil {
		Repanic(x, p)
	}
	if p := Poisoned(); p != "" {
		x.Failf("use-after-pool-put", "the proxy sent memory it had already released to a sync.Pool: %s", p)
	}
}

// Settle lets d of virtual time pass and waits for quiescence (dial retries back off on the clock).
func Settle(d time.Duration) {
	time.Sleep(d)
	synctest.Wait()
}

// SawEOF reports whether the peer's FIN was observed after all data was taken.
func (p *Peer) SawEOF() bool { p.Recv(); return p.EOF() }

// PeerReleased reports whether the other side released (closed) its end.
func (p *Peer) PeerReleased() bool { return p.C.Status().PeerClosed }
