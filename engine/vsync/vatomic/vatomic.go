// Package vatomic is the sync/atomic shim of Engine T: every operation of a scheduler thread is a
// scheduling point, then the real atomic operation is performed.
package vatomic

import (
	"sync/atomic"

	"github.com/saucelabs/forwarder/internal/zzverif/vsync"
)

type Bool struct{ v atomic.Bool }

func (b *Bool) Load() bool       { vsync.Point("atomic.Bool.Load"); return b.v.Load() }
func (b *Bool) Store(x bool)     { vsync.Point("atomic.Bool.Store"); b.v.Store(x) }
func (b *Bool) Swap(x bool) bool { vsync.Point("atomic.Bool.Swap"); return b.v.Swap(x) }
func (b *Bool) CompareAndSwap(o, n bool) bool {
	vsync.Point("atomic.Bool.CompareAndSwap")
	return b.v.CompareAndSwap(o, n)
}

type Int32 struct{ v atomic.Int32 }

func (i *Int32) Load() int32        { vsync.Point("atomic.Int32.Load"); return i.v.Load() }
func (i *Int32) Store(x int32)      { vsync.Point("atomic.Int32.Store"); i.v.Store(x) }
func (i *Int32) Add(d int32) int32  { vsync.Point("atomic.Int32.Add"); return i.v.Add(d) }
func (i *Int32) Swap(x int32) int32 { vsync.Point("atomic.Int32.Swap"); return i.v.Swap(x) }
func (i *Int32) CompareAndSwap(o, n int32) bool {
	vsync.Point("atomic.Int32.CompareAndSwap")
	return i.v.CompareAndSwap(o, n)
}

type Int64 struct{ v atomic.Int64 }

func (i *Int64) Load() int64       { vsync.Point("atomic.Int64.Load"); return i.v.Load() }
func (i *Int64) Store(x int64)     { vsync.Point("atomic.Int64.Store"); i.v.Store(x) }
func (i *Int64) Add(d int64) int64 { vsync.Point("atomic.Int64.Add"); return i.v.Add(d) }

type Uint32 struct{ v atomic.Uint32 }

func (i *Uint32) Load() uint32        { vsync.Point("atomic.Uint32.Load"); return i.v.Load() }
func (i *Uint32) Store(x uint32)      { vsync.Point("atomic.Uint32.Store"); i.v.Store(x) }
func (i *Uint32) Add(d uint32) uint32 { vsync.Point("atomic.Uint32.Add"); return i.v.Add(d) }

type Uint64 struct{ v atomic.Uint64 }

func (i *Uint64) Load() uint64        { vsync.Point("atomic.Uint64.Load"); return i.v.Load() }
func (i *Uint64) Store(x uint64)      { vsync.Point("atomic.Uint64.Store"); i.v.Store(x) }
func (i *Uint64) Add(d uint64) uint64 { vsync.Point("atomic.Uint64.Add"); return i.v.Add(d) }

type Value = atomic.Value

type Pointer[T any] struct{ v atomic.Pointer[T] }

func (p *Pointer[T]) Load() *T   { vsync.Point("atomic.Pointer.Load"); return p.v.Load() }
func (p *Pointer[T]) Store(x *T) { vsync.Point("atomic.Pointer.Store"); p.v.Store(x) }

func LoadUint32(a *uint32) uint32     { vsync.Point("atomic.LoadUint32"); return atomic.LoadUint32(a) }
func StoreUint32(a *uint32, v uint32) { vsync.Point("atomic.StoreUint32"); atomic.StoreUint32(a, v) }
func AddUint32(a *uint32, d uint32) uint32 {
	vsync.Point("atomic.AddUint32")
	return atomic.AddUint32(a, d)
}
func LoadInt32(a *int32) int32     { vsync.Point("atomic.LoadInt32"); return atomic.LoadInt32(a) }
func StoreInt32(a *int32, v int32) { vsync.Point("atomic.StoreInt32"); atomic.StoreInt32(a, v) }
func AddInt32(a *int32, d int32) int32 {
	vsync.Point("atomic.AddInt32")
	return atomic.AddInt32(a, d)
}
func LoadInt64(a *int64) int64     { vsync.Point("atomic.LoadInt64"); return atomic.LoadInt64(a) }
func StoreInt64(a *int64, v int64) { vsync.Point("atomic.StoreInt64"); atomic.StoreInt64(a, v) }
func AddInt64(a *int64, d int64) int64 {
	vsync.Point("atomic.AddInt64")
	return atomic.AddInt64(a, d)
}
func CompareAndSwapInt32(a *int32, o, n int32) bool {
	vsync.Point("atomic.CompareAndSwapInt32")
	return atomic.CompareAndSwapInt32(a, o, n)
}
func CompareAndSwapUint32(a *uint32, o, n uint32) bool {
	vsync.Point("atomic.CompareAndSwapUint32")
	return atomic.CompareAndSwapUint32(a, o, n)
}
