// Package vsync is the synchronisation shim of Engines S and T. The build overlay redirects the
// "sync" import of a few repository files here (tools/instr), so their sync.Mutex, sync.Once,
// sync.Pool and `go` statements become the types and functions of this package.
//
// Without an active scheduler (Engine S, and every goroutine that is not a scheduler thread) the
// types are plain, correct primitives whose blocking is durable inside a testing/synctest bubble
// (sync.Mutex.Lock is not, and would freeze the virtual clock when a mutex is held across a timed
// wait). With an active scheduler (Engine T) every operation of a registered thread is a scheduling
// point: the thread parks, the scheduler picks who runs next, and exactly one thread runs at a time.
package vsync

import (
	"bytes"
	"errors"
	"fmt"
	"io"
	"net"
	"runtime"
	"strconv"
	gosync "sync"
	"sync/atomic"
	"testing/synctest"
	"time"
)

// ---- scheduler --------------------------------------------------------------------------------------

type state int

const (
	running state = iota
	parked        // at a scheduling point, may be granted
	blocked       // waits for a shim mutex held by somebody else
	done
)

type thread struct {
	id    int
	name  string
	grant chan struct{}
	st    state
	at    string
	goid  int64
	on    *Mutex
}

// Chooser is how the scheduler asks the explorer: n alternatives, index 0 = keep running the current
// thread (when free is false) - any other answer is a preemption.
type Chooser func(label string, n int, free bool) int

type Scheduler struct {
	mu      gosync.Mutex
	threads []*thread
	byGoid  map[int64]*thread
	cur     *thread
	choose  Chooser
	Trace   []string
	Horizon time.Duration // how far the clock may be advanced when nobody is enabled
	Steps   int
	MaxStep int
	Err     string // "deadlock: ..." / "step limit"
	// IdleIsDone: a state in which no thread is enabled, none waits for a shim mutex and the clock has
	// been advanced to the horizon is the normal end (threads are servers blocked on their input).
	IdleIsDone bool
	Preempt    int
	wake       chan struct{} // signalled when a thread parks or finishes
}

var active atomic.Pointer[Scheduler]

func goid() int64 {
	var buf [64]byte
	b := buf[:runtime.Stack(buf[:], false)]
	b = bytes.TrimPrefix(b, []byte("goroutine "))
	i := bytes.IndexByte(b, ' ')
	n, _ := strconv.ParseInt(string(b[:i]), 10, 64)
	return n
}

func (s *Scheduler) self() *thread {
	id := goid()
	s.mu.Lock()
	defer s.mu.Unlock()
	return s.byGoid[id]
}

// Explore runs body with a scheduler installed. body must start the threads with Go (directly or
// through rewritten `go` statements) and return; Explore then schedules them until all are done,
// a deadlock is found or the step limit is hit. It must be called inside a synctest bubble.
func Explore(choose Chooser, horizon time.Duration, idleIsDone bool, body func()) *Scheduler {
	s := &Scheduler{byGoid: map[int64]*thread{}, choose: choose, Horizon: horizon, MaxStep: 5000, IdleIsDone: idleIsDone, wake: make(chan struct{}, 1)}
	if !active.CompareAndSwap(nil, s) {
		panic("vsync: nested Explore")
	}
	defer active.Store(nil)
	body()
	s.loop()
	return s
}

func (s *Scheduler) loop() {
	waited := time.Duration(0)
	for {
		synctest.Wait()
		select {
		case <-s.wake:
		default:
		}
		s.mu.Lock()
		var enabled []*thread
		alive := 0
		for _, t := range s.threads {
			if t.st != done {
				alive++
			}
			if t.st == parked {
				enabled = append(enabled, t)
			}
		}
		if alive == 0 {
			s.mu.Unlock()
			return
		}
		if len(enabled) == 0 {
			// threads are blocked in real primitives (timers, channels, condition variables) or on mutexes
			s.mu.Unlock()
			if waited >= s.Horizon {
				s.mu.Lock()
				var desc []string
				onMutex := false
				for _, t := range s.threads {
					if t.st != done {
						w := "a real primitive"
						if t.st == blocked {
							w = "a mutex"
							onMutex = true
						}
						desc = append(desc, fmt.Sprintf("%s blocked in %s after %q", t.name, w, t.at))
					}
				}
				if s.IdleIsDone && !onMutex {
					s.mu.Unlock()
					return
				}
				s.Err = fmt.Sprintf("deadlock: no thread can run (horizon %v): %v", s.Horizon, desc)
				s.mu.Unlock()
				return
			}
			// Let virtual time run to the earliest pending timer: the bubble advances the clock only while
			// everything is durably blocked, the woken thread runs to its next scheduling point and signals.
			t0 := time.Now()
			tm := time.NewTimer(s.Horizon - waited)
			select {
			case <-s.wake:
			case <-tm.C:
			}
			tm.Stop()
			if d := time.Since(t0); d > 0 {
				waited += d
			} else {
				waited += time.Nanosecond
			}
			continue
		}
		waited = 0
		s.Steps++
		if s.Steps > s.MaxStep {
			s.Err = fmt.Sprintf("step limit %d exceeded (livelock?)", s.MaxStep)
			s.mu.Unlock()
			return
		}
		// canonical order: the current thread first when it can continue, then ascending ids
		var order []*thread
		curEnabled := false
		for _, t := range enabled {
			if t == s.cur {
				curEnabled = true
			}
		}
		if curEnabled {
			order = append(order, s.cur)
		}
		for _, t := range enabled {
			if t != s.cur {
				order = append(order, t)
			}
		}
		s.mu.Unlock()
		idx := 0
		if len(order) > 1 {
			idx = s.choose("sched", len(order), !curEnabled)
		}
		if idx != 0 && curEnabled {
			s.Preempt++
		}
		t := order[idx]
		s.mu.Lock()
		if len(s.Trace) < 400 {
			s.Trace = append(s.Trace, fmt.Sprintf("%s: %s", t.name, t.at))
		}
		s.cur = t
		t.st = running
		s.mu.Unlock()
		t.grant <- struct{}{}
	}
}

// Go starts f as a scheduler thread (a plain goroutine when no scheduler is active).
func Go(f func()) { GoNamed("", f) }

func GoNamed(name string, f func()) {
	s := active.Load()
	if s == nil {
		go f()
		return
	}
	s.mu.Lock()
	t := &thread{id: len(s.threads), name: name, grant: make(chan struct{}), st: parked, at: "start"}
	if t.name == "" {
		t.name = fmt.Sprintf("T%d", t.id)
	}
	s.threads = append(s.threads, t)
	s.mu.Unlock()
	go func() {
		id := goid()
		s.mu.Lock()
		t.goid = id
		s.byGoid[id] = t
		s.mu.Unlock()
		<-t.grant
		defer func() {
			s.mu.Lock()
			t.st = done
			delete(s.byGoid, id)
			s.mu.Unlock()
			s.signal()
		}()
		f()
	}()
}

// Point is a scheduling point of the calling thread (no-op for goroutines that are not threads).
func Point(label string) {
	s := active.Load()
	if s == nil {
		return
	}
	t := s.self()
	if t == nil {
		return
	}
	s.mu.Lock()
	t.st, t.at = parked, label
	s.mu.Unlock()
	s.signal()
	<-t.grant
}

func (s *Scheduler) signal() {
	select {
	case s.wake <- struct{}{}:
	default:
	}
}

// ---- Mutex ---------------------------------------------------------------------------------------------

// Mutex is a one-slot channel semaphore (durably blocking); under a scheduler Lock and Unlock are
// scheduling points and a thread that finds the mutex held is disabled until it is released.
type Mutex struct {
	once gosync.Once
	ch   chan struct{}
	wmu  gosync.Mutex
	wait []*thread
}

func (m *Mutex) init() { m.once.Do(func() { m.ch = make(chan struct{}, 1) }) }

func (m *Mutex) TryLock() bool {
	m.init()
	select {
	case m.ch <- struct{}{}:
		return true
	default:
		return false
	}
}

func (m *Mutex) Lock() {
	m.init()
	s := active.Load()
	var t *thread
	if s != nil {
		t = s.self()
	}
	if t == nil {
		m.ch <- struct{}{}
		return
	}
	Point("Lock")
	for !m.TryLock() {
		s.mu.Lock()
		t.st, t.on = blocked, m
		s.mu.Unlock()
		m.wmu.Lock()
		m.wait = append(m.wait, t)
		m.wmu.Unlock()
		// the mutex may have been released between TryLock and the registration
		if m.TryLock() {
			m.dropWaiter(t)
			s.mu.Lock()
			t.st, t.on = running, nil
			s.mu.Unlock()
			return
		}
		<-t.grant
	}
}

func (m *Mutex) dropWaiter(t *thread) {
	m.wmu.Lock()
	for i, w := range m.wait {
		if w == t {
			m.wait = append(m.wait[:i], m.wait[i+1:]...)
			break
		}
	}
	m.wmu.Unlock()
}

func (m *Mutex) Unlock() {
	m.init()
	select {
	case <-m.ch:
	default:
		panic("vsync: unlock of unlocked mutex")
	}
	if s := active.Load(); s != nil {
		m.wmu.Lock()
		ws := m.wait
		m.wait = nil
		m.wmu.Unlock()
		s.mu.Lock()
		for _, w := range ws {
			if w.st == blocked {
				w.st, w.on, w.at = parked, nil, "Lock (retry)"
			}
		}
		s.mu.Unlock()
		Point("Unlock")
	}
}

// ---- Once ----------------------------------------------------------------------------------------------

type Once struct {
	done atomic.Bool
	m    Mutex
}

func (o *Once) Do(f func()) {
	Point("Once.Do")
	if o.done.Load() {
		return
	}
	o.m.Lock()
	defer o.m.Unlock()
	if !o.done.Load() {
		defer o.done.Store(true)
		f()
	}
}

// ---- Pool ----------------------------------------------------------------------------------------------

// Pool is a deterministic LIFO pool (never drops items, no per-P caches).
type Pool struct {
	New   func() any
	mu    gosync.Mutex
	items []any
}

func (p *Pool) Get() any {
	Point("Pool.Get")
	p.mu.Lock()
	if n := len(p.items); n > 0 {
		x := p.items[n-1]
		p.items = p.items[:n-1]
		p.mu.Unlock()
		return x
	}
	p.mu.Unlock()
	if p.New != nil {
		return p.New()
	}
	return nil
}

func (p *Pool) Put(x any) {
	Point("Pool.Put")
	scribble(x) // adversarial pool: released byte storage is garbage from now on (see engine/vpool)
	p.mu.Lock()
	p.items = append(p.items, x)
	p.mu.Unlock()
}

// ---- WaitGroup, RWMutex, Map, Cond: thin aliases (not scheduling points) ---------------------------------------

type (
	WaitGroup = gosync.WaitGroup
	RWMutex   = gosync.RWMutex
	Map       = gosync.Map
	Cond      = gosync.Cond
	Locker    = gosync.Locker
)

func NewCond(l Locker) *Cond { return gosync.NewCond(l) }

// ---- map iteration order ---------------------------------------------------------------------------------

// MapOrder, when set by a harness, decides the iteration order of the maps whose range statements
// tools/instr routes through RangeOrder: it is asked for a rotation of the sorted key list.
var MapOrder func(label string, n int) int

// RangeOrder returns the keys of m in the order the code under test is to visit them. Go leaves the
// order of map iteration unspecified; under a scheduler (or when MapOrder is set) the keys are sorted by
// key(k) and then rotated by an explored choice, so that the order is owned by the harness. Otherwise the
// native order is kept and key is never called.
// KeyOf is the canonical sort key of a map key of any type the rewritten files range over (so that the rewrite does
// not depend on the key type a tree under test happens to use): a connection by its remote address, numbers zero-padded.
func KeyOf(k any) string {
	switch v := k.(type) {
	case interface{ RemoteAddr() net.Addr }:
		return v.RemoteAddr().String()
	case string:
		return v
	case uint32:
		return fmt.Sprintf("%010d", v)
	case int:
		return fmt.Sprintf("%020d", v)
	case uint64:
		return fmt.Sprintf("%020d", v)
	}
	return fmt.Sprint(k)
}

func RangeOrder[K comparable, V any](m map[K]V, key func(any) string) []K {
	keys := make([]K, 0, len(m))
	for k := range m {
		keys = append(keys, k)
	}
	s := active.Load()
	if (s == nil && MapOrder == nil) || len(keys) < 2 {
		return keys
	}
	ks := make([]string, len(keys))
	for i, k := range keys {
		ks[i] = key(k)
	}
	// insertion sort by ks (tiny maps)
	for i := 1; i < len(keys); i++ {
		for j := i; j > 0 && ks[j] < ks[j-1]; j-- {
			ks[j], ks[j-1] = ks[j-1], ks[j]
			keys[j], keys[j-1] = keys[j-1], keys[j]
		}
	}
	r := 0
	if MapOrder != nil {
		r = MapOrder("map-order", len(keys))
	} else if s != nil {
		r = s.choose("map-order", len(keys), true)
	}
	return append(append([]K{}, keys[r:]...), keys[:r]...)
}

// scribble overwrites the byte storage reachable from a pooled object (same model as engine/vpool; kept
// here so that this package stays free of dependencies).
func scribble(v any) {
	fill := func(b []byte) {
		b = b[:cap(b)]
		for i := range b {
			b[i] = 0xDB
		}
	}
	switch t := v.(type) {
	case []byte:
		fill(t)
	case *[]byte:
		if t != nil {
			fill(*t)
		}
	case interface{ Bytes() []byte }:
		fill(t.Bytes())
	case interface{ Reset(io.Reader) }: // *bufio.Reader: later reads through it see its next owner's data
		t.Reset(&poisonSource{left: 512})
	case interface{ Reset(io.Writer) }: // *bufio.Writer: later writes go elsewhere
		t.Reset(io.Discard)
	}
}

// poisonSource delivers a bounded amount of poison and then fails: an endless source would let a caller that
// reads "until the connection closes" fill the memory.
type poisonSource struct{ left int }

func (p *poisonSource) Read(b []byte) (int, error) {
	if p.left <= 0 {
		return 0, errUseAfterPut
	}
	n := min(len(b), p.left)
	for i := 0; i < n; i++ {
		b[i] = 0xDB
	}
	p.left -= n
	return n, nil
}

var errUseAfterPut = errors.New("read through a pooled reader after it was returned to its pool")
