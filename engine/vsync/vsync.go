// Package vsync provides a mutex whose Lock blocks durably inside a testing/synctest bubble
// (a one-slot channel semaphore). sync.Mutex.Lock is not a durable block, so a goroutine waiting for
// a sync.Mutex that another goroutine holds across a timed wait freezes the bubble's virtual clock.
// The build overlay substitutes this type for sync.Mutex in the few files that do exactly that.
package vsync

import "sync"

type Mutex struct {
	once sync.Once
	ch   chan struct{}
}

func (m *Mutex) init() { m.once.Do(func() { m.ch = make(chan struct{}, 1) }) }

func (m *Mutex) Lock() {
	m.init()
	m.ch <- struct{}{}
}

func (m *Mutex) TryLock() bool {
	m.init()
	select {
	case m.ch <- struct{}{}:
		return true
	default:
		return false
	}
}

func (m *Mutex) Unlock() {
	m.init()
	select {
	case <-m.ch:
	default:
		panic("vsync: unlock of unlocked mutex")
	}
}
