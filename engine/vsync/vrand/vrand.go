// Package vrand replaces math/rand/v2 in the files rewritten by tools/instr: randomness the code uses for
// jitter must be owned by the harness, otherwise the number of scheduling points of one schedule varies.
package vrand

// IntN returns 0 (no jitter).
func IntN(n int) int { return 0 }

// N returns 0.
func N[T ~int | ~int64 | ~uint | ~uint32 | ~uint64 | ~int32](n T) T { return 0 }
