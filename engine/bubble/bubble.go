// Package bubble holds the testing/synctest helpers shared by all bubble-based harnesses. It has no
// dependency on the repository, so in-package harnesses (e.g. inside internal/martian/h2) can use it.
package bubble

import (
	"fmt"
	"runtime"
	"strings"
	"testing"
	"testing/synctest"
	"time"
)

// Catch runs fn as the root of a bubble and converts a panic of the root function (or the bubble's
// "blocked goroutines remain" report) into a return value instead of killing the process.
func Catch(t *testing.T, fn func()) (panicVal any) {
	defer func() {
		if r := recover(); r != nil {
			panicVal = r
		}
	}()
	var inner any
	synctest.Test(t, func(*testing.T) {
		defer func() {
			if r := recover(); r != nil {
				inner = r
			}
		}()
		fn()
	})
	return inner
}

// Failer is the part of explore.X needed here.
type Failer interface {
	Failf(sig, format string, a ...any)
	Failed() bool
}

// Run executes f inside a fresh bubble; a leak report becomes an oracle failure, other panics are re-raised.
func Run(t *testing.T, x Failer, f func()) {
	if p := Catch(t, f); p != nil {
		if s := fmt.Sprint(p); strings.HasPrefix(s, "deadlock: main bubble goroutine has exited") {
			if !x.Failed() {
				x.Failf("goroutine-leak", "%s", s)
			}
			return
		}
		panic(p)
	}
}

// Leaks waits for quiescence and returns the stacks of all other goroutines still alive in the
// current bubble ("" if none).
func Leaks() string {
	synctest.Wait()
	buf := make([]byte, 1<<20)
	buf = buf[:runtime.Stack(buf, true)]
	var out []string
	mine := ""
	for i, g := range strings.Split(string(buf), "\n\n") {
		head, _, _ := strings.Cut(g, "\n")
		if i == 0 {
			if j := strings.Index(head, "synctest bubble "); j >= 0 {
				mine = strings.TrimRight(head[j:], "]:")
			}
			continue
		}
		if mine != "" && !strings.Contains(head, mine+"]") {
			continue
		}
		if !strings.Contains(head, "synctest bubble") || strings.Contains(head, "synctest.Run") || strings.Contains(g, "testing/synctest.testingSynctestTest(") {
			continue
		}
		lines := strings.Split(g, "\n")
		if len(lines) > 14 {
			lines = lines[:14]
		}
		out = append(out, strings.Join(lines, "\n"))
	}
	return strings.Join(out, "\n\n")
}

// Settle lets d of virtual time pass and waits for quiescence.
func Settle(d time.Duration) {
	if d > 0 {
		time.Sleep(d)
	}
	synctest.Wait()
}
