package explore

import "syscall"

var sigQuit = syscall.SIGQUIT
