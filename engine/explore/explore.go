// Package explore is the stateless, exhaustive choice-tree explorer shared by every check in /verif.
//
// An execution of a scenario is identified by its choice vector. The explorer runs the scenario
// with a prefix, answers 0 at every later choice point, records the arity met at each point and
// then branches on every later point (depth-first work list, deviation-bounded). Scenarios that
// are operation sequences on one object additionally announce a canonical state key before a
// choice point; a state already expanded with at least as much remaining depth is not expanded
// again (explicit-state dedupe). Nothing is sampled.
package explore

import (
	"bufio"
	"crypto/sha256"
	"encoding/hex"
	"encoding/json"
	"fmt"
	"hash/fnv"
	"io"
	"os"
	"os/exec"
	"path/filepath"
	"runtime"
	"runtime/debug"
	"sort"
	"strconv"
	"strings"
	"sync"
	"testing"
	"time"
)

// Point is one choice point met by an execution.
type Point struct {
	L string `json:"l"`           // label
	N int    `json:"n"`           // arity
	C int    `json:"c"`           // choice taken
	F bool   `json:"f,omitempty"` // free: a non-zero choice here costs no deviation
	K uint64 `json:"k,omitempty"` // canonical state key announced before this point (0 = none)
	R int    `json:"r,omitempty"` // remaining depth at that state
}

// Failure is one oracle failure of an execution.
type Failure struct {
	Sig string `json:"sig"` // stable signature, matched against known_findings.txt
	Msg string `json:"msg"`
}

// Result is everything the explorer learns from one execution.
type Result struct {
	Points  []Point   `json:"p"`
	Fails   []Failure `json:"f,omitempty"`
	Outcome string    `json:"o,omitempty"`
	Checks  int       `json:"k"`
	Trace   []string  `json:"t,omitempty"`
	Crash   string    `json:"crash,omitempty"`   // worker died / panic text
	Harness string    `json:"harness,omitempty"` // harness error (divergent replay, stall) - never a verdict
}

// X is handed to the scenario for one execution.
type X struct {
	mu      sync.Mutex // choice points may be met by goroutines of the code under test (map-order hook)
	prefix  []int
	res     Result
	pk      uint64
	pr      int
	keep    bool // keep trace
	stopped bool
}

type harnessPanic struct{ msg string }

// Choose is an environment decision point: 0 is the default answer, a non-zero answer costs one deviation.
func (x *X) Choose(label string, n int) int { return x.choose(label, n, false) }

// ChooseFree is a decision point of a full-product dimension (non-zero answers cost nothing).
func (x *X) ChooseFree(label string, n int) int { return x.choose(label, n, true) }

func (x *X) choose(label string, n int, free bool) int {
	x.mu.Lock()
	defer x.mu.Unlock()
	if n <= 0 {
		panic(harnessPanic{fmt.Sprintf("choice point %q with arity %d", label, n)})
	}
	i := len(x.res.Points)
	c := 0
	if i < len(x.prefix) {
		c = x.prefix[i]
		if c < 0 || c >= n {
			panic(harnessPanic{fmt.Sprintf("replay diverged at point %d %q: choice %d out of arity %d", i, label, c, n)})
		}
	}
	x.res.Points = append(x.res.Points, Point{L: label, N: n, C: c, F: free, K: x.pk, R: x.pr})
	x.pk, x.pr = 0, 0
	if x.keep {
		x.res.Trace = append(x.res.Trace, fmt.Sprintf("choose[%d] %s = %d/%d", i, label, c, n))
	}
	return c
}

// Bool is Choose with arity 2.
func (x *X) Bool(label string) bool { return x.Choose(label, 2) == 1 }

// State announces the canonical key of the current state; it is attached to the next choice point.
func (x *X) State(key string, remaining int) {
	h := fnv.New64a()
	io.WriteString(h, key)
	k := h.Sum64()
	if k == 0 {
		k = 1
	}
	x.pk, x.pr = k, remaining
}

// Failf records an oracle failure. sig must be stable across runs and identify the failing class.
func (x *X) Failf(sig, format string, a ...any) {
	x.res.Fails = append(x.res.Fails, Failure{Sig: sig, Msg: fmt.Sprintf(format, a...)})
}

// Failed reports whether this execution already has a failure.
func (x *X) Failed() bool { return len(x.res.Fails) > 0 }

// Check counts one oracle comparison made on implementation output (used for the non-triviality count).
func (x *X) Check() { x.res.Checks++ }

// Outcome sets the outcome class of this execution (distinct classes are counted).
func (x *X) Outcome(s string) { x.res.Outcome = s }

// Logf appends to the execution trace (kept only for samples, replays and failures).
func (x *X) Logf(format string, a ...any) {
	if x.keep {
		x.res.Trace = append(x.res.Trace, fmt.Sprintf(format, a...))
	}
}

// Tracing says whether the trace is kept (lets scenarios skip expensive formatting).
func (x *X) Tracing() bool { return x.keep }

// Depth is the number of choice points met so far.
func (x *X) Depth() int { return len(x.res.Points) }

// Scenario is one closed system to explore.
type Scenario struct {
	Name string
	// MaxDev bounds the number of non-free non-zero choices; <0 = unbounded.
	MaxDev map[string]int // per tier
	Run    func(x *X)
	// Remote: run executions in worker subprocesses (needed when an execution may crash the process).
	Remote bool
	// Tiers in which the scenario runs (nil = both).
	Tiers []string
	// Nondet: the code under test contains nondeterminism the harness cannot own (Go map iteration);
	// re-runs of one vector must still agree on choice points and failure signatures, but may differ in
	// state keys and outcome class.
	Nondet bool
	// FreeRunning: the scenario lets several goroutines of the code under test run on the Go scheduler, which
	// the harness does not own. An oracle failure observed in ANY run of a vector is a real observation on
	// the real code and is reported as a violation even if a re-run of the same vector passes (the replay
	// file then documents the vector, not a schedule).
	FreeRunning bool
	// StallS overrides the real-time liveness limit (default VERIF_STALL_S = 120 s) for scenarios whose executions
	// take milliseconds and in which "never reaches quiescence" is itself a possible outcome of the code under test
	// (a goroutine blocked on a plain mutex is invisible to the virtual clock): such an execution is reported as `stall`.
	StallS int
}

// Suite is one check: a property, a list of scenarios, one evidence file.
type Suite struct {
	T        *testing.T
	Property string
	Level    string
	Rule     string
	Assume   []string
	Extra    map[string]any

	scen []*Scenario
}

func NewSuite(t *testing.T, property, level, rule string) *Suite {
	return &Suite{T: t, Property: property, Level: level, Rule: rule, Extra: map[string]any{}}
}

func (s *Suite) Add(sc Scenario) { c := sc; s.scen = append(s.scen, &c) }

func envInt(name string, def int) int {
	if v := os.Getenv(name); v != "" {
		if n, err := strconv.Atoi(v); err == nil {
			return n
		}
	}
	return def
}

func verifDir() string {
	if d := os.Getenv("VERIF_DIR"); d != "" {
		return d
	}
	return "/verif"
}

// outDir is where evidence and replays are written (VERIF_OUT overrides it for runs against scratch copies).
func outDir() string {
	if d := os.Getenv("VERIF_OUT"); d != "" {
		return d
	}
	return verifDir()
}

// Tier returns quick or thorough.
func Tier() string {
	if os.Getenv("VERIF_TIER") == "thorough" {
		return "thorough"
	}
	return "quick"
}

func runOne(sc *Scenario, prefix []int, keep bool) (res Result) {
	x := &X{prefix: prefix, keep: keep}
	defer func() {
		if r := recover(); r != nil {
			if hp, ok := r.(harnessPanic); ok {
				x.res.Harness = hp.msg
			} else {
				x.res.Crash = fmt.Sprintf("panic: %v\n%s", r, debug.Stack())
			}
		}
		res = x.res
	}()
	sc.Run(x)
	if len(x.res.Points) < len(prefix) {
		x.res.Harness = fmt.Sprintf("replay diverged: execution ended after %d points, prefix has %d (prefix %s)", len(x.res.Points), len(prefix), vecKey(prefix))
	}
	return
}

// ---- worker protocol -------------------------------------------------------------------------

type request struct {
	Scenario string `json:"s"`
	Prefix   []int  `json:"p"`
	Keep     bool   `json:"k,omitempty"`
}

func (s *Suite) serve() {
	byName := map[string]*Scenario{}
	for _, sc := range s.scen {
		byName[sc.Name] = sc
	}
	in := bufio.NewReaderSize(os.Stdin, 1<<20)
	out := os.NewFile(3, "verif-out")
	if out == nil {
		s.T.Fatal("worker: fd 3 missing")
	}
	w := bufio.NewWriter(out)
	for {
		line, err := in.ReadBytes('\n')
		if err != nil {
			return
		}
		var rq request
		if err := json.Unmarshal(line, &rq); err != nil {
			s.T.Fatalf("worker: bad request: %v", err)
		}
		sc := byName[rq.Scenario]
		if sc == nil {
			s.T.Fatalf("worker: unknown scenario %q", rq.Scenario)
		}
		res := runOne(sc, rq.Prefix, rq.Keep)
		b, _ := json.Marshal(res)
		w.Write(b)
		w.WriteByte('\n')
		w.Flush()
	}
}

type worker struct {
	cmd    *exec.Cmd
	in     io.WriteCloser
	out    *bufio.Reader
	outf   *os.File
	stderr *tailBuf
}

type tailBuf struct {
	mu  sync.Mutex
	buf []byte
}

func (t *tailBuf) Write(p []byte) (int, error) {
	t.mu.Lock()
	defer t.mu.Unlock()
	t.buf = append(t.buf, p...)
	if len(t.buf) > 1<<16 {
		t.buf = t.buf[len(t.buf)-(1<<15):]
	}
	return len(p), nil
}

func (t *tailBuf) String() string {
	t.mu.Lock()
	defer t.mu.Unlock()
	return string(t.buf)
}

func startWorker(testName string) (*worker, error) {
	exe, err := os.Executable()
	if err != nil {
		return nil, err
	}
	pr, pw, err := os.Pipe()
	if err != nil {
		return nil, err
	}
	cmd := exec.Command(exe, "-test.run", "^"+testName+"$", "-test.timeout", "0")
	cmd.Env = append(os.Environ(), "VERIF_ROLE=worker", "GOMAXPROCS="+strconv.Itoa(envInt("VERIF_WORKER_PROCS", 2)))
	cmd.ExtraFiles = []*os.File{pw}
	tb := &tailBuf{}
	cmd.Stderr = tb
	cmd.Stdout = tb
	in, err := cmd.StdinPipe()
	if err != nil {
		return nil, err
	}
	if err := cmd.Start(); err != nil {
		return nil, err
	}
	pw.Close()
	return &worker{cmd: cmd, in: in, out: bufio.NewReaderSize(pr, 1<<20), outf: pr, stderr: tb}, nil
}

func (w *worker) kill() {
	w.in.Close()
	w.cmd.Process.Kill()
	w.cmd.Wait()
	w.outf.Close()
}

// call runs one execution in the worker; on death/stall the worker is gone and res.Crash/Harness is set.
func (w *worker) call(rq request, stall time.Duration) (Result, bool) {
	b, _ := json.Marshal(rq)
	b = append(b, '\n')
	if _, err := w.in.Write(b); err != nil {
		w.cmd.Wait()
		return Result{Crash: "worker died before request: " + tail(w.stderr.String(), 4000)}, false
	}
	type rd struct {
		line []byte
		err  error
	}
	ch := make(chan rd, 1)
	go func() {
		l, err := w.out.ReadBytes('\n')
		ch <- rd{l, err}
	}()
	select {
	case r := <-ch:
		if r.err != nil {
			w.cmd.Wait()
			w.outf.Close()
			return Result{Crash: "worker died: " + tail(w.stderr.String(), 6000)}, false
		}
		var res Result
		if err := json.Unmarshal(r.line, &res); err != nil {
			w.kill()
			return Result{Harness: "bad worker reply: " + err.Error()}, false
		}
		return res, true
	case <-time.After(stall):
		// Ask the runtime for goroutine stacks, then kill.
		w.cmd.Process.Signal(sigQuit)
		time.Sleep(300 * time.Millisecond)
		w.kill()
		return Result{Crash: fmt.Sprintf("stall: no result after %v real time\n%s", stall, tail(w.stderr.String(), 6000))}, false
	}
}

func tail(s string, n int) string {
	if len(s) > n {
		return s[len(s)-n:]
	}
	return s
}

// ---- known findings --------------------------------------------------------------------------

type known struct {
	sig, desc string
}

func loadKnown(property string) []known {
	f, err := os.Open(filepath.Join(verifDir(), "known_findings.txt"))
	if err != nil {
		return nil
	}
	defer f.Close()
	var out []known
	sc := bufio.NewScanner(f)
	for sc.Scan() {
		line := strings.TrimSpace(sc.Text())
		if !strings.HasPrefix(line, "finding:") {
			continue
		}
		fs := strings.Fields(strings.TrimPrefix(line, "finding:"))
		if len(fs) < 2 || fs[0] != "property="+property || !strings.HasPrefix(fs[1], "key=") {
			continue
		}
		out = append(out, known{sig: strings.TrimPrefix(fs[1], "key="), desc: strings.Join(fs[2:], " ")})
	}
	return out
}

// ---- exploration -----------------------------------------------------------------------------

type stats struct {
	Scenario    string   `json:"scenario"`
	Executions  int      `json:"executions"`
	Points      int      `json:"choice_points"`
	States      int      `json:"states"`
	Transitions int      `json:"transitions"`
	Pruned      int      `json:"pruned_by_state"`
	MaxDev      int      `json:"deviation_bound"`
	MaxDepth    int      `json:"max_depth"`
	Outcomes    int      `json:"distinct_outcomes"`
	Nontrivial  int      `json:"nontrivial"`
	Exhaustive  bool     `json:"exhaustive"`
	Rechecked   int      `json:"determinism_rechecks"`
	Unstable    int      `json:"unstable"`
	Retried     int      `json:"executions_repeated_after_a_worker_stall"`
	Known       []string `json:"known_findings_hit,omitempty"`
	WallS       float64  `json:"wall_s"`
}

type violation struct {
	Scenario string
	Vector   []int
	Res      Result
}

func vecKey(v []int) string {
	var sb strings.Builder
	for i, c := range v {
		if i > 0 {
			sb.WriteByte(',')
		}
		sb.WriteString(strconv.Itoa(c))
	}
	return sb.String()
}

func sameObservation(a, b Result, nondet bool) string {
	if len(a.Points) != len(b.Points) {
		return fmt.Sprintf("points %d vs %d", len(a.Points), len(b.Points))
	}
	for i := range a.Points {
		if a.Points[i].L != b.Points[i].L || a.Points[i].N != b.Points[i].N || (a.Points[i].K != b.Points[i].K && !nondet) {
			return fmt.Sprintf("point %d: %v vs %v", i, a.Points[i], b.Points[i])
		}
	}
	if a.Outcome != b.Outcome && !nondet {
		return fmt.Sprintf("outcome %q vs %q", a.Outcome, b.Outcome)
	}
	if sigs(a) != sigs(b) {
		return fmt.Sprintf("failures %q vs %q", sigs(a), sigs(b))
	}
	if (a.Crash == "") != (b.Crash == "") {
		return "crash vs no crash"
	}
	return ""
}

func sigs(r Result) string {
	var s []string
	for _, f := range r.Fails {
		s = append(s, f.Sig)
	}
	if r.Crash != "" {
		s = append(s, crashSig(r.Crash))
	}
	sort.Strings(s)
	return strings.Join(s, "|")
}

func crashSig(c string) string {
	if strings.HasPrefix(c, "stall:") {
		return "stall"
	}
	return "crash"
}

// Main runs the suite in the role given by the environment: coordinator (default), worker or replay.
func (s *Suite) Main() {
	t := s.T
	switch os.Getenv("VERIF_ROLE") {
	case "worker":
		s.serve()
		return
	case "replay":
		s.replay(os.Getenv("VERIF_REPLAY"))
		return
	}
	tier := Tier()
	seed := int64(envInt("VERIF_SEED", 0))
	start := time.Now()
	budget := time.Duration(envInt("VERIF_BUDGET_S", map[string]int{"quick": 600, "thorough": 3000}[tier])) * time.Second
	deadline := start.Add(budget)
	knownList := loadKnown(s.Property)

	var all []stats
	var viols []violation
	var samples []any
	outcomes := map[string]int{}
	knownHit := map[string]string{}
	harnessErr := ""
	exhaustive := true

	for _, sc := range s.scen {
		if sc.Tiers != nil && !contains(sc.Tiers, tier) {
			continue
		}
		if only := os.Getenv("VERIF_ONLY"); only != "" && !strings.Contains(sc.Name, only) {
			continue
		}
		st, vs, smp, herr := s.explore(sc, tier, seed, deadline, outcomes)
		for _, v := range vs {
			matched := false
			for _, f := range failuresOf(v.Res) {
				for _, k := range knownList {
					if k.sig == f.Sig {
						knownHit[k.sig] = k.desc
						matched = true
					}
				}
			}
			allKnown := matched
			for _, f := range failuresOf(v.Res) {
				isK := false
				for _, k := range knownList {
					if k.sig == f.Sig {
						isK = true
					}
				}
				if !isK {
					allKnown = false
				}
			}
			if !allKnown {
				viols = append(viols, v)
			}
		}
		for k := range knownHit {
			if !contains(st.Known, k) {
				st.Known = append(st.Known, k)
			}
		}
		sort.Strings(st.Known)
		all = append(all, st)
		samples = append(samples, smp...)
		if !st.Exhaustive {
			exhaustive = false
		}
		if herr != "" && harnessErr == "" {
			// remembered; the remaining scenarios still run (a confirmed violation found by one of them is a
			// verdict in its own right, the harness error is reported next to it)
			harnessErr = herr
		}
	}

	// Report.
	var keys []string
	for k := range knownHit {
		keys = append(keys, k)
	}
	sort.Strings(keys)
	for _, k := range keys {
		fmt.Printf("KNOWN-FINDING: property=%s key=%s %s\n", s.Property, k, knownHit[k])
	}
	seenSig := map[string]bool{}
	nv := 0
	for _, v := range viols {
		sg := v.Scenario + "/" + sigs(v.Res)
		if seenSig[sg] && nv >= 20 {
			continue
		}
		seenSig[sg] = true
		nv++
		path := s.writeReplay(v)
		fmt.Printf("VIOLATION property=%s replay=%s\n", s.Property, path)
		for _, f := range failuresOf(v.Res) {
			fmt.Printf("  [%s] %s: %s\n", v.Scenario, f.Sig, firstLines(f.Msg, 12))
		}
	}

	tot := stats{}
	for _, st := range all {
		tot.Executions += st.Executions
		tot.Points += st.Points
		tot.States += st.States
		tot.Transitions += st.Transitions
		tot.Nontrivial += st.Nontrivial
		tot.Rechecked += st.Rechecked
		tot.Retried += st.Retried
		tot.Unstable += st.Unstable
	}
	cov := map[string]any{
		"evaluations":         tot.Executions,
		"distinct_nontrivial": tot.Nontrivial,
		"distinct_outcomes":   len(outcomes),
		"rule":                s.Rule,
		"samples":             samples,
		"exhaustive":          exhaustive && harnessErr == "",
		"scenarios":           all,
		"determinism_rechecks": tot.Rechecked,
		"unstable":            tot.Unstable,
		"known_findings_hit":  keys,
	}
	if s.Level == "model_checking" {
		states := tot.States
		if states == 0 {
			states = tot.Executions // stateless exploration: every complete execution is one terminal state
		}
		cov["states"] = states
		cov["transitions"] = max(tot.Transitions, tot.Points)
		cov["traces_validated_against_impl"] = tot.Executions
		cov["explanation"] = "every explored trace is an execution of the real implementation (no separate model); traces_validated_against_impl = executions"
	}
	for k, v := range s.Extra {
		cov[k] = v
	}
	ev := map[string]any{
		"property_id": s.Property,
		"tier":        tier,
		"seed":        seed,
		"level":       s.Level,
		"coverage":    cov,
		"assumptions": s.Assume,
		"wall_s":      time.Since(start).Seconds(),
		"violations":  len(viols),
	}
	if harnessErr != "" {
		ev["harness_error"] = harnessErr
	}
	b, _ := json.MarshalIndent(ev, "", " ")
	os.MkdirAll(filepath.Join(outDir(), "evidence"), 0o755)
	if err := os.WriteFile(filepath.Join(outDir(), "evidence", s.Property+".json"), b, 0o644); err != nil {
		t.Fatalf("write evidence: %v", err)
	}
	fmt.Printf("SUMMARY property=%s tier=%s executions=%d states=%d transitions=%d outcomes=%d nontrivial=%d exhaustive=%v violations=%d known=%d wall=%.1fs\n",
		s.Property, tier, tot.Executions, tot.States, max(tot.Transitions, tot.Points), len(outcomes), tot.Nontrivial, exhaustive, len(viols), len(keys), time.Since(start).Seconds())
	if harnessErr != "" {
		fmt.Printf("HARNESS-ERROR property=%s %s\n", s.Property, harnessErr)
		if len(viols) == 0 {
			os.Exit(2)
		}
	}
	if len(viols) > 0 {
		os.Exit(1)
	}
	if os.Getenv("VERIF_NO_VACUITY") == "" && tot.Executions > 20 && len(outcomes) < 2 {
		fmt.Printf("HARNESS-ERROR property=%s vacuous exploration: %d executions, %d distinct outcomes\n", s.Property, tot.Executions, len(outcomes))
		os.Exit(2)
	}
}

func failuresOf(r Result) []Failure {
	fs := append([]Failure{}, r.Fails...)
	if r.Crash != "" {
		fs = append(fs, Failure{Sig: crashSig(r.Crash), Msg: r.Crash})
	}
	return fs
}

func firstLines(s string, n int) string {
	ls := strings.Split(s, "\n")
	if len(ls) > n {
		ls = append(ls[:n], "…")
	}
	return strings.Join(ls, "\n    ")
}

func contains(l []string, s string) bool {
	for _, e := range l {
		if e == s {
			return true
		}
	}
	return false
}

type job struct {
	prefix []int
}

func (s *Suite) explore(sc *Scenario, tier string, seed int64, deadline time.Time, outcomes map[string]int) (stats, []violation, []any, string) {
	start := time.Now()
	st := stats{Scenario: sc.Name, Exhaustive: true}
	maxDev := -1
	if sc.MaxDev != nil {
		if v, ok := sc.MaxDev[tier]; ok {
			maxDev = v
		}
	}
	if v := os.Getenv("VERIF_MAXDEV"); v != "" {
		maxDev = envInt("VERIF_MAXDEV", maxDev)
	}
	st.MaxDev = maxDev

	nw := envInt("VERIF_WORKERS", runtime.NumCPU())
	if nw < 1 {
		nw = 1
	}
	stall := time.Duration(envInt("VERIF_STALL_S", 120)) * time.Second
	if sc.StallS > 0 && os.Getenv("VERIF_STALL_S") == "" {
		stall = time.Duration(sc.StallS) * time.Second
	}
	recheckEvery := 97 + int(seed%53)
	if sc.Remote {
		recheckEvery = 29 + int(seed%13)
	}

	var mu sync.Mutex
	cond := sync.NewCond(&mu)
	stack := []job{{prefix: nil}}
	inflight := 0
	seen := map[uint64]int{}
	var viols []violation
	var samples []any
	harness := ""
	stop := false
	failSigs := map[string]int{}
	var sampleVecs [][]int

	process := func(prefix []int, res Result) {
		// under mu
		st.Executions++
		st.Points += len(res.Points)
		if len(res.Points) > st.MaxDepth {
			st.MaxDepth = len(res.Points)
		}
		oc := sc.Name + ":" + res.Outcome
		if _, ok := outcomes[oc]; !ok {
			if len(sampleVecs) < 6 {
				v := make([]int, len(res.Points))
				for i, p := range res.Points {
					v[i] = p.C
				}
				sampleVecs = append(sampleVecs, v)
			}
		}
		outcomes[oc]++
		if res.Checks > 0 {
			st.Nontrivial++
		}
		// children
		dev := 0
		for i := 0; i < len(prefix) && i < len(res.Points); i++ {
			if res.Points[i].C != 0 && !res.Points[i].F {
				dev++
			}
		}
		if res.Crash != "" && len(res.Points) <= len(prefix) {
			// nothing known beyond the prefix: the subtree cannot be enumerated
		}
		for i := len(prefix); i < len(res.Points); i++ {
			p := res.Points[i]
			if p.K != 0 {
				if r, ok := seen[p.K]; ok && r >= p.R {
					st.Pruned++
					break
				}
				if _, ok := seen[p.K]; !ok {
					st.States++
				}
				seen[p.K] = p.R
			}
			st.Transitions++
			cost := dev
			if !p.F {
				cost++
			}
			if maxDev >= 0 && cost > maxDev {
				continue
			}
			for alt := p.N - 1; alt >= 1; alt-- {
				np := make([]int, i+1)
				for j := 0; j < i; j++ {
					np[j] = res.Points[j].C
				}
				np[i] = alt
				stack = append(stack, job{prefix: np})
			}
		}
	}

	var wg sync.WaitGroup
	runWorker := func(id int) {
		defer wg.Done()
		var w *worker
		defer func() {
			if w != nil {
				w.kill()
			}
		}()
		execute := func(prefix []int, keep bool) Result {
			if !sc.Remote {
				return runOne(sc, prefix, keep)
			}
			if w == nil {
				var err error
				w, err = startWorker(s.T.Name())
				if err != nil {
					return Result{Harness: "cannot start worker: " + err.Error()}
				}
			}
			res, alive := w.call(request{Scenario: sc.Name, Prefix: prefix, Keep: keep}, stall)
			if !alive {
				w = nil
			}
			// A stall (no answer within the real-time liveness limit) or a worker that vanished without a
			// message may be the machine's doing (load, memory pressure), not the code's: such an execution is
			// repeated once on a fresh worker and only a repeated failure is believed.
			if res.Crash != "" && (strings.HasPrefix(res.Crash, "stall:") || strings.TrimSpace(strings.TrimPrefix(res.Crash, "worker died:")) == "") {
				var err error
				if w, err = startWorker(s.T.Name()); err != nil {
					return Result{Harness: "cannot start worker: " + err.Error()}
				}
				res2, alive2 := w.call(request{Scenario: sc.Name, Prefix: prefix, Keep: keep}, 3*stall)
				if !alive2 {
					w = nil
				}
				mu.Lock()
				st.Retried++
				mu.Unlock()
				return res2
			}
			return res
		}
		for {
			mu.Lock()
			for len(stack) == 0 && inflight > 0 && !stop {
				cond.Wait()
			}
			if stop || (len(stack) == 0 && inflight == 0) {
				mu.Unlock()
				cond.Broadcast()
				return
			}
			if time.Now().After(deadline) {
				st.Exhaustive = false
				stop = true
				mu.Unlock()
				cond.Broadcast()
				return
			}
			j := stack[len(stack)-1]
			stack = stack[:len(stack)-1]
			inflight++
			n := st.Executions + inflight
			mu.Unlock()

			res := execute(j.prefix, false)
			bad := len(res.Fails) > 0 || res.Crash != ""
			recheck := !bad && res.Harness == "" && n%recheckEvery == 0
			var v *violation
			unstable := false
			if res.Harness == "" && (bad || recheck) {
				vec := make([]int, len(res.Points))
				for i, p := range res.Points {
					vec[i] = p.C
				}
				if res.Crash != "" && len(vec) < len(j.prefix) {
					vec = j.prefix
				}
				times := 1
				if bad {
					times = 4
					mu.Lock()
					if failSigs[sigs(res)] >= 3 {
						times = 1 // the class is already established; one confirmation is enough
					}
					mu.Unlock()
				}
				var last Result
				for k := 0; k < times; k++ {
					last = execute(vec, bad)
					if last.Harness != "" {
						break
					}
					if d := sameObservation(res, last, sc.Nondet); d != "" {
						unstable = true
						if sc.FreeRunning {
							// schedule-dependent by construction: whichever run failed is the observation
							if !bad && (len(last.Fails) > 0 || last.Crash != "") {
								res, bad = last, true
							}
							last = res
							unstable = false
							break
						}
						if !bad {
							// a passing execution that is not reproducible is a harness defect
							last.Harness = "nondeterministic execution (prefix " + vecKey(vec) + "): " + d
						}
						break
					}
				}
				if last.Harness != "" {
					res.Harness = last.Harness
				} else if bad && !unstable {
					v = &violation{Scenario: sc.Name, Vector: vec, Res: last}
				}
			}

			mu.Lock()
			inflight--
			if recheck {
				st.Rechecked++
			}
			if res.Harness != "" && strings.HasPrefix(res.Harness, "nondeterministic execution") && sc.Remote {
				// A passing execution that did not reproduce inside its worker process: not a verdict, and the run
				// will end as a harness error unless a confirmed violation is found - but the exploration goes on
				// (code under test that keeps state in package-level variables makes executions of one process
				// depend on each other; the scenarios that drive it deliberately must still get their turn).
				if harness == "" {
					harness = sc.Name + ": " + res.Harness
				}
				res.Harness = ""
				st.Unstable++
				process(j.prefix, res)
			} else if res.Harness != "" {
				harness = sc.Name + ": " + res.Harness
				stop = true
			} else {
				if unstable && bad {
					st.Unstable++
				}
				if v != nil {
					failSigs[sigs(res)]++
					if failSigs[sigs(res)] <= 3 {
						viols = append(viols, *v)
					} else {
						// keep one representative per signature beyond the first three, counted only
						viols = append(viols, violation{Scenario: v.Scenario, Vector: v.Vector, Res: Result{Fails: v.Res.Fails, Crash: v.Res.Crash}})
					}
				}
				process(j.prefix, res)
			}
			mu.Unlock()
			cond.Broadcast()
		}
	}
	for i := 0; i < nw; i++ {
		wg.Add(1)
		go runWorker(i)
	}
	wg.Wait()
	if len(stack) > 0 {
		st.Exhaustive = false
	}

	// Samples: re-run a few vectors with tracing on.
	if harness == "" {
		for _, v := range sampleVecs {
			if len(samples) >= 3 {
				break
			}
			var res Result
			if sc.Remote {
				w, err := startWorker(s.T.Name())
				if err != nil {
					break
				}
				res, _ = w.call(request{Scenario: sc.Name, Prefix: v, Keep: true}, stall)
				w.kill()
			} else {
				res = runOne(sc, v, true)
			}
			tr := res.Trace
			if len(tr) > 40 {
				tr = append(tr[:40:40], fmt.Sprintf("… %d more lines", len(res.Trace)-40))
			}
			samples = append(samples, map[string]any{"scenario": sc.Name, "vector": vecKey(v), "outcome": res.Outcome, "trace": tr})
		}
	}
	st.Outcomes = 0
	for k := range outcomes {
		if strings.HasPrefix(k, sc.Name+":") {
			st.Outcomes++
		}
	}
	st.WallS = time.Since(start).Seconds()
	// Keep only violations with traces for the first three of each signature; collapse the rest.
	var out []violation
	cnt := map[string]int{}
	for _, v := range viols {
		k := sigs(v.Res)
		cnt[k]++
		if cnt[k] <= 3 {
			out = append(out, v)
		}
	}
	if len(viols) > len(out) {
		fmt.Printf("note: %s: %d failing executions collapsed into %d reports (signatures: %v)\n", sc.Name, len(viols), len(out), cnt)
	}
	return st, out, samples, harness
}

func (s *Suite) writeReplay(v violation) string {
	h := sha256.Sum256([]byte(s.Property + v.Scenario + vecKey(v.Vector)))
	name := fmt.Sprintf("%s-%s.json", s.Property, hex.EncodeToString(h[:6]))
	dir := filepath.Join(outDir(), "replays")
	os.MkdirAll(dir, 0o755)
	path := filepath.Join(dir, name)
	labels := make([]string, len(v.Res.Points))
	for i, p := range v.Res.Points {
		labels[i] = fmt.Sprintf("%s=%d/%d", p.L, p.C, p.N)
	}
	rec := map[string]any{
		"property": s.Property,
		"test":     s.T.Name(),
		"scenario": v.Scenario,
		"vector":   v.Vector,
		"labels":   labels,
		"failures": failuresOf(v.Res),
		"trace":    v.Res.Trace,
	}
	b, _ := json.MarshalIndent(rec, "", " ")
	os.WriteFile(path, b, 0o644)
	return path
}

func (s *Suite) replay(path string) {
	b, err := os.ReadFile(path)
	if err != nil {
		s.T.Fatalf("replay: %v", err)
	}
	var rec struct {
		Scenario string `json:"scenario"`
		Vector   []int  `json:"vector"`
	}
	if err := json.Unmarshal(b, &rec); err != nil {
		s.T.Fatalf("replay: %v", err)
	}
	for _, sc := range s.scen {
		if sc.Name != rec.Scenario {
			continue
		}
		res := runOne(sc, rec.Vector, true)
		for _, l := range res.Trace {
			fmt.Println(l)
		}
		if res.Harness != "" {
			fmt.Println("HARNESS-ERROR", res.Harness)
			os.Exit(2)
		}
		fs := failuresOf(res)
		for _, f := range fs {
			fmt.Printf("FAIL %s: %s\n", f.Sig, f.Msg)
		}
		if len(fs) > 0 {
			os.Exit(1)
		}
		fmt.Println("replay: no failure")
		return
	}
	s.T.Fatalf("replay: scenario %q not found", rec.Scenario)
}
