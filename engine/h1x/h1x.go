// Package h1x holds HTTP/1 message builders for scripted peers (what the harness *sends*); what it
// *receives* is parsed by httpwire.
package h1x

import (
	"bytes"
	"fmt"
	"strings"

	"github.com/saucelabs/forwarder/internal/zzverif/httpwire"
)

type F = httpwire.Field

// Msg is a message to be sent by a scripted peer.
type Msg struct {
	Start    string // request line or status line, without CRLF
	Fields   []F
	Body     []byte
	Framing  string // "" none | "cl" | "chunked" | "eof"
	Chunks   []int  // chunk sizes (chunked); nil = one chunk
	ChunkExt bool   // add a chunk extension to every chunk
	Trailers []F
}

// Head returns the serialised head including framing fields.
func (m Msg) Head() []byte {
	var b bytes.Buffer
	b.WriteString(m.Start)
	b.WriteString("\r\n")
	for _, f := range m.Fields {
		b.WriteString(f.Name)
		b.WriteString(": ")
		b.WriteString(f.Value)
		b.WriteString("\r\n")
	}
	switch m.Framing {
	case "cl":
		fmt.Fprintf(&b, "Content-Length: %d\r\n", len(m.Body))
	case "chunked":
		b.WriteString("Transfer-Encoding: chunked\r\n")
		if len(m.Trailers) > 0 {
			var names []string
			for _, t := range m.Trailers {
				names = append(names, t.Name)
			}
			b.WriteString("Trailer: " + strings.Join(names, ", ") + "\r\n")
		}
	}
	b.WriteString("\r\n")
	return b.Bytes()
}

// BodyWire returns the body as sent on the wire.
func (m Msg) BodyWire() []byte {
	switch m.Framing {
	case "cl", "eof":
		return m.Body
	case "chunked":
		var b bytes.Buffer
		rest := m.Body
		sizes := m.Chunks
		if sizes == nil && len(rest) > 0 {
			sizes = []int{len(rest)}
		}
		for _, n := range sizes {
			if n > len(rest) {
				n = len(rest)
			}
			if n == 0 {
				continue
			}
			if m.ChunkExt {
				fmt.Fprintf(&b, "%x;ext=1\r\n", n)
			} else {
				fmt.Fprintf(&b, "%x\r\n", n)
			}
			b.Write(rest[:n])
			b.WriteString("\r\n")
			rest = rest[n:]
		}
		if len(rest) > 0 {
			fmt.Fprintf(&b, "%x\r\n", len(rest))
			b.Write(rest)
			b.WriteString("\r\n")
		}
		b.WriteString("0\r\n")
		for _, t := range m.Trailers {
			b.WriteString(t.Name + ": " + t.Value + "\r\n")
		}
		b.WriteString("\r\n")
		return b.Bytes()
	}
	return nil
}

func (m Msg) Wire() []byte { return append(m.Head(), m.BodyWire()...) }

// Pattern returns a deterministic body of n bytes (position dependent, so shifts and swaps show).
func Pattern(n int, salt byte) []byte {
	b := make([]byte, n)
	for i := range b {
		b[i] = 'a' + byte((i*7+i/251+int(salt))%26)
	}
	return b
}

// Cut splits b at the given offsets (ascending, within range) into segments.
func Cut(b []byte, at ...int) [][]byte {
	var out [][]byte
	prev := 0
	for _, k := range at {
		if k <= prev || k >= len(b) {
			continue
		}
		out = append(out, b[prev:k])
		prev = k
	}
	return append(out, b[prev:])
}
